// Driver for C38: the real update::parse_update_metadata.  Script:
//     parse doc=<hex> src=<label>
//     gen kind=arr|obj|arr-open|obj-open|extra-arr|extra-obj depth=<N> src=<label>     (deep nesting, bytes built here)
//     gen kind=pat-<name> pre=<hex> mid=<hex> post=<hex> wrap=0|1 depth=<N> src=<label>  (pre^N mid post^N: any per-level shape,
//                                                                                       e.g. an empty-container or scalar sibling before the child)
// Every document is copied into an exact-size heap block and parsed through a string_view on it (a read past
// the end is a heap-buffer-overflow for the asan flavour).  The cases run in a child process, on a thread with an
// 8 MiB stack, with a 5 s watchdog per case (parsers_sup.hpp): stack overflow / crash / hang become "died" events.
//   updatejson <script> <trace-out>
#include "common/ev.hpp"
#include "parsers_sup.hpp"
#include "ephemeralnet/core/UpdateCheck.hpp"

using namespace ephemeralnet;

struct Case { std::string doc, src, kind, pre, mid, post; long depth = 0; bool wrap = false; };
static const std::string kValidPrefix =
    "{\"version\":\"1.2.3\",\"tag\":\"v1.2.3\",\"commit\":\"abc123\",\"channel\":\"stable\",\"generated_at\":\"2025\","
    "\"downloads\":{\"linux\":{\"url\":\"https://e.x/linux\"}},\"x\":";

static std::string nest(const std::string& kind, long d) {
    std::string s;
    if (kind == "arr" || kind == "arr-open" || kind == "extra-arr") {
        s.assign(static_cast<size_t>(d), '[');
        if (kind != "arr-open") s.append(static_cast<size_t>(d), ']');
    } else {
        for (long i = 0; i + 1 < d; ++i) s += "{\"a\":";
        s += kind == "obj-open" ? "{" : "{}";
        if (kind != "obj-open") s.append(static_cast<size_t>(d > 0 ? d - 1 : 0), '}');
    }
    if (kind == "extra-arr" || kind == "extra-obj") s = kValidPrefix + s + "}";
    return s;
}
static std::string jb(const std::string& s) {
    std::string a = "[";
    for (size_t i = 0; i < s.size(); ++i) { if (i) a += ","; a += std::to_string(static_cast<unsigned>(static_cast<unsigned char>(s[i]))); }
    return a + "]";
}
static void emit_input(ev::Ev& e, const Case& c) {
    e.s("src", c.src).i("n", static_cast<long long>(c.doc.size()));
    if (!c.kind.empty()) e.s("kind", c.kind).i("depth", c.depth);
    if (!c.pre.empty() || !c.post.empty()) e.s("pre", c.pre).s("mid", c.mid).s("post", c.post).i("wrap", c.wrap ? 1 : 0);
    if (c.doc.size() <= 3000) e.raw("doc", jb(c.doc));
}

int main(int argc, char** argv) {
    if (argc < 3) { std::fprintf(stderr, "usage: updatejson <script> <trace>\n"); return 2; }
    std::ifstream in(argv[1]);
    std::vector<Case> cases;
    ev::Cmd cmd;
    while (ev::read_cmd(in, cmd)) {
        Case c; c.src = cmd.s("src");
        if (cmd.op == "parse") c.doc = sup::unhex(cmd.s("doc"));
        else if (cmd.op == "gen" && cmd.s("kind").rfind("pat-", 0) == 0) {
            c.kind = cmd.s("kind"); c.depth = cmd.i("depth"); c.wrap = cmd.i("wrap", 0) != 0;
            c.pre = cmd.s("pre"); c.mid = cmd.s("mid"); c.post = cmd.s("post");
            const std::string pre = sup::unhex(c.pre), mid = sup::unhex(c.mid), post = sup::unhex(c.post);
            std::string d;
            d.reserve((pre.size() + post.size()) * static_cast<size_t>(c.depth) + mid.size() + 300);
            for (long i = 0; i < c.depth; ++i) d += pre;
            d += mid;
            for (long i = 0; i < c.depth; ++i) d += post;
            c.doc = c.wrap ? kValidPrefix + d + "}" : d;
        }
        else if (cmd.op == "gen") { c.kind = cmd.s("kind"); c.depth = cmd.i("depth"); c.doc = nest(c.kind, c.depth); }
        else continue;
        cases.push_back(std::move(c));
    }
    ev::open(argv[2]);
    sup::Options opt; opt.stderr_path = std::string(argv[2]) + ".stderr"; opt.stack_bytes = 8u << 20; opt.watchdog_s = 5;
    auto run_case = [&](long k) {
        const Case& c = cases[static_cast<size_t>(k)];
        std::string line;
        {
            sup::Exact buf(c.doc);
            update::Metadata md;
            std::string err;
            const bool ok = update::parse_update_metadata(std::string_view(reinterpret_cast<const char*>(buf.p), buf.n), md, err);
            ev::Ev e("parse");
            emit_input(e, c);
            e.b("ok", ok).s("err", err);
            if (ok) {
                e.raw("fields", "{\"version\":" + jb(md.version) + ",\"tag\":" + jb(md.tag) + ",\"commit\":" + jb(md.commit) + ",\"channel\":" +
                                    jb(md.channel) + ",\"generated_at\":" + jb(md.generated_at) + "}");
                e.b("has_notes", md.notes_url.has_value()).raw("notes", jb(md.notes_url.value_or("")));
                std::vector<std::string> dl;
                for (const auto& d : md.downloads)
                    dl.push_back("{\"platform\":" + jb(d.platform) + ",\"url\":" + jb(d.url) + ",\"arch\":" + jb(d.arch) + ",\"format\":" + jb(d.format) +
                                 ",\"has_sha\":" + (d.sha256.has_value() ? "true" : "false") + ",\"sha256\":" + jb(d.sha256.value_or("")) + "}");
                e.raw("downloads", ev::jlist(dl));
            }
            e.emit();
        }
    };
    auto died = [&](long k, const std::string& how, const std::string& detail) {
        ev::Ev e("died");
        emit_input(e, cases[static_cast<size_t>(k)]);
        e.s("how", how).s("detail", detail.substr(0, 300)).emit();
        std::fflush(ev::out());
    };
    sup::run(static_cast<long>(cases.size()), run_case, died, opt);
    std::fflush(ev::out());
    return 0;
}
