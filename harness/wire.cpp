// Driver for the real message wire codec (C15, C16): protocol::encode / decode / encode_signed /
// decode_signed.   wire <script> <trace-out>
//
// script (one command per line, byte strings as hex, empty = empty string):
//   msg id=N v=V ty=T <field>=<hex>... key=<hex> [mut=1]
//        fields by type (names of Message.hpp):
//          ty=1 chunk_id peer_id endpoint ttl manifest_uri assigned_shards work_nonce
//          ty=2 chunk_id requester          ty=3 chunk_id data ttl
//          ty=4 chunk_id peer_id accepted   ty=5 public_identity work_nonce requested_version
//          ty=6 accepted negotiated_version responder_public
//        (ttl/public_identity/responder_public = 4 bytes big-endian, nonces 8 bytes, accepted /
//         *_version one byte) -> one "rt" event: the message, encode(m), decode(encode(m)), the
//        re-encoding, encode(m with the version clamped) and the signed round trip.
//        mut=1 additionally applies layout-agnostic mutations to the REAL encoding (every
//        truncation, every 4-byte window set to 0 / value-1 / value+1 / 2^31 / 2^32-1, every byte
//        set to 2 / 255, trailing bytes) and decodes each, plain and signed with a valid MAC.
//   buf id=N src=S kind=K hex=<hex> key=<hex> mode=plain|wrap|signed
//        plain: decode(hex); wrap: decode_signed(hex || HMAC(key, hex), key); signed:
//        decode_signed(hex, key)  -> one "dec" event (input, result, re-encoding)
//   rand n=N seed=S maxlen=L key=<hex>     seeded random buffers (header bytes biased to valid
//        versions/types, many zero bytes so that length fields are small), plain + signed
// 64-bit values and byte strings are logged as byte arrays (TLC integers are 32-bit).  Rejected
// inputs longer than 96 bytes are logged by length only.
#include "common/ev.hpp"
#include "ephemeralnet/crypto/HmacSha256.hpp"
#include "ephemeralnet/protocol/Message.hpp"

#include <algorithm>
#include <cstring>
#include <exception>
#include <optional>
#include <random>
#include <span>
#include <string>
#include <type_traits>
#include <vector>

using namespace ephemeralnet;
namespace proto = ephemeralnet::protocol;
using Bytes = std::vector<std::uint8_t>;

static bool g_echo = false;

static Bytes unhex(const std::string& h) {
    Bytes out;
    out.reserve(h.size() / 2);
    auto nib = [](char c) -> int { return c >= '0' && c <= '9' ? c - '0' : c >= 'a' && c <= 'f' ? c - 'a' + 10 : c >= 'A' && c <= 'F' ? c - 'A' + 10 : 0; };
    for (size_t i = 0; i + 1 < h.size(); i += 2) out.push_back(static_cast<std::uint8_t>(nib(h[i]) * 16 + nib(h[i + 1])));
    return out;
}
static std::string jbytes(const std::uint8_t* p, size_t n) {
    std::string a;
    a.reserve(n * 4 + 2);
    a += '[';
    char tmp[8];
    for (size_t i = 0; i < n; ++i) {
        if (i) a += ',';
        int len = std::snprintf(tmp, sizeof tmp, "%u", static_cast<unsigned>(p[i]));
        a.append(tmp, static_cast<size_t>(len));
    }
    a += ']';
    return a;
}
static std::string jbytes(const Bytes& b) { return jbytes(b.data(), b.size()); }
static std::string jbytes(const std::string& s) { return jbytes(reinterpret_cast<const std::uint8_t*>(s.data()), s.size()); }
template <size_t N> static std::string jbytes(const std::array<std::uint8_t, N>& a) { return jbytes(a.data(), N); }
static std::string jbe(std::uint64_t v, int n) {
    std::uint8_t b[8];
    for (int i = 0; i < n; ++i) b[i] = static_cast<std::uint8_t>((v >> (8 * (n - 1 - i))) & 0xff);
    return jbytes(b, static_cast<size_t>(n));
}
static std::string jttl(std::chrono::seconds s) {
    const auto c = s.count();
    if (c >= 0 && c <= 0xFFFFFFFFll) return jbe(static_cast<std::uint64_t>(c), 4);
    return jbe(static_cast<std::uint64_t>(c), 8);  // outside the wire range: can never equal a 4-byte reference value
}
static std::uint64_t be(const Bytes& b) {
    std::uint64_t v = 0;
    for (auto x : b) v = (v << 8) | x;
    return v;
}
template <size_t N> static std::array<std::uint8_t, N> arr(const Bytes& b) {
    std::array<std::uint8_t, N> a{};
    std::memcpy(a.data(), b.data(), std::min(N, b.size()));
    return a;
}

// the message as a JSON object with the header's field names
static std::string jmsg(const proto::Message& m) {
    std::string s = "{\"v\":" + std::to_string(static_cast<unsigned>(m.version)) + ",\"ty\":" + std::to_string(static_cast<unsigned>(m.type));
    std::visit(
        [&](const auto& p) {
            using P = std::decay_t<decltype(p)>;
            if constexpr (std::is_same_v<P, proto::AnnouncePayload>) {
                s += ",\"chunk_id\":" + jbytes(p.chunk_id) + ",\"peer_id\":" + jbytes(p.peer_id) + ",\"endpoint\":" + jbytes(p.endpoint) +
                     ",\"ttl\":" + jttl(p.ttl) + ",\"manifest_uri\":" + jbytes(p.manifest_uri) + ",\"assigned_shards\":" + jbytes(p.assigned_shards) +
                     ",\"work_nonce\":" + jbe(p.work_nonce, 8);
            } else if constexpr (std::is_same_v<P, proto::RequestPayload>) {
                s += ",\"chunk_id\":" + jbytes(p.chunk_id) + ",\"requester\":" + jbytes(p.requester);
            } else if constexpr (std::is_same_v<P, proto::ChunkPayload>) {
                s += ",\"chunk_id\":" + jbytes(p.chunk_id) + ",\"data\":" + jbytes(p.data) + ",\"ttl\":" + jttl(p.ttl);
            } else if constexpr (std::is_same_v<P, proto::AcknowledgePayload>) {
                s += ",\"chunk_id\":" + jbytes(p.chunk_id) + ",\"peer_id\":" + jbytes(p.peer_id) + ",\"accepted\":" + (p.accepted ? "true" : "false");
            } else if constexpr (std::is_same_v<P, proto::TransportHandshakePayload>) {
                s += ",\"public_identity\":" + jbe(p.public_identity, 4) + ",\"work_nonce\":" + jbe(p.work_nonce, 8) +
                     ",\"requested_version\":" + std::to_string(static_cast<unsigned>(p.requested_version));
            } else if constexpr (std::is_same_v<P, proto::HandshakeAckPayload>) {
                s += std::string(",\"accepted\":") + (p.accepted ? "true" : "false") + ",\"negotiated_version\":" +
                     std::to_string(static_cast<unsigned>(p.negotiated_version)) + ",\"responder_public\":" + jbe(p.responder_public, 4);
            }
        },
        m.payload);
    return s + "}";
}

// does the payload alternative agree with the type byte?  (decode must never produce a mismatch)
static bool coherent(const proto::Message& m) { return static_cast<unsigned>(m.type) == m.payload.index() + 1; }

static proto::Message build(const ev::Cmd& c) {
    proto::Message m{};
    m.version = static_cast<std::uint8_t>(c.i("v"));
    const int ty = static_cast<int>(c.i("ty"));
    m.type = static_cast<proto::MessageType>(ty);
    auto B = [&](const char* k) { return unhex(c.s(k)); };
    auto S = [&](const char* k) { auto b = unhex(c.s(k)); return std::string(b.begin(), b.end()); };
    switch (ty) {
        case 1: {
            proto::AnnouncePayload p{};
            p.chunk_id = arr<32>(B("chunk_id"));
            p.peer_id = arr<32>(B("peer_id"));
            p.endpoint = S("endpoint");
            p.ttl = std::chrono::seconds(static_cast<long long>(be(B("ttl"))));
            p.manifest_uri = S("manifest_uri");
            p.assigned_shards = B("assigned_shards");
            p.work_nonce = be(B("work_nonce"));
            m.payload = std::move(p);
            break;
        }
        case 2: {
            proto::RequestPayload p{};
            p.chunk_id = arr<32>(B("chunk_id"));
            p.requester = arr<32>(B("requester"));
            m.payload = p;
            break;
        }
        case 3: {
            proto::ChunkPayload p{};
            p.chunk_id = arr<32>(B("chunk_id"));
            p.data = B("data");
            p.ttl = std::chrono::seconds(static_cast<long long>(be(B("ttl"))));
            m.payload = std::move(p);
            break;
        }
        case 4: {
            proto::AcknowledgePayload p{};
            p.chunk_id = arr<32>(B("chunk_id"));
            p.peer_id = arr<32>(B("peer_id"));
            p.accepted = be(B("accepted")) != 0;
            m.payload = p;
            break;
        }
        case 5: {
            proto::TransportHandshakePayload p{};
            p.public_identity = static_cast<std::uint32_t>(be(B("public_identity")));
            p.work_nonce = be(B("work_nonce"));
            p.requested_version = static_cast<std::uint8_t>(be(B("requested_version")));
            m.payload = p;
            break;
        }
        default: {
            proto::HandshakeAckPayload p{};
            p.accepted = be(B("accepted")) != 0;
            p.negotiated_version = static_cast<std::uint8_t>(be(B("negotiated_version")));
            p.responder_public = static_cast<std::uint32_t>(be(B("responder_public")));
            m.payload = p;
            break;
        }
    }
    return m;
}

// result of a decode as JSON: {"ok":false} | {"ok":true,"m":{..}} ; exceptions are reported by the caller
struct Dec {
    std::optional<proto::Message> m;
    std::string threw;
};
static Dec do_decode(const Bytes& in, const Bytes* key) {
    Dec d;
    try {
        std::span<const std::uint8_t> view(in.data(), in.size());
        d.m = key ? proto::decode_signed(view, std::span<const std::uint8_t>(key->data(), key->size())) : proto::decode(view);
    } catch (const std::exception& e) {
        d.threw = std::string("std::exception: ") + e.what();
    } catch (...) {
        d.threw = "unknown exception";
    }
    return d;
}
static std::string jdec(const Dec& d) {
    if (!d.m.has_value()) return "{\"ok\":false}";
    return "{\"ok\":true,\"m\":" + jmsg(*d.m) + "}";
}
static Bytes safe_encode(const proto::Message& m, std::string& threw) {
    try {
        return proto::encode(m);
    } catch (const std::exception& e) {
        if (threw.empty()) threw = std::string("encode: std::exception: ") + e.what();
    } catch (...) {
        if (threw.empty()) threw = "encode: unknown exception";
    }
    return {};
}
// which call threw: the text before the first ':'
static std::string threw_in(const std::string& threw) { return threw.substr(0, threw.find(':')); }

static long g_bufid = 0;
// decode one input (plain or signed) and log the dec event
static void run_buf(const std::string& src, const std::string& kind, const Bytes& in, const Bytes& key, bool is_signed, long id = -1) {
    Dec d = do_decode(in, is_signed ? &key : nullptr);
    ev::Ev e("dec");
    e.i("id", id >= 0 ? id : ++g_bufid).s("src", src).s("kind", kind).i("signed", is_signed ? 1 : 0).i("n", static_cast<long long>(in.size()));
    const bool accepted = d.m.has_value();
    if (accepted || !d.threw.empty() || in.size() <= 96) e.raw("in", jbytes(in));
    if (is_signed) e.raw("key", jbytes(key));
    e.raw("res", jdec(d));
    std::string threw = d.threw.empty() ? std::string() : "decode: " + d.threw;
    if (accepted) {
        e.b("coherent", coherent(*d.m));
        Bytes re = safe_encode(*d.m, threw);
        e.raw("reenc", jbytes(re));
    }
    if (!threw.empty()) e.s("threw", threw).s("threw_in", threw_in(threw));
    e.emit();
}
static Bytes with_mac(const Bytes& body, const Bytes& key) {
    const auto mac = crypto::HmacSha256::compute(std::span<const std::uint8_t>(key.data(), key.size()), std::span<const std::uint8_t>(body.data(), body.size()));
    Bytes out = body;
    out.insert(out.end(), mac.begin(), mac.end());
    return out;
}
static void run_both(const std::string& src, const std::string& kind, const Bytes& in, const Bytes& key) {
    run_buf(src, kind, in, key, false);
    run_buf(src, kind, with_mac(in, key), key, true);
}

static void put32(Bytes& b, size_t off, std::uint32_t v) {
    b[off] = static_cast<std::uint8_t>(v >> 24); b[off + 1] = static_cast<std::uint8_t>(v >> 16);
    b[off + 2] = static_cast<std::uint8_t>(v >> 8); b[off + 3] = static_cast<std::uint8_t>(v);
}
static std::uint32_t get32(const Bytes& b, size_t off) {
    return (static_cast<std::uint32_t>(b[off]) << 24) | (static_cast<std::uint32_t>(b[off + 1]) << 16) | (static_cast<std::uint32_t>(b[off + 2]) << 8) | b[off + 3];
}

// layout-agnostic mutations of a real encoding
static void mutate_all(const Bytes& enc, const Bytes& key) {
    const size_t n = enc.size();
    // positions: everything for short encodings; head, tail and a stride for long ones
    std::vector<size_t> pos;
    for (size_t i = 0; i <= n; ++i) if (n <= 400 || i < 120 || i + 48 >= n || i % 97 == 0) pos.push_back(i);
    for (size_t p : pos) {
        if (p < n) run_both("hmut", "trunc", Bytes(enc.begin(), enc.begin() + static_cast<long>(p)), key);
    }
    for (size_t p : pos) {
        if (p + 4 > n) continue;
        const std::uint32_t cur = get32(enc, p);
        const std::uint32_t vals[5] = {0u, cur - 1u, cur + 1u, 0x80000000u, 0xFFFFFFFFu};
        const char* names[5] = {"win/zero", "win/minus1", "win/plus1", "win/2^31", "win/2^32-1"};
        for (int k = 0; k < 5; ++k) {
            if (vals[k] == cur) continue;
            Bytes b = enc;
            put32(b, p, vals[k]);
            run_both("hmut", names[k], b, key);
            if (k == 2) { b.push_back(0xAA); run_both("hmut", "win/plus1-padded", b, key); }
        }
    }
    for (size_t p : pos) {
        if (p >= n) continue;
        for (std::uint8_t x : {std::uint8_t{2}, std::uint8_t{255}}) {
            if (enc[p] == x) continue;
            Bytes b = enc;
            b[p] = x;
            run_both("hmut", "byte", b, key);
        }
    }
    for (size_t extra : {size_t{1}, size_t{2}, size_t{32}, size_t{33}}) {
        Bytes b = enc;
        for (size_t i = 0; i < extra; ++i) b.push_back(static_cast<std::uint8_t>(0x5A + i));
        run_both("hmut", "trailing", b, key);
    }
}

static void run_msg(const ev::Cmd& c) {
    const proto::Message m = build(c);
    const Bytes key = unhex(c.s("key"));
    std::string threw;
    const Bytes enc = safe_encode(m, threw);
    ev::Ev e("rt");
    e.i("id", c.i("id")).raw("m", jmsg(m)).raw("enc", jbytes(enc));
    Dec d = do_decode(enc, nullptr);
    if (!d.threw.empty() && threw.empty()) threw = "decode: " + d.threw;
    e.raw("dec", jdec(d));
    if (d.m.has_value()) {
        e.b("coherent", coherent(*d.m));
        e.raw("reenc", jbytes(safe_encode(*d.m, threw)));
    }
    if (!proto::is_supported_message_version(m.version)) {
        proto::Message mc = m;
        mc.version = m.version < proto::kMinimumMessageVersion ? proto::kMinimumMessageVersion : proto::kCurrentMessageVersion;
        e.raw("encc", jbytes(safe_encode(mc, threw)));
    }
    // signed round trip
    e.raw("key", jbytes(key));
    Dec sd;
    try {
        const Bytes senc = proto::encode_signed(m, std::span<const std::uint8_t>(key.data(), key.size()));
        e.i("senc_n", static_cast<long long>(senc.size()));
        e.b("senc_prefix", senc.size() >= enc.size() && std::equal(enc.begin(), enc.end(), senc.begin()));
        sd = do_decode(senc, &key);
        if (!sd.threw.empty() && threw.empty()) threw = "decode_signed: " + sd.threw;
        // a wrong key / a flipped MAC bit must never be needed for C15/C16; they are exercised as C16 inputs
        Bytes bad = senc;
        bad.back() ^= 0x01;
        run_buf("msg", "signed/mac-flipped", bad, key, true);
        Bytes key2 = key;
        key2.push_back(0x77);
        run_buf("msg", "signed/other-key", senc, key2, true);
    } catch (const std::exception& ex) {
        if (threw.empty()) threw = std::string("encode_signed: std::exception: ") + ex.what();
    } catch (...) {
        if (threw.empty()) threw = "encode_signed: unknown exception";
    }
    e.raw("sdec", jdec(sd));
    if (!threw.empty()) e.s("threw", threw).s("threw_in", threw_in(threw));
    e.emit();
    if (c.i("mut", 0) == 1) mutate_all(enc, key);
}

static void run_rand(const ev::Cmd& c) {
    std::mt19937_64 rng(static_cast<std::uint64_t>(c.i("seed", 1)));
    const long n = c.i("n", 1000);
    const size_t maxlen = static_cast<size_t>(c.i("maxlen", 300));
    const Bytes key = unhex(c.s("key"));
    for (long it = 0; it < n; ++it) {
        const std::uint64_t r = rng();
        size_t len = static_cast<size_t>(rng() % (maxlen + 1));
        if ((r & 7) == 0) len = static_cast<size_t>(rng() % 24);   // very short inputs
        Bytes b(len);
        const unsigned zero_bias = static_cast<unsigned>((r >> 8) % 4);  // 0: uniform bytes ... 3: mostly zeros
        for (auto& x : b) {
            const std::uint64_t q = rng();
            x = (zero_bias && (q >> 8) % 4 < zero_bias) ? 0 : static_cast<std::uint8_t>(q & 0xff);
        }
        if (len > 0 && ((r >> 16) & 3) != 0) b[0] = static_cast<std::uint8_t>(1 + (r >> 20) % 4);
        if (len > 1 && ((r >> 24) & 3) != 0) b[1] = static_cast<std::uint8_t>(1 + (r >> 28) % 6);
        // sometimes make the length fields of an announce / a chunk small and consistent-ish
        if (len >= 18 && ((r >> 32) & 1)) {
            for (size_t off : {size_t{6}, size_t{10}, size_t{14}}) put32(b, off, static_cast<std::uint32_t>(rng() % (len / 2 + 1)));
        }
        run_buf("rand", "plain", b, key, false);
        switch ((r >> 40) % 3) {
            case 0: run_buf("rand", "signed/raw", b, key, true); break;
            case 1: run_buf("rand", "signed/valid-mac", with_mac(b, key), key, true); break;
            default: {
                Bytes k2(static_cast<size_t>(rng() % 130));
                for (auto& x : k2) x = static_cast<std::uint8_t>(rng() & 0xff);
                run_buf("rand", "signed/valid-mac-random-key", with_mac(b, k2), k2, true);
            }
        }
    }
}

int main(int argc, char** argv) {
    if (argc < 3) { std::fprintf(stderr, "usage: wire <script> <trace-out>\n"); return 2; }
    std::ifstream in(argv[1]);
    if (!in) { std::perror(argv[1]); return 2; }
    ev::open(argv[2]);
    g_echo = std::getenv("WIRE_ECHO") != nullptr;
    ev::Cmd c;
    long line = 0;
    while (ev::read_cmd(in, c)) {
        ++line;
        if (g_echo) { std::fprintf(stderr, "WIRE_CMD %ld %s id=%lld\n", line, c.op.c_str(), c.i("id", -1)); std::fflush(stderr); }
        if (c.op == "msg") run_msg(c);
        else if (c.op == "buf") {
            const Bytes b = unhex(c.s("hex"));
            const Bytes key = unhex(c.s("key"));
            const std::string mode = c.s("mode", "plain");
            if (mode == "plain") run_buf(c.s("src", "script"), c.s("kind", "-"), b, key, false, c.i("id", -1));
            else if (mode == "wrap") run_buf(c.s("src", "script"), c.s("kind", "-"), with_mac(b, key), key, true, c.i("id", -1));
            else run_buf(c.s("src", "script"), c.s("kind", "-"), b, key, true, c.i("id", -1));
        } else if (c.op == "rand") run_rand(c);
        else if (c.op == "reset") { ev::Ev("reset").emit(); }
        else { std::fprintf(stderr, "unknown command %s\n", c.op.c_str()); return 2; }
    }
    std::fflush(ev::out());
    return 0;
}
