----------------------------- MODULE Advertise -----------------------------
(* C34 -- case generator (first/last address of every range the statement lists, the        *)
(* neighbours just outside, their IPv4-mapped forms; x auto mode x allow_private x control  *)
(* host x STUN outcome) and a code-shaped model of the publication path                      *)
(* (is_private_or_reserved_host, build_transport_advertise_candidates,                        *)
(* Node::refresh_advertised_endpoints, Node::preferred_control_endpoints) checked against     *)
(* the contract.  One state = one case; `hist` is the case (exported with -dump).            *)
EXTENDS AdvertiseContract, TLC

CONSTANTS DevMappedPass,      \* TRUE: IPv4-mapped IPv6 text is not looked into (historical)
          DevBench19Pass,     \* TRUE: only 198.18.0.0/16 of the benchmark /15 is filtered (historical)
          DevSelfUnfiltered,  \* TRUE: the STUN-reported self endpoint is appended to the hints without filter or mode (historical)
          DevWarnLeak,        \* TRUE: candidates withheld in warn mode still become manifest hints (historical)
          DevStaleSurvivesOff,\* TRUE: with auto-advertise off, refresh returns before it strips the auto entries an earlier start left in the list
          Prevs,              \* what an earlier start of the same node (auto mode on, private allowed) left behind: "none", "pub", "priv"
          Modes, Allows, Ctls \* configuration dimensions

\* ---- boundary addresses -----------------------------------------------------------------
P4 == { <<<<127, 0, 0, 0>>, 8>>, <<<<10, 0, 0, 0>>, 8>>, <<<<172, 16, 0, 0>>, 12>>, <<<<192, 168, 0, 0>>, 16>>, <<<<169, 254, 0, 0>>, 16>>,
        <<<<100, 64, 0, 0>>, 10>>, <<<<192, 0, 2, 0>>, 24>>, <<<<198, 51, 100, 0>>, 24>>, <<<<203, 0, 113, 0>>, 24>>, <<<<198, 18, 0, 0>>, 15>>,
        <<<<224, 0, 0, 0>>, 3>> }
Last4(pb) == [i \in 1..4 |-> LET full == pb[2] - 8 * (i - 1) IN
                IF full >= 8 THEN pb[1][i] ELSE IF full <= 0 THEN 255 ELSE pb[1][i] + 2 ^ (8 - full) - 1]
Succ4(a) == IF a[4] < 255 THEN {[a EXCEPT ![4] = a[4] + 1]} ELSE IF a[3] < 255 THEN {<<a[1], a[2], a[3] + 1, 0>>}
            ELSE IF a[2] < 255 THEN {<<a[1], a[2] + 1, 0, 0>>} ELSE IF a[1] < 255 THEN {<<a[1] + 1, 0, 0, 0>>} ELSE {}
Pred4(a) == IF a[4] > 0 THEN {[a EXCEPT ![4] = a[4] - 1]} ELSE IF a[3] > 0 THEN {<<a[1], a[2], a[3] - 1, 255>>}
            ELSE IF a[2] > 0 THEN {<<a[1], a[2] - 1, 255, 255>>} ELSE IF a[1] > 0 THEN {<<a[1] - 1, 255, 255, 255>>} ELSE {}
V4Cases == UNION {{pb[1], Last4(pb)} \cup Pred4(pb[1]) \cup Succ4(Last4(pb)) : pb \in P4}
           \cup {<<0, 0, 0, 0>>, <<0, 0, 0, 1>>, <<8, 8, 8, 8>>, <<45, 64, 61, 85>>, <<198, 19, 0, 1>>, <<10, 1, 2, 3>>}

P6 == { <<<<64512, 0, 0, 0, 0, 0, 0, 0>>, 7>>, <<<<65152, 0, 0, 0, 0, 0, 0, 0>>, 10>>, <<<<8193, 3512, 0, 0, 0, 0, 0, 0>>, 32>>,
        <<<<65280, 0, 0, 0, 0, 0, 0, 0>>, 8>> }
Last6(pb) == [i \in 1..8 |-> LET full == pb[2] - 16 * (i - 1) IN
                IF full >= 16 THEN pb[1][i] ELSE IF full <= 0 THEN 65535 ELSE pb[1][i] + 2 ^ (16 - full) - 1]
Succ6(h) == IF \A i \in 1..8 : h[i] = 65535 THEN {}
            ELSE LET k == CHOOSE i \in 1..8 : h[i] < 65535 /\ \A j \in (i + 1)..8 : h[j] = 65535
                 IN {[i \in 1..8 |-> IF i < k THEN h[i] ELSE IF i = k THEN h[i] + 1 ELSE 0]}
Pred6(h) == IF \A i \in 1..8 : h[i] = 0 THEN {}
            ELSE LET k == CHOOSE i \in 1..8 : h[i] > 0 /\ \A j \in (i + 1)..8 : h[j] = 0
                 IN {[i \in 1..8 |-> IF i < k THEN h[i] ELSE IF i = k THEN h[i] - 1 ELSE 65535]}
Mapped(a) == <<0, 0, 0, 0, 0, 65535, a[1] * 256 + a[2], a[3] * 256 + a[4]>>
V6Cases == UNION {{pb[1], Last6(pb)} \cup Pred6(pb[1]) \cup Succ6(Last6(pb)) : pb \in P6}
           \cup {<<0, 0, 0, 0, 0, 0, 0, 0>>, <<0, 0, 0, 0, 0, 0, 0, 1>>, <<0, 0, 0, 0, 0, 0, 0, 2>>,
                 <<9734, 18176, 0, 0, 0, 0, 0, 4369>>, <<8193, 3512, 1, 0, 0, 0, 0, 1>>}
           \cup {Mapped(a) : a \in V4Cases}
Addrs == {[fam |-> 4, a |-> a] : a \in V4Cases} \cup {[fam |-> 6, a |-> h] : h \in V6Cases}

\* control hosts (configured, the "local-fallback" candidate): bind-all, loopback, private, public
CtlAddr(c) == CASE c = "any" -> [fam |-> 4, a |-> <<0, 0, 0, 0>>] [] c = "loopback" -> [fam |-> 4, a |-> <<127, 0, 0, 1>>]
                [] c = "private" -> [fam |-> 4, a |-> <<10, 0, 0, 5>>] [] c = "public" -> [fam |-> 4, a |-> <<45, 64, 61, 86>>]
NoStun == [fam |-> 0, a |-> <<>>]

VARIABLE hist
\* the earlier start's STUN answer: a routable address / a private one (published then because private advertising was allowed)
PrevAddr(p) == IF p = "pub" THEN [fam |-> 4, a |-> <<45, 64, 61, 85>>] ELSE [fam |-> 4, a |-> <<192, 168, 1, 23>>]
HistoryStuns == {NoStun, [fam |-> 4, a |-> <<8, 8, 8, 8>>], [fam |-> 4, a |-> <<10, 1, 2, 3>>]}    \* histories are combined with these answers only
Init == \E mode \in Modes, allow \in Allows, ctl \in Ctls, s \in Addrs \cup {NoStun}, prev \in Prevs :
           /\ (prev = "none" \/ s \in HistoryStuns)
           /\ hist = [mode |-> mode, allow |-> allow, ctl |-> ctl, stun |-> s, prev |-> prev]
Next == UNCHANGED hist
Spec == Init /\ [][Next]_hist

\* ---- design ---------------------------------------------------------------------------------
Nibbles(x) == IF x >= 4096 THEN <<x \div 4096, (x \div 256) % 16, (x \div 16) % 16, x % 16>>
              ELSE IF x >= 256 THEN <<x \div 256, (x \div 16) % 16, x % 16>>
              ELSE IF x >= 16 THEN <<x \div 16, x % 16>> ELSE <<x>>
StartsWith(s, p) == Len(s) >= Len(p) /\ \A i \in 1..Len(p) : s[i] = p[i]
CodeBlocked4(a) ==
    \/ a[1] = 10 \/ a[1] = 127 \/ a[1] = 0 \/ (a[1] = 169 /\ a[2] = 254) \/ (a[1] = 172 /\ a[2] >= 16 /\ a[2] <= 31)
    \/ (a[1] = 192 /\ a[2] = 168) \/ (a[1] = 100 /\ a[2] >= 64 /\ a[2] <= 127) \/ (a[1] = 192 /\ a[2] = 0 /\ a[3] = 2)
    \/ (a[1] = 198 /\ a[2] = 51 /\ a[3] = 100) \/ (a[1] = 203 /\ a[2] = 0 /\ a[3] = 113)
    \/ (a[1] = 198 /\ (a[2] = 18 \/ (~DevBench19Pass /\ a[2] = 19))) \/ a[1] >= 224
\* the canonical text starts with the digits of the first hextet unless that hextet is 0 ("::..." or "0:...")
CodeBlocked6(h) ==
    \/ h = <<0, 0, 0, 0, 0, 0, 0, 0>> \/ h = <<0, 0, 0, 0, 0, 0, 0, 1>>
    \/ (h[1] # 0 /\ LET d == Nibbles(h[1]) IN
          \/ StartsWith(d, <<15, 12>>) \/ StartsWith(d, <<15, 13>>)
          \/ \E n \in 8..11 : StartsWith(d, <<15, 14, n>>)
          \/ StartsWith(d, <<15, 15>>)
          \/ (d = <<2, 0, 0, 1>> /\ StartsWith(Nibbles(h[2]), <<13, 11, 8>>)))
    \/ (~DevMappedPass /\ IsMapped(h) /\ CodeBlocked4(Embedded(h)))
CodeBlocked(x) == IF x.fam = 4 THEN CodeBlocked4(x.a) ELSE CodeBlocked6(x.a)
Valid(x) == x.fam # 0 /\ ~(x.fam = 4 /\ x.a = <<0, 0, 0, 0>>)           \* is_valid_host: non-empty and not "0.0.0.0"
Echo == [fam |-> 4, a |-> <<198, 51, 100, 77>>]                           \* fallback_echo_address: 198.51.100.x
Cand(x, via) == [host |-> x, port |-> 1, via |-> via, fam |-> x.fam, a |-> x.a]
Keep(allow, x) == Valid(x) /\ (allow \/ ~CodeBlocked(x))
Candidates(c) ==
    LET s == c.stun
        first == IF s.fam # 0 /\ Valid(s) THEN (IF Keep(c.allow, s) THEN <<Cand(s, "stun")>> ELSE <<>>)
                 ELSE (IF Keep(c.allow, Echo) THEN <<Cand(Echo, "https-echo")>> ELSE <<>>)
        ctl == CtlAddr(c.ctl)
    IN IF c.allow /\ Valid(ctl) THEN Append(first, Cand(ctl, "local-fallback"))
       ELSE IF first = <<>> /\ Keep(c.allow, ctl) THEN <<Cand(ctl, "local-fallback")>>
       ELSE first
DesignCands(c) == IF c.mode = "off" THEN <<>> ELSE Candidates(c)
DesignAuto(c) ==
    LET cands == DesignCands(c)
        conflict == Conflict(cands)
        promote == c.mode = "on" \/ ~conflict
        stunIdx == {i \in DOMAIN cands : cands[i].via = "stun"}
        inferred == IF cands = <<>> \/ ~promote THEN <<>>
                    ELSE IF stunIdx # {} THEN <<cands[CHOOSE i \in stunIdx : TRUE]>> ELSE <<cands[1]>>
        adv == [i \in DOMAIN inferred |-> [where |-> "advertised", fam |-> inferred[i].host.fam, a |-> inferred[i].host.a]]
        hintCands == IF ~DevWarnLeak /\ c.mode = "warn" /\ conflict THEN <<>> ELSE cands
        hints == [i \in DOMAIN inferred |-> [where |-> "hint", fam |-> inferred[i].host.fam, a |-> inferred[i].host.a]]
                 \o [i \in DOMAIN hintCands |-> [where |-> "hint", fam |-> hintCands[i].host.fam, a |-> hintCands[i].host.a]]
        self == IF DevSelfUnfiltered /\ c.stun.fam # 0 /\ Valid(c.stun) THEN <<[where |-> "hint", fam |-> c.stun.fam, a |-> c.stun.a]>> ELSE <<>>
        \* refresh_advertised_endpoints strips every non-manual entry before anything else, so nothing of an earlier start survives;
        \* if the strip came after the early return for mode off, the old entry would stay listed and feed the transport hints
        stale == IF DevStaleSurvivesOff /\ c.mode = "off" /\ c.prev # "none"
                 THEN <<[where |-> "advertised", fam |-> PrevAddr(c.prev).fam, a |-> PrevAddr(c.prev).a], [where |-> "hint", fam |-> PrevAddr(c.prev).fam, a |-> PrevAddr(c.prev).a]>>
                 ELSE <<>>
    IN adv \o hints \o self \o stale

C34_DesignMeetsContract == PublishClauses(hist.mode, hist.allow, DesignCands(hist), DesignAuto(hist)) = {}
C34_ClassifierMeetsContract == hist.stun.fam = 0 \/ ClassifyClauses(hist.stun.fam, hist.stun.a, CodeBlocked(hist.stun)) = {}
\* vacuity guards (must be violated)
Reach_PublicPublished == ~(~hist.allow /\ hist.mode = "on" /\ DesignAuto(hist) # <<>>)
Reach_OffAfterHistory == ~(hist.mode = "off" /\ hist.prev = "priv" /\ ~hist.allow)
Reach_WarnConflict == ~(hist.mode = "warn" /\ Conflict(DesignCands(hist)))
=============================================================================
