------------------------- MODULE AdvertiseContract -------------------------
(* C34 -- which addresses are non-routable (exactly the classes the statement lists) and   *)
(* what may be published by the auto-advertise path, as pure operators.                     *)
(* IPv4 address = <<a, b, c, d>> (octets); IPv6 address = 8 hextets (0..65535).             *)
EXTENDS Integers, Sequences, FiniteSets

In4(a, p, bits) ==      \* a inside prefix p/bits (bits in 1..32), octet-wise
    \A i \in 1..4 :
        LET full == (bits - 8 * (i - 1)) IN
        IF full >= 8 THEN a[i] = p[i]
        ELSE IF full <= 0 THEN TRUE
        ELSE a[i] \div (2 ^ (8 - full)) = p[i] \div (2 ^ (8 - full))

\* the classes of the statement; "" = none of them
V4Class(a) ==
    IF a = <<0, 0, 0, 0>> THEN "unspecified"
    ELSE IF In4(a, <<127, 0, 0, 0>>, 8) THEN "loopback"
    ELSE IF In4(a, <<10, 0, 0, 0>>, 8) \/ In4(a, <<172, 16, 0, 0>>, 12) \/ In4(a, <<192, 168, 0, 0>>, 16) THEN "private"
    ELSE IF In4(a, <<169, 254, 0, 0>>, 16) THEN "linklocal"
    ELSE IF In4(a, <<100, 64, 0, 0>>, 10) THEN "cgnat"
    ELSE IF In4(a, <<192, 0, 2, 0>>, 24) \/ In4(a, <<198, 51, 100, 0>>, 24) \/ In4(a, <<203, 0, 113, 0>>, 24) THEN "documentation"
    ELSE IF In4(a, <<198, 18, 0, 0>>, 15) THEN "benchmark"
    ELSE IF In4(a, <<224, 0, 0, 0>>, 3) THEN "multicast-reserved"
    ELSE ""

IsMapped(h) == h[1] = 0 /\ h[2] = 0 /\ h[3] = 0 /\ h[4] = 0 /\ h[5] = 0 /\ h[6] = 65535
Embedded(h) == <<h[7] \div 256, h[7] % 256, h[8] \div 256, h[8] % 256>>
V6Class(h) ==
    IF h = <<0, 0, 0, 0, 0, 0, 0, 0>> THEN "unspecified"
    ELSE IF h = <<0, 0, 0, 0, 0, 0, 0, 1>> THEN "loopback"
    ELSE IF h[1] \div 512 = 126 THEN "private"                   \* fc00::/7
    ELSE IF h[1] \div 64 = 1018 THEN "linklocal"                 \* fe80::/10
    ELSE IF h[1] = 8193 /\ h[2] = 3512 THEN "documentation"      \* 2001:db8::/32
    ELSE IF h[1] \div 256 = 255 THEN "multicast-reserved"        \* ff00::/8
    ELSE IF IsMapped(h) /\ V4Class(Embedded(h)) # "" THEN "mapped-" \o V4Class(Embedded(h))
    ELSE ""

\* fam: 4 | 6 | 0 (0 = the host is not an IP literal: a configured name, not judged)
ClassOf(fam, a) == IF fam = 4 THEN V4Class(a) ELSE IF fam = 6 THEN V6Class(a) ELSE ""
NonRoutable(fam, a) == ClassOf(fam, a) # ""

(* ---- publication policy ----------------------------------------------------------------- *)
(* An observation of one node: mode ("on" | "warn" | "off"), allow (private advertising     *)
(* allowed), cands = the auto-discovered candidates the node kept (sequence of records with  *)
(* host, port, fam, a), auto = the automatically discovered endpoints it published (records with    *)
(* where ("advertised" | "hint"), fam, a).  Configured (manual) endpoints are not in `auto`. *)
Conflict(cands) == Cardinality({<<cands[i].host, cands[i].port>> : i \in DOMAIN cands}) > 1
\* discriminator used in clause ids: the class, all IPv4-mapped forms folded into "mapped"
SigClass(fam, a) == IF fam = 6 /\ IsMapped(a) THEN "mapped" ELSE ClassOf(fam, a)
\* cands[i] and auto[i] carry fam, a (numeric address); an auto entry that is not one of the kept candidates
\* reached publication around the candidate filter
PublishClauses(mode, allow, cands, auto) ==
    LET idx == DOMAIN auto
        isCand(x) == \E i \in DOMAIN cands : cands[i].fam = x.fam /\ cands[i].a = x.a
    IN
    (IF allow THEN {} ELSE {"C34.published-nonroutable/" \o auto[i].where \o "/" \o
                              (IF isCand(auto[i]) THEN SigClass(auto[i].fam, auto[i].a) ELSE "not-a-candidate") :
                              i \in {j \in idx : NonRoutable(auto[j].fam, auto[j].a)}})
    \cup (IF mode = "off" THEN {"C34.published-with-auto-off/" \o auto[i].where : i \in idx} ELSE {})
    \cup (IF mode = "warn" /\ Conflict(cands) THEN {"C34.warn-conflict-published/" \o auto[i].where : i \in idx} ELSE {})
\* the classification function on its own: a listed class must be reported as private/reserved
ClassifyClauses(fam, a, blocked) ==
    IF NonRoutable(fam, a) /\ ~blocked THEN {"C34.classified-routable/" \o SigClass(fam, a)} ELSE {}

ASSUME V4Class(<<198, 19, 255, 255>>) = "benchmark" /\ V4Class(<<198, 20, 0, 0>>) = "" /\ V4Class(<<198, 17, 255, 255>>) = ""
ASSUME V4Class(<<172, 31, 255, 255>>) = "private" /\ V4Class(<<172, 32, 0, 0>>) = "" /\ V4Class(<<100, 127, 255, 255>>) = "cgnat"
ASSUME V4Class(<<100, 128, 0, 0>>) = "" /\ V4Class(<<223, 255, 255, 255>>) = "" /\ V4Class(<<224, 0, 0, 0>>) = "multicast-reserved"
ASSUME V4Class(<<8, 8, 8, 8>>) = "" /\ V4Class(<<0, 0, 0, 1>>) = ""
ASSUME V6Class(<<65152, 0, 0, 0, 0, 0, 0, 1>>) = "linklocal" /\ V6Class(<<65216, 0, 0, 0, 0, 0, 0, 1>>) = ""    \* fe80::1, fec0::1
ASSUME V6Class(<<0, 0, 0, 0, 0, 65535, 2560, 1>>) = "mapped-private" /\ V6Class(<<0, 0, 0, 0, 0, 65535, 2056, 2056>>) = ""
ASSUME V6Class(<<9734, 18176, 0, 0, 0, 0, 0, 4369>>) = "" /\ V6Class(<<8193, 3512, 0, 0, 0, 0, 0, 1>>) = "documentation"
=============================================================================
