--------------------------- MODULE AdvertiseTrace ---------------------------
(* Trace specification for C34.  classify: one call of the real is_private_or_reserved_host  *)
(* on a canonical IP text; publish: one real Node started with a given auto-advertise mode,  *)
(* allow_private, control host and STUN answer -- what it put into                            *)
(* Config::advertised_endpoints and into the discovery hints of the next stored chunk.        *)
EXTENDS TraceKit, AdvertiseContract

VARIABLES l, viol, nchecked, npublished
vars == <<l, viol, nchecked, npublished>>
Init == l = 1 /\ viol = <<>> /\ nchecked = 0 /\ npublished = 0

\* automatically discovered endpoints the node published: non-manual advertised entries and the
\* auto-generated ("transport") manifest hints; configured ("control") entries are not judged
AutoOf(e) ==
    LET adv == Arr(e.advertised)
        hints == Arr(e.hints)
        advAuto == SelectSeq(adv, LAMBDA x : ~x.manual)
        hintAuto == SelectSeq(hints, LAMBDA x : x.scheme = "transport")
    IN [i \in DOMAIN advAuto |-> [where |-> "advertised", fam |-> advAuto[i].fam, a |-> Arr(advAuto[i].a)]]
       \o [i \in DOMAIN hintAuto |-> [where |-> "hint", fam |-> hintAuto[i].fam, a |-> Arr(hintAuto[i].a)]]
Step(e) ==
  CASE e.op = "classify" ->
        LET bad == ClassifyClauses(e.fam, Arr(e.a), e.blocked)
        IN /\ viol' = IF bad = {} THEN viol ELSE Append(viol, Fail(l, bad, e))
           /\ nchecked' = nchecked + 1 /\ UNCHANGED npublished
    [] e.op = "publish" ->
        LET auto == AutoOf(e)
            cs == Arr(e.cands)
            cands == [i \in DOMAIN cs |-> [host |-> cs[i].host, port |-> cs[i].port, fam |-> cs[i].fam, a |-> Arr(cs[i].a)]]
            bad == PublishClauses(e.mode, e.allow, cands, auto)
        IN /\ viol' = IF bad = {} THEN viol ELSE Append(viol, Fail(l, bad, e))
           /\ nchecked' = nchecked + 1 /\ npublished' = npublished + (IF auto # <<>> THEN 1 ELSE 0)
    [] OTHER -> UNCHANGED <<viol, nchecked, npublished>>
Next == l <= Len(T) /\ l' = l + 1 /\ Step(T[l])
Spec == Init /\ [][Next]_vars
Done == Report(l, viol, [checked |-> nchecked, published |-> npublished])
=============================================================================
