------------------------------- MODULE Announce -------------------------------
(* Inbound ANNOUNCE handling of one node (C21): contract level (AnnounceContract) and       *)
(* design level, shaped like Node::handle_announce (src/core/Node.cpp) and its helpers:      *)
(*                                                                                           *)
(*   handle_announce(payload, sender, version):                                              *)
(*     announce_sender_locked(sender)          -> rep--, return          (no failure record) *)
(*     payload.peer_id != sender               -> record_announce_failure, return            *)
(*     payload.manifest_uri.empty()            -> failure                                    *)
(*     !verify_announce_pow(payload, version)  -> failure   (difficulty>0: version>=3 & PoW) *)
(*     !register_incoming_announce(sender)     -> failure   (per-peer throttle, see below)   *)
(*     decode_manifest throws / other chunk / shards < threshold / expired / assigned shard  *)
(*       not among the shares                  -> failure   (throttle slot already taken)    *)
(*     else cache manifest, publish shards, add provider contact, schedule assigned fetch,   *)
(*          clear_announce_failures(sender)                                                  *)
(*   register_incoming_announce: drop history entries older than now-window; refuse when     *)
(*          now-last < min interval or size >= burst limit; else push now                    *)
(*   record_announce_failure: drop failures with now-f > failure window; push now; at the    *)
(*          threshold: lock until now + lock duration, clear the failures                    *)
(*                                                                                           *)
(* Scaled constants (the real 120 s / 180 s are exercised by trace validation).              *)
(* Dev switches a plausible one-line deviation on; MC_Announce_dev_*.cfg must violate.       *)
EXTENDS Integers, Sequences, FiniteSets, TLC, AnnounceContract

CONSTANTS Peers, Interval, Window, Burst, FailWindow, LockDur, Threshold, PowRequired,
          MaxNow, MaxLen, Dev,
          Kinds    \* which announces the model sends: a subset of AllKinds

AllKinds == {"ok", "self", "uri", "dec", "chunk", "thr", "unexp", "assigned", "pow", "ver"}
ASSUME Kinds \subseteq AllKinds
\* the announce of kind k: admissible except for the named defect (an empty URI does not decode)
Vec(k) == [self |-> k # "self", uri |-> k # "uri", dec |-> k \notin {"uri", "dec"}, chunk |-> k # "chunk",
           thr |-> k # "thr", unexp |-> k # "unexp", assigned |-> k # "assigned",
           powreq |-> PowRequired, pow |-> k # "pow", ver3 |-> k # "ver"]

VARIABLES now,
          ahist,   \* DESIGN peer_announce_history_[p]
          fails,   \* DESIGN peer_announce_failure_history_[p]
          lock,    \* DESIGN peer_announce_lockouts_[p]  (-1: no entry)
          gacc,    \* CONTRACT ghost: times of p's state-changing announces still inside a window
          poss,    \* CONTRACT ghost: possible readings of p's failure counter
          obs

Init == /\ now = 0
        /\ ahist = [p \in Peers |-> <<>>] /\ fails = [p \in Peers |-> <<>>] /\ lock = [p \in Peers |-> -1]
        /\ gacc = [p \in Peers |-> <<>>] /\ poss = [p \in Peers |-> {Bottom}]
        /\ obs = [kind |-> "init"]

Announce(p, k) ==
    LET v      == Vec(k)
        locked == Dev # "nolockcheck" /\ lock[p] >= 0 /\ ~(lock[p] <= now)
        pre    == v.self /\ v.uri /\ (PowRequired => (v.ver3 /\ v.pow))
        h1     == SelectSeq(ahist[p], LAMBDA a : ~(a < now - Window))
        spaced == h1 = <<>> \/ Dev = "nointerval" \/ ~(now - h1[Len(h1)] < Interval)
        room   == IF Dev = "burstoffbyone" THEN Len(h1) <= Burst ELSE Len(h1) < Burst
        thrOk  == spaced /\ room
        post   == v.dec /\ v.chunk /\ v.thr /\ v.unexp /\ (v.assigned \/ Dev = "noassigned")
        accepted == ~locked /\ pre /\ thrOk /\ post
        f1     == Append(SelectSeq(fails[p], LAMBDA f : ~(now - f > FailWindow)), now)
        ld     == IF Dev = "lockshort" THEN LockDur - 1 ELSE LockDur
    IN /\ ahist' = IF ~locked /\ pre THEN [ahist EXCEPT ![p] = IF thrOk THEN Append(h1, now) ELSE h1] ELSE ahist
       /\ IF locked THEN UNCHANGED <<fails, lock>>
          ELSE IF accepted THEN /\ fails' = [fails EXCEPT ![p] = <<>>] /\ lock' = [lock EXCEPT ![p] = -1]
          ELSE IF Len(f1) >= Threshold
                 THEN /\ fails' = [fails EXCEPT ![p] = <<>>] /\ lock' = [lock EXCEPT ![p] = now + ld]
                 ELSE /\ fails' = [fails EXCEPT ![p] = f1] /\ lock' = [lock EXCEPT ![p] = -1]
       \* contract ghost and the verdicts of the contract operators on this call
       /\ gacc' = IF accepted THEN [gacc EXCEPT ![p] = Append(@, now)] ELSE gacc
       /\ poss' = [poss EXCEPT ![p] = IF accepted THEN AfterAccept ELSE AfterReject(@, now, FailWindow, LockDur, Threshold)]
       /\ obs' = [kind |-> "ann", p |-> p, k |-> k, changed |-> accepted,
                  adm |-> Admissible(v), must |-> MustBeLocked(poss[p], now),
                  spOk |-> SpacingOk(gacc[p], now, Interval), buOk |-> BurstOk(gacc[p], now, Window, Burst),
                  why |-> IF accepted THEN "accepted" ELSE IF locked THEN "locked" ELSE IF ~pre THEN "pre"
                          ELSE IF ~spaced THEN "interval" ELSE IF ~room THEN "burst" ELSE "post",
                  atLockEnd |-> (\E g \in poss[p] : g.lock = now), atInterval |-> (gacc[p] # <<>> /\ now - gacc[p][Len(gacc[p])] = Interval),
                  otherLocked |-> (\E q \in Peers \ {p} : lock[q] > now)]
       /\ UNCHANGED now

\* time passes.  The code drops out-of-window history entries, old failures and dead locks
\* lazily, at the next call that looks at them and before using them; dropping them when the
\* clock moves is equivalent and keeps the state space small.  Same for the ghost.
NormG(g, t) == [rej |-> SelectSeq(g.rej, LAMBDA r : t - r <= FailWindow), lock |-> IF g.lock >= 0 /\ t > g.lock THEN -1 ELSE g.lock]
Advance(d) ==
    /\ now' = now + d
    /\ gacc' = [p \in Peers |-> SelectSeq(gacc[p], LAMBDA a : now' - a < Window)]
    /\ poss' = [p \in Peers |-> {NormG(g, now') : g \in poss[p]}]
    /\ obs' = [kind |-> "adv"]
    /\ ahist' = [p \in Peers |-> SelectSeq(ahist[p], LAMBDA a : ~(a < now' - Window))]
    /\ fails' = [p \in Peers |-> SelectSeq(fails[p], LAMBDA f : ~(now' - f > FailWindow))]
    /\ lock'  = [p \in Peers |-> IF lock[p] >= 0 /\ lock[p] <= now' THEN -1 ELSE lock[p]]

-----------------------------------------------------------------------------
(* CONTRACT (C21) over the last call *)
IsAnn == obs.kind = "ann"
C21_StateChangeOnlyIfAdmissible == IsAnn /\ obs.changed => obs.adm
C21_LockedMeansNoChange         == IsAnn /\ obs.changed => ~obs.must
C21_SpacingOK                   == IsAnn /\ obs.changed => obs.spOk
C21_BurstOK                     == IsAnn /\ obs.changed => obs.buOk
\* design sanity: what the code keeps is always one of the readings the contract tracks
\* (so the trace specification cannot raise a lock-out alarm on this design)
CodeReading(p) == NormG([rej |-> fails[p], lock |-> lock[p]], now)
Resolve(g, t) == {IF lk THEN g ELSE [g EXCEPT !.lock = -1] : lk \in LockViews(g, t)}
D_CodeIsAReading == \A p \in Peers : \E g \in poss[p] : CodeReading(p) \in Resolve(NormG(g, now), now)

-----------------------------------------------------------------------------
VARIABLE hist
vars == <<now, ahist, fails, lock, gacc, poss, obs, hist>>

Acts == {[op |-> "ann", p |-> p, k |-> k] : p \in Peers, k \in Kinds} \cup {[op |-> "adv", d |-> 1]}
Do(a) == CASE a.op = "ann" -> Announce(a.p, a.k)
           [] a.op = "adv" -> Advance(a.d)
MCInit == Init /\ hist = <<>>
MCNext == \E a \in Acts : Do(a) /\ hist' = Append(hist, a)
MCSpec == MCInit /\ [][MCNext]_vars
View == <<now, ahist, fails, lock, gacc, poss, obs>>
Bound == now <= MaxNow /\ Len(hist) <= MaxLen

\* vacuity guards (each must be VIOLATED: the scenario is reachable)
Reach_LockedRefusal    == ~(IsAnn /\ obs.k = "ok" /\ obs.why = "locked" /\ obs.must)
Reach_AcceptAtLockEnd  == ~(IsAnn /\ obs.changed /\ obs.atLockEnd)
Reach_BurstRefusal     == ~(IsAnn /\ obs.k = "ok" /\ obs.why = "burst")
Reach_AcceptAtInterval == ~(IsAnn /\ obs.changed /\ obs.atInterval)
Reach_OtherPeerLocked  == ~(IsAnn /\ obs.changed /\ obs.otherLocked)
Reach_TwoReadings      == ~(\E p \in Peers : Cardinality(poss[p]) > 1)
=============================================================================
