-------------------------- MODULE AnnounceContract --------------------------
(* What C21 fixes about inbound ANNOUNCE messages, as pure operators shared by the design   *)
(* model (Announce.tla) and the trace specification (AnnounceTrace.tla).                     *)
(*                                                                                           *)
(* The statement is an "only if": an announce that CHANGES node state (cached manifest, key  *)
(* shares, provider contact, scheduled fetch) must be admissible, unthrottled and from a     *)
(* sender that is not locked out.  Nothing here ever demands that an announce be accepted.   *)
(* "Gets through" = changes state; every other announce counts as a rejection.               *)
(*                                                                                           *)
(* Readings (where the statement leaves a choice, the contract accepts either outcome):      *)
(*  - instants exactly on a boundary: a manifest expiring exactly now, two accepted          *)
(*    announces exactly one window apart, a rejection exactly one failure window after the   *)
(*    first counted one, an announce exactly at the end of the lock-out;                     *)
(*  - "three rejections within the failure window lock the peer out": demanded for three     *)
(*    rejections with no accepted announce in between and none of them made while the peer   *)
(*    was already locked out (an accepted announce restarts the count, rejections during a   *)
(*    lock-out neither extend it nor count towards the next one).  The literal reading       *)
(*    (every rejection counts) only asks for more lock-outs, so it is implied where it       *)
(*    matters: a change is reported only if EVERY reading has the peer locked.               *)
EXTENDS Integers, Sequences, FiniteSets

(* ---- admissibility vector: a record of BOOLEANs ---------------------------------------- *)
\*   self      the payload names the sender as the announcer
\*   dec       the manifest URI decodes
\*   chunk     the manifest is for the announced chunk
\*   unexp     the manifest has not expired
\*   thr       the manifest's shares meet its threshold
\*   assigned  every assigned shard index is among the manifest's shares
\*   powreq    the node requires announce PoW (difficulty > 0)
\*   pow       the work nonce is valid for the payload at the configured difficulty
\*   ver3      message version >= 3
Admissible(v) ==
    v.self /\ v.dec /\ v.chunk /\ v.unexp /\ v.thr /\ v.assigned /\ (v.powreq => (v.pow /\ v.ver3))

FirstDefect(v) ==
    IF ~v.self THEN "announcer" ELSE IF ~v.dec THEN "manifest" ELSE IF ~v.chunk THEN "chunk"
    ELSE IF ~v.unexp THEN "expired" ELSE IF ~v.thr THEN "threshold" ELSE IF ~v.assigned THEN "assigned"
    ELSE IF v.powreq /\ ~v.ver3 THEN "version" ELSE IF v.powreq /\ ~v.pow THEN "pow" ELSE "none"

(* ---- throttle: acc = times of the peer's earlier state-changing announces (ascending) ---- *)
\* at least the minimum interval apart
SpacingOk(acc, t, interval) == acc = <<>> \/ t - acc[Len(acc)] >= interval
\* never more than burst within one window (exactly one window apart: accepted either way)
BurstOk(acc, t, window, burst) == Cardinality({i \in DOMAIN acc : t - acc[i] < window}) + 1 <= burst

(* ---- lock-out: the set of possible readings of one peer's failure counter ---------------- *)
\* a reading: rej = times of counted rejections (ascending), lock = end of the lock-out or -1
Bottom == [rej |-> <<>>, lock |-> -1]
\* is the peer locked at t under reading g?  (exactly at the end: either)
LockViews(g, t) == IF g.lock < 0 \/ t > g.lock THEN {FALSE} ELSE IF t = g.lock THEN {TRUE, FALSE} ELSE {TRUE}
MustBeLocked(poss, t) == \A g \in poss : LockViews(g, t) = {TRUE}

Keep(rej, t, fw, incl) == SelectSeq(rej, LAMBDA r : t - r < fw \/ (incl /\ t - r = fw))
RejSucc(g, t, locked, incl, fw, ld, th) ==
    IF locked THEN g
    ELSE LET r2 == Append(Keep(g.rej, t, fw, incl), t)
         IN IF Len(r2) >= th THEN [rej |-> <<>>, lock |-> t + ld] ELSE [rej |-> r2, lock |-> -1]
\* readings after a rejected announce at t (fw failure window, ld lock duration, th threshold)
AfterReject(poss, t, fw, ld, th) ==
    UNION {{RejSucc(g, t, lk, incl, fw, ld, th) : lk \in LockViews(g, t), incl \in BOOLEAN} : g \in poss}
\* readings after an announce that got through
AfterAccept == {Bottom}
=============================================================================
