---------------------------- MODULE AnnounceTrace ----------------------------
(* Trace specification for C21: validates an ndjson trace recorded from a real Node         *)
(* (harness/admit.cpp, friend call of Node::handle_announce under the virtual clock)         *)
(* against AnnounceContract, with the real constants of the statement (three rejections      *)
(* within 120 s, locked out for 180 s) and the throttle configuration the node reports in    *)
(* the reset event.  Times are milliseconds of virtual time.                                 *)
(*                                                                                           *)
(* One "ann" event per delivered ANNOUNCE:                                                   *)
(*   p        sending peer (1-based index)                                                   *)
(*   self     payload.peer_id = sender                                                       *)
(*   dec      the manifest URI is one the driver produced with encode_manifest (decodable)   *)
(*   chunk    the manifest's chunk id equals the announced chunk id                          *)
(*   exp      the manifest's expiry instant; nsh / thr number of shares and threshold;       *)
(*   idx      the share indices; asg the assigned shard indices                              *)
(*   pow      verdict of the node's own verifier on the payload as sent (see C19)            *)
(*   ver      message version                                                                *)
(*   pre/post projection of the announce-derived node state before / after the call:        *)
(*            cached manifests, provider contacts, shard records, pending fetches            *)
(* "changes node state" == pre # post.                                                       *)
EXTENDS TraceKit, AnnounceContract

FailWindowMs == 120000
LockMs       == 180000
FailThreshold == 3
PeerIds == 1..8

VARIABLES l, viol, poisoned,
          cfg,     \* throttle configuration of the node under test (from the reset event)
          acc,     \* per peer: times of its state-changing announces
          poss,    \* per peer: possible readings of its failure counter
          nchg, nrej, nlockrej
vars == <<l, viol, poisoned, cfg, acc, poss, nchg, nrej, nlockrej>>

NoCfg == [interval |-> 0, window |-> 0, burst |-> 1, powreq |-> FALSE]
Init == /\ l = 1 /\ viol = <<>> /\ poisoned = FALSE /\ cfg = NoCfg
        /\ acc = [p \in PeerIds |-> <<>>] /\ poss = [p \in PeerIds |-> {Bottom}]
        /\ nchg = 0 /\ nrej = 0 /\ nlockrej = 0

\* the admissibility vector of the event (boundary: a manifest expiring exactly now is accepted either way)
VecOf(e) ==
    [self |-> e.self, dec |-> e.dec,
     chunk |-> Fld(e, "chunk", FALSE),
     unexp |-> e.dec /\ e.exp >= e.t,
     thr |-> e.dec /\ e.nsh >= e.thr,
     assigned |-> e.dec /\ ArrSet(Arr(e.asg)) \subseteq ArrSet(Arr(e.idx)),
     powreq |-> cfg.powreq, pow |-> e.pow, ver3 |-> e.ver >= 3]

AnnClauses(e, changed) ==
    IF ~changed THEN {} ELSE
    LET v == VecOf(e) IN
       (IF MustBeLocked(poss[e.p], e.t) THEN {"C21.change-while-locked"} ELSE {})
       \cup (IF Admissible(v) THEN {} ELSE {"C21.change-inadmissible/" \o FirstDefect(v)})
       \cup (IF SpacingOk(acc[e.p], e.t, cfg.interval) THEN {} ELSE {"C21.spacing"})
       \cup (IF BurstOk(acc[e.p], e.t, cfg.window, cfg.burst) THEN {} ELSE {"C21.burst"})

Step(e) ==
  CASE e.op = "reset" ->
        /\ poisoned' = FALSE
        /\ cfg' = [interval |-> Fld(e, "interval", 0) * 1000, window |-> Fld(e, "window", 0) * 1000,
                   burst |-> Fld(e, "burst", 1), powreq |-> Fld(e, "powdiff", 0) > 0]
        /\ acc' = [p \in PeerIds |-> <<>>] /\ poss' = [p \in PeerIds |-> {Bottom}]
        /\ UNCHANGED <<viol, nchg, nrej, nlockrej>>
    [] poisoned -> UNCHANGED <<viol, poisoned, cfg, acc, poss, nchg, nrej, nlockrej>>
    [] e.op = "ann" ->
        LET changed == e.pre # e.post
            bad == AnnClauses(e, changed)
        IN /\ viol' = IF bad = {} THEN viol
                      ELSE Append(viol, Fail(l, bad, [p |-> e.p, t |-> e.t, vec |-> VecOf(e), accepted |-> acc[e.p], readings |-> poss[e.p]]))
           /\ poisoned' = (bad # {})
           /\ acc' = IF changed THEN [acc EXCEPT ![e.p] = Append(@, e.t)] ELSE acc
           /\ poss' = [poss EXCEPT ![e.p] = IF changed THEN AfterAccept ELSE AfterReject(@, e.t, FailWindowMs, LockMs, FailThreshold)]
           /\ nchg' = nchg + (IF changed THEN 1 ELSE 0) /\ nrej' = nrej + (IF changed THEN 0 ELSE 1)
           /\ nlockrej' = nlockrej + (IF ~changed /\ MustBeLocked(poss[e.p], e.t) THEN 1 ELSE 0)
           /\ UNCHANGED cfg
    [] OTHER -> UNCHANGED <<viol, poisoned, cfg, acc, poss, nchg, nrej, nlockrej>>

Next == l <= Len(T) /\ l' = l + 1 /\ Step(T[l])
Spec == Init /\ [][Next]_vars
Done == Report(l, viol, [changed |-> nchg, rejected |-> nrej, rejected_while_locked |-> nlockrej])
=============================================================================
