------------------------------ MODULE ChaCha20 ------------------------------
(* Executable reference of the ChaCha20 stream cipher of RFC 8439 (sections 2.1 quarter    *)
(* round, 2.3 block function, 2.4 encryption) on 16-bit limbs (module Word32); loops are   *)
(* FoldLeft.  The 32-bit block counter occupies state word 12 and is incremented modulo    *)
(* 2^32 from block to block (after 2^32-1 comes 0; the nonce words are never touched).      *)
(*                                                                                         *)
(* PUBLIC OPERATORS                                                                        *)
(*   ChaCha20Xor(key32, nonce12, counterWord, bytes)                                       *)
(*        key32: 32 bytes, nonce12: 12 bytes, counterWord: Word32 <<hi16, lo16>> of the     *)
(*        initial block counter, bytes: seq of 0..255 of any length -> seq of equal length *)
(*        (encryption and decryption are the same operation)                               *)
(*   ChaCha20Block(key32, nonce12, counterWord)      the 64-byte keystream block            *)
(*   ChaCha20Keystream(key32, nonce12, counterWord, n)   first n keystream bytes            *)
(*   ChaCha20QuarterRound(st, <<a, b, c, d>>)        2.1 on a 16-word state (1-based index) *)
(*   CounterOfLE(b1, b2, b3, b4)                     counter word from 4 little-endian bytes *)
EXTENDS Word32

\* "expa" "nd 3" "2-by" "te k": 61707865 3320646e 79622d32 6b206574
LOCAL Sigma == << <<24944, 30821>>, <<13088, 25710>>, <<31074, 11570>>, <<27424, 25972>> >>

ChaCha20QuarterRound(st, ix) ==
   LET a0 == st[ix[1]]  b0 == st[ix[2]]  c0 == st[ix[3]]  d0 == st[ix[4]]
       a1 == Add32(a0, b0)   d1 == RotL32(Xor32(d0, a1), 16)
       c1 == Add32(c0, d1)   b1 == RotL32(Xor32(b0, c1), 12)
       a2 == Add32(a1, b1)   d2 == RotL32(Xor32(d1, a2), 8)
       c2 == Add32(c1, d2)   b2 == RotL32(Xor32(b1, c2), 7)
   IN [st EXCEPT ![ix[1]] = a2, ![ix[2]] = b2, ![ix[3]] = c2, ![ix[4]] = d2]

\* 2.3: column round then diagonal round (state words numbered 1..16 here, 0..15 in the RFC)
LOCAL DoubleRound == << <<1, 5, 9, 13>>, <<2, 6, 10, 14>>, <<3, 7, 11, 15>>, <<4, 8, 12, 16>>,
                        <<1, 6, 11, 16>>, <<2, 7, 12, 13>>, <<3, 8, 9, 14>>, <<4, 5, 10, 15>> >>
LOCAL TwentyRounds == [i \in 1..80 |-> DoubleRound[((i - 1) % 8) + 1]]

LOCAL InitState(key, nonce, ctr) ==
   Sigma \o <<WordAtLE(key, 1), WordAtLE(key, 2), WordAtLE(key, 3), WordAtLE(key, 4),
              WordAtLE(key, 5), WordAtLE(key, 6), WordAtLE(key, 7), WordAtLE(key, 8),
              ctr, WordAtLE(nonce, 1), WordAtLE(nonce, 2), WordAtLE(nonce, 3)>>

LOCAL BlockWords(key, nonce, ctr) ==
   LET s0 == InitState(key, nonce, ctr)
       w == FoldLeft(ChaCha20QuarterRound, s0, TwentyRounds)
   IN <<Add32(w[1], s0[1]), Add32(w[2], s0[2]), Add32(w[3], s0[3]), Add32(w[4], s0[4]),
        Add32(w[5], s0[5]), Add32(w[6], s0[6]), Add32(w[7], s0[7]), Add32(w[8], s0[8]),
        Add32(w[9], s0[9]), Add32(w[10], s0[10]), Add32(w[11], s0[11]), Add32(w[12], s0[12]),
        Add32(w[13], s0[13]), Add32(w[14], s0[14]), Add32(w[15], s0[15]), Add32(w[16], s0[16])>>

LOCAL SerLE(ws) == FoldLeft(LAMBDA acc, w : acc \o BytesLE(w), <<>>, ws)

ChaCha20Block(key, nonce, ctr) == SerLE(BlockWords(key, nonce, ctr))

\* keystream blocks ctr, ctr+1, ... (mod 2^32), cut to n bytes
ChaCha20Keystream(key, nonce, ctr, n) ==
   LET nb == (n + 63) \div 64
       ks == FoldLeft(LAMBDA acc, j : acc \o ChaCha20Block(key, nonce, AddSmall32(ctr, j)), <<>>, [b \in 1..nb |-> b - 1])
   IN SubSeq(ks, 1, n)

ChaCha20Xor(key, nonce, ctr, bytes) ==
   LET ks == ChaCha20Keystream(key, nonce, ctr, Len(bytes))
   IN FoldLeft(LAMBDA acc, i : Append(acc, bytes[i] ^^ ks[i]), <<>>, [i \in 1..Len(bytes) |-> i])

CounterOfLE(b1, b2, b3, b4) == FromLE(b1, b2, b3, b4)

---------------------------------------------------------------------------------------
(* RFC 8439 test vectors.                                                                  *)
LOCAL Key0to31 == [i \in 1..32 |-> i - 1]
\* 2.1.1 quarter round on a = 11111111 b = 01020304 c = 9b8d6f43 d = 01234567
ASSUME ChaCha20QuarterRound(<< <<4369, 4369>>, <<258, 772>>, <<39821, 28483>>, <<291, 17767>> >>, <<1, 2, 3, 4>>) =
          << <<59946, 37620>>, <<51996, 63694>>, <<17793, 18222>>, <<22657, 50363>> >>   \* ea2a92f4 cb1cf8ce 4581472e 5881c4bb
\* 2.3.2 block: key 00..1f, nonce 00 00 00 09 00 00 00 4a 00 00 00 00, counter 1
ASSUME ChaCha20Block(Key0to31, <<0,0,0,9, 0,0,0,74, 0,0,0,0>>, <<0, 1>>) =
   <<16,241,231,228, 209,59,89,21, 80,15,221,31, 163,32,113,196,  199,209,244,199, 51,192,104,3, 4,34,170,154, 195,212,108,78,
     210,130,100,70, 7,159,170,9, 20,194,215,5, 217,139,2,162,  181,18,156,209, 222,22,78,185, 203,208,131,232, 162,80,60,78>>
\* 2.4.2 encryption: key 00..1f, nonce 00 00 00 00 00 00 00 4a 00 00 00 00, initial counter 1,
\* "Ladies and Gentlemen of the class of '99: If I could offer you only one tip for the future, sunscreen would be it."
LOCAL Sunscreen == <<76,97,100,105,101,115,32,97,110,100,32,71,101,110,116,108,101,109,101,110,32,111,102,32,116,104,101,32,99,108,97,115,
                     115,32,111,102,32,39,57,57,58,32,73,102,32,73,32,99,111,117,108,100,32,111,102,102,101,114,32,121,111,117,32,111,
                     110,108,121,32,111,110,101,32,116,105,112,32,102,111,114,32,116,104,101,32,102,117,116,117,114,101,44,32,115,117,110,115,
                     99,114,101,101,110,32,119,111,117,108,100,32,98,101,32,105,116,46>>
LOCAL SunscreenCt ==
   <<110,46,53,154, 37,104,249,128, 65,186,7,40, 221,13,105,129,  233,126,122,236, 29,67,96,194, 10,39,175,204, 253,159,174,11,
     249,27,101,197, 82,71,51,171, 143,89,61,171, 205,98,179,87,  22,57,214,36, 230,81,82,171, 143,83,12,53, 159,8,97,216,
     7,202,13,191, 80,13,106,97, 86,163,142,8, 138,34,182,94,  82,188,81,77, 22,204,248,6, 129,140,233,26, 183,121,55,54,
     90,249,11,191, 116,163,91,230, 180,11,142,237, 242,120,94,66,  135,77>>
ASSUME Len(Sunscreen) = 114
ASSUME ChaCha20Xor(Key0to31, <<0,0,0,0, 0,0,0,74, 0,0,0,0>>, <<0, 1>>, Sunscreen) = SunscreenCt
ASSUME ChaCha20Xor(Key0to31, <<0,0,0,0, 0,0,0,74, 0,0,0,0>>, <<0, 1>>, SunscreenCt) = Sunscreen
ASSUME ChaCha20Xor(Key0to31, <<0,0,0,0, 0,0,0,74, 0,0,0,0>>, <<0, 1>>, <<>>) = <<>>
=============================================================================
