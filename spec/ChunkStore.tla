---------------------------- MODULE ChunkStore ----------------------------
(* Chunk store with optional persistence: contract level (what C01 / C04 fix) and design   *)
(* level (shaped like src/core/ChunkStore.cpp: in-memory map, erase-on-lookup, persist =  *)
(* wipe-old / open+truncate / write, wipe = overwrite / unlink, crash between any two     *)
(* filesystem steps, restart on the same directory).                                       *)
(*                                                                                         *)
(* Time is an integer (model: abstract ticks; traces: milliseconds).                       *)
EXTENDS Integers, Sequences, FiniteSets, TLC

CONSTANTS Ids,        \* chunk ids
          Payloads,   \* payload identities (the harness maps an index to concrete bytes)
          Ttls,       \* effective lifetimes the model tries
          MaxNow,     \* model bound on the clock
          Persistent, \* BOOLEAN: persistence + wipe-on-expiry enabled
          StartupScrub, \* BOOLEAN: the constructor wipes chunk files left by an earlier instance
          EraseOnLookup, \* BOOLEAN deviation: a lookup erases an expired record (file left behind)
          ListRaw,      \* BOOLEAN deviation: the listing shows every record of the map, expired or not
          CleanFailedWrite \* BOOLEAN: a store whose write fails part-way (disk full, quota) wipes the partial file before giving up

VARIABLES now,    \* clock
          rec,    \* CONTRACT ghost: rec[c] = last completed or begun put  [live, b, dl]
          mem,    \* DESIGN: in-memory map  mem[c] = [has, b, dl, persisted]
          disk,   \* DESIGN: disk[c] \in {"absent"} \cup {<<"data", b>>, <<"partial">>, <<"zero">>}
          pc,     \* DESIGN: in-progress multi-step operation, <<>> when idle
          lastSweep, \* time of the last completed cleanup (-1: none)
          obs     \* last observable result

cvars == <<now, rec, mem, disk, pc, lastSweep, obs>>

NoRec  == [live |-> FALSE, b |-> 0, dl |-> 0]
NoMem  == [has |-> FALSE, b |-> 0, dl |-> 0, persisted |-> FALSE]
Absent == <<"absent">>
Idle   == <<>>

Live(c)    == rec[c].live /\ now < rec[c].dl          \* CONTRACT: c is live
MemLive(c) == mem[c].has /\ now < mem[c].dl

Init == /\ now = 0 /\ rec = [c \in Ids |-> NoRec] /\ mem = [c \in Ids |-> NoMem]
        /\ disk = [c \in Ids |-> Absent] /\ pc = Idle /\ lastSweep = -1 /\ obs = <<"init">>

-----------------------------------------------------------------------------
(* DESIGN actions.  Multi-step operations run through pc; every step is one filesystem    *)
(* call, so Crash can strike between any two.                                              *)

\* put(c, b, ttl): [wipe old file if the map has a persisted record] ; persist ; insert.
\* persist_chunk_to_disk: exists? -> secure_wipe_file (zero, unlink) ; open/trunc ; write.
PutBegin(c, b, ttl) ==
    /\ pc = Idle
    /\ rec' = [rec EXCEPT ![c] = [live |-> TRUE, b |-> b, dl |-> now + ttl]]   \* the chunk's deadline is fixed when the store begins
    /\ IF Persistent
         THEN /\ pc' = [op |-> "put", c |-> c, b |-> b, dl |-> now + ttl, failed |-> FALSE,
                        step |-> IF disk[c] # Absent THEN "zero" ELSE "open"]
              /\ obs' = <<"busy">> /\ UNCHANGED mem
         ELSE /\ mem' = [mem EXCEPT ![c] = [has |-> TRUE, b |-> b, dl |-> now + ttl, persisted |-> FALSE]]
              /\ pc' = Idle /\ obs' = <<"put", c>>
    /\ UNCHANGED <<now, disk, lastSweep>>

PutStep ==
    /\ pc # Idle /\ pc.op = "put"
    /\ LET c == pc.c IN
       CASE pc.step = "zero"  -> /\ disk' = [disk EXCEPT ![c] = <<"zero">>]
                                 /\ pc' = [pc EXCEPT !.step = "unlink"] /\ UNCHANGED <<mem, obs>>
         [] pc.step = "unlink" -> /\ disk' = [disk EXCEPT ![c] = Absent]
                                 /\ IF pc.failed   \* the partial file of a failed write is gone: keep the chunk in memory only
                                      THEN /\ mem' = [mem EXCEPT ![c] = [has |-> TRUE, b |-> pc.b, dl |-> pc.dl, persisted |-> FALSE]]
                                           /\ pc' = Idle /\ obs' = <<"put", c>>
                                      ELSE /\ pc' = [pc EXCEPT !.step = "open"] /\ UNCHANGED <<mem, obs>>
         [] pc.step = "open"  -> /\ disk' = [disk EXCEPT ![c] = <<"partial">>]
                                 /\ pc' = [pc EXCEPT !.step = "write"] /\ UNCHANGED <<mem, obs>>
         [] pc.step = "write" -> /\ disk' = [disk EXCEPT ![c] = <<"data", pc.b>>]
                                 /\ mem' = [mem EXCEPT ![c] = [has |-> TRUE, b |-> pc.b, dl |-> pc.dl, persisted |-> TRUE]]
                                 /\ pc' = Idle /\ obs' = <<"put", c>>
    /\ UNCHANGED <<now, rec, lastSweep>>

\* the write of a put fails part-way (ENOSPC, quota, I/O error): persist_chunk_to_disk wipes what it wrote and reports failure;
\* put keeps the record in memory with persisted = FALSE, so no later sweep would touch a file left behind here.
WriteFail ==
    /\ pc # Idle /\ pc.op = "put" /\ pc.step = "write"
    /\ IF CleanFailedWrite
         THEN /\ pc' = [pc EXCEPT !.step = "zero", !.failed = TRUE] /\ UNCHANGED <<mem, obs>>
         ELSE /\ mem' = [mem EXCEPT ![pc.c] = [has |-> TRUE, b |-> pc.b, dl |-> pc.dl, persisted |-> FALSE]]
              /\ pc' = Idle /\ obs' = <<"put", pc.c>>
    /\ UNCHANGED <<now, rec, disk, lastSweep>>

\* get / get_record: serves iff the map holds an unexpired record.  The code used to erase an
\* expired record here (without wiping its file); it now leaves removal to the sweep.
Get(c) ==
    /\ pc = Idle
    /\ obs' = IF MemLive(c) THEN <<"hit", c, mem[c].b>> ELSE <<"miss", c>>
    /\ mem' = IF EraseOnLookup /\ mem[c].has /\ ~MemLive(c) THEN [mem EXCEPT ![c] = NoMem] ELSE mem
    /\ UNCHANGED <<now, rec, disk, pc, lastSweep>>

\* listing (snapshot / stored_chunks): only unexpired records
List ==
    /\ pc = Idle
    /\ obs' = <<"list", {c \in Ids : IF ListRaw THEN mem[c].has ELSE MemLive(c)}>>
    /\ UNCHANGED <<now, rec, mem, disk, pc, lastSweep>>

\* sweep_expired: for every expired record: wipe (zero, unlink) when persisted, erase.
Dead == {c \in Ids : mem[c].has /\ now >= mem[c].dl}
SweepBegin ==
    /\ pc = Idle
    /\ IF Dead = {} THEN /\ pc' = Idle /\ lastSweep' = now /\ obs' = <<"swept", {}>>
                    ELSE /\ pc' = [op |-> "sweep", todo |-> Dead, removed |-> {}, step |-> "pick", c |-> CHOOSE c \in Dead : TRUE]
                         /\ UNCHANGED <<lastSweep, obs>>
    /\ UNCHANGED <<now, rec, mem, disk>>
SweepStep ==
    /\ pc # Idle /\ pc.op = "sweep"
    /\ CASE pc.step = "pick" ->
              \E c \in pc.todo :
                 IF mem[c].persisted /\ disk[c] # Absent
                   THEN /\ pc' = [pc EXCEPT !.c = c, !.step = "zero"] /\ UNCHANGED <<mem, disk, lastSweep, obs>>
                   ELSE /\ mem' = [mem EXCEPT ![c] = NoMem]
                        /\ LET todo == pc.todo \ {c} rem == pc.removed \cup {c} IN
                             IF todo = {} THEN /\ pc' = Idle /\ lastSweep' = now /\ obs' = <<"swept", rem>>
                                          ELSE /\ pc' = [pc EXCEPT !.todo = todo, !.removed = rem] /\ UNCHANGED <<lastSweep, obs>>
                        /\ UNCHANGED disk
         [] pc.step = "zero" -> /\ disk' = [disk EXCEPT ![pc.c] = <<"zero">>]
                                /\ pc' = [pc EXCEPT !.step = "unlink"] /\ UNCHANGED <<mem, lastSweep, obs>>
         [] pc.step = "unlink" ->
              /\ disk' = [disk EXCEPT ![pc.c] = Absent]
              /\ mem' = [mem EXCEPT ![pc.c] = NoMem]
              /\ LET todo == pc.todo \ {pc.c} rem == pc.removed \cup {pc.c} IN
                   IF todo = {} THEN /\ pc' = Idle /\ lastSweep' = now /\ obs' = <<"swept", rem>>
                                ELSE /\ pc' = [pc EXCEPT !.todo = todo, !.removed = rem, !.step = "pick"] /\ UNCHANGED <<lastSweep, obs>>
    /\ UNCHANGED <<now, rec>>

Advance(d) == /\ pc = Idle /\ now' = now + d /\ obs' = <<"adv">>
              /\ UNCHANGED <<rec, mem, disk, pc, lastSweep>>

\* crash: memory and the in-progress operation are lost, the disk stays as it is; the new
\* instance's constructor runs at once (scrubbing leftover chunk files when StartupScrub).
CrashRestart ==
    /\ Persistent
    /\ mem' = [c \in Ids |-> NoMem] /\ pc' = Idle
    /\ disk' = IF StartupScrub THEN [c \in Ids |-> Absent] ELSE disk
    /\ obs' = <<"restart">>
    /\ UNCHANGED <<now, rec, lastSweep>>

-----------------------------------------------------------------------------
(* CONTRACT, stated over the ghost rec and the design's observables / disk.                *)

\* [C01] a read serves exactly the live chunk with the last stored bytes; a listing never
\* names a chunk at or after its deadline.  (After a restart nothing is held: the store has
\* no reload path, so "stored" refers to the current instance.)
Held(c) == mem[c].has     \* abstraction of "stored in this instance"
C01_ReadExact ==
    /\ (obs[1] = "hit")  => /\ Live(obs[2]) /\ obs[3] = rec[obs[2]].b
    /\ (obs[1] = "miss") => ~(Live(obs[2]) /\ Held(obs[2]))
    /\ (obs[1] = "list") => \A c \in obs[2] : Live(c)
\* the design never forgets a live chunk of this instance
C01_NoEarlyLoss == \A c \in Ids : pc = Idle /\ mem[c].has => (mem[c].b = rec[c].b /\ mem[c].dl = rec[c].dl)

\* [C04] at quiescent points a chunk file holds exactly the stored bytes of a chunk that is
\* live, or of a chunk whose deadline has passed but no cleanup has completed since.
C04_FileImpliesLive ==
    pc = Idle => \A c \in Ids :
       disk[c] # Absent =>
          /\ disk[c] = <<"data", rec[c].b>>
          /\ rec[c].live
          /\ (now < rec[c].dl \/ lastSweep < rec[c].dl)
\* ... and right after a completed cleanup no file of a dead chunk is left, whoever wrote it
C04_NoDeadFileAfterSweep ==
    (pc = Idle /\ obs[1] = "swept") => \A c \in Ids : disk[c] # Absent => Live(c)
\* a file is unlinked only after it has been overwritten (design: the step order)
C04_WipeBeforeUnlink == pc # Idle /\ pc.step = "unlink" => disk[pc.c] = <<"zero">>

-----------------------------------------------------------------------------
(* Model-checking harness: a finite input alphabet, indexable so that TLC's state dump     *)
(* yields replayable input sequences (hist is hidden by VIEW).                             *)
VARIABLE hist
vars == <<now, rec, mem, disk, pc, lastSweep, obs, hist>>

Acts == {[op |-> "put", c |-> c, b |-> b, ttl |-> t] : c \in Ids, b \in Payloads, t \in Ttls}
   \cup {[op |-> "get", c |-> c] : c \in Ids}
   \cup {[op |-> "list"], [op |-> "sweep"], [op |-> "adv", d |-> 1], [op |-> "crash"], [op |-> "wfail"]}

Do(a) == CASE a.op = "put"   -> PutBegin(a.c, a.b, a.ttl)
           [] a.op = "get"   -> Get(a.c)
           [] a.op = "list"  -> List
           [] a.op = "sweep" -> SweepBegin
           [] a.op = "adv"   -> Advance(a.d)
           [] a.op = "crash" -> CrashRestart
           [] a.op = "wfail" -> WriteFail

MCInit == Init /\ hist = <<>>
\* inputs are taken only when idle; internal steps finish the running operation; a crash
\* may interrupt it (that is how interrupted stores / wipes enter the state space)
MCNext == \/ \E a \in Acts : /\ (pc = Idle \/ a.op \in {"crash", "wfail"}) /\ Do(a)
                             /\ hist' = Append(hist, IF a.op = "crash" THEN [op |-> "crash", mid |-> (pc # Idle)] ELSE a)
          \/ (PutStep \/ SweepStep) /\ hist' = Append(hist, [op |-> "step"])
MCSpec == MCInit /\ [][MCNext]_vars
View == <<now, rec, mem, disk, pc, lastSweep, obs>>
Bound == now <= MaxNow /\ Len(hist) <= 14

\* vacuity guards (checked as invariants expected to be VIOLATED, see MC_ChunkStore_reach.cfg)
Reach_ReadAtDeadline == ~(\E c \in Ids : obs = <<"miss", c>> /\ rec[c].live /\ now = rec[c].dl /\ mem[c].has)
Reach_CrashMidWipe   == ~(obs[1] = "restart" /\ \E c \in Ids : disk[c] = <<"zero">>)
Reach_FailedWrite == ~(pc = Idle /\ \E c \in Ids : mem[c].has /\ ~mem[c].persisted /\ Persistent /\ now >= mem[c].dl)
Reach_OverwriteShorter == ~(\E c \in Ids : obs = <<"put", c>> /\ rec[c].live /\ \E h \in 1..Len(hist) : hist[h].op = "put" /\ hist[h].c = c /\ hist[h].ttl > rec[c].dl - now)
=============================================================================
