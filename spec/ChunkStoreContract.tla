------------------------- MODULE ChunkStoreContract -------------------------
(* What C01 and C04 fix about a chunk store, as pure operators over                      *)
(*   rec  : chunk -> [live, b, dl, inst]   last store of the chunk (ghost, never erased) *)
(*   now, lastSweep, inst (current instance number)                                       *)
(* used by the design model (ChunkStore.tla, as invariants) and by the trace             *)
(* specification (ChunkStoreTrace.tla, on the observations logged from the real code).   *)
EXTENDS Integers, FiniteSets

CLive(rec, now, c) == rec[c].live /\ now < rec[c].dl

\* [C01] a read of c returned (hit, b) / miss.  held = the current instance stored c.
ReadOk(rec, now, held, c, hit, b) ==
    IF hit THEN CLive(rec, now, c) /\ b = rec[c].b
           ELSE ~(CLive(rec, now, c) /\ held)

\* [C01] a listing named the set ids: nothing at or past its deadline is served
ListOk(rec, now, ids) == \A c \in ids : c \in DOMAIN rec /\ CLive(rec, now, c)

\* [C04] files = set of <<c, k>> (k >= 0: exactly payload k; -1 zeros; -2 anything else)
FileContentOk(rec, files) == \A f \in files : f[1] \in DOMAIN rec /\ rec[f[1]].live /\ f[2] = rec[f[1]].b
FileNotOutliving(rec, now, lastSweep, files) ==
    \A f \in files : f[1] \in DOMAIN rec => (now < rec[f[1]].dl \/ lastSweep < rec[f[1]].dl)
NoDeadFileAfterSweep(rec, now, files) == \A f \in files : f[1] \in DOMAIN rec /\ CLive(rec, now, f[1])
FilePresent(rec, now, heldSet, files) == \A c \in heldSet : CLive(rec, now, c) => \E f \in files : f[1] = c
UnlinkWiped(unl) == \A u \in unl : u[2] = -1
=============================================================================
