--------------------------- MODULE ChunkStoreTrace ---------------------------
(* Trace specification: validates an ndjson trace recorded from the real ChunkStore (or   *)
(* the chunk-facing calls of a real Node) against the C01 / C04 contract.                  *)
EXTENDS TraceKit, ChunkStoreContract

Ids == 0..63
NoRec == [live |-> FALSE, b |-> -100, dl |-> 0, inst |-> 0, nf |-> FALSE]

VARIABLES l, viol, poisoned,
          now, rec, held, lastSweep, inst, persistent, crashed, nchecked
vars == <<l, viol, poisoned, now, rec, held, lastSweep, inst, persistent, crashed, nchecked>>

Init == /\ l = 1 /\ viol = <<>> /\ poisoned = FALSE
        /\ now = 0 /\ rec = [c \in Ids |-> NoRec] /\ held = {} /\ lastSweep = -1 /\ inst = 0
        /\ persistent = FALSE /\ crashed = FALSE /\ nchecked = 0

Pairs(x) == {<<x[i][1], x[i][2]>> : i \in DOMAIN Arr(x)}
Files(e) == IF Has(e, "disk") THEN Pairs(e.disk) ELSE {}
Unl(e)   == IF Has(e, "unl") THEN Pairs(e.unl) ELSE {}

\* clauses that apply to every event of a persistent, wiping store
DiskClauses(e, r, t, ls, h, strict) ==
    IF ~persistent \/ ~Has(e, "disk") THEN {} ELSE
    (IF FileContentOk(r, Files(e)) \/ crashed THEN {} ELSE {"C04.file-content"})
    \cup (IF FileNotOutliving(r, t, ls, Files(e)) THEN {}
          ELSE {IF \E f \in Files(e) : f[1] \in Ids /\ ~(t < r[f[1]].dl \/ ls < r[f[1]].dl) /\ r[f[1]].inst < inst
                THEN "C04.file-outlives-chunk/earlier-instance" ELSE "C04.file-outlives-chunk"})
    \* a store whose write failed (nf) may have no file; if it has one, the content clause above still demands the exact bytes
    \cup (IF ~strict \/ FilePresent(r, t, {c \in h : ~r[c].nf}, Files(e)) THEN {} ELSE {"C04.file-missing-while-live"})
    \cup (IF UnlinkWiped(Unl(e)) THEN {} ELSE {"C04.unlink-without-overwrite"})

Step(e) ==
  CASE e.op = "reset" ->
        /\ now' = e.t /\ rec' = [c \in Ids |-> NoRec] /\ held' = {} /\ lastSweep' = -1 /\ inst' = 0
        /\ persistent' = (Fld(e, "persistent", 0) = 1 /\ Fld(e, "wipe", 1) = 1) /\ crashed' = FALSE
        /\ poisoned' = FALSE /\ UNCHANGED <<viol, nchecked>>
    [] poisoned -> UNCHANGED <<viol, poisoned, now, rec, held, lastSweep, inst, persistent, crashed, nchecked>>
    [] e.op = "begin" ->
        \* an operation starts (only matters when a crash follows): a begun put fixes the
        \* chunk's bytes; its deadline is not yet observable, take "far" until the put returns
        /\ IF e.what = "put"
             THEN rec' = [rec EXCEPT ![e.c] = [live |-> TRUE, b |-> e.b, dl |-> 2000000000, inst |-> inst, nf |-> FALSE]]
             ELSE UNCHANGED rec
        /\ UNCHANGED <<viol, poisoned, now, held, lastSweep, inst, persistent, crashed, nchecked>>
    [] e.op = "put" ->
        LET r2 == [rec EXCEPT ![e.c] = [live |-> TRUE, b |-> e.b, dl |-> e.dl, inst |-> inst, nf |-> (Fld(e, "wfail", 0) = 1)]]
            h2 == held \cup {e.c}
            bad == (IF e.dl > e.t /\ (e.ttl > 0 => e.dl = e.t + e.ttl) THEN {} ELSE {"C01.put-deadline"})
                   \cup DiskClauses(e, r2, e.t, lastSweep, h2, ~crashed)
        IN /\ rec' = r2 /\ held' = h2 /\ now' = e.t
           /\ viol' = IF bad = {} THEN viol ELSE Append(viol, Fail(l, bad, e))
           /\ poisoned' = (bad # {}) /\ nchecked' = nchecked + 1
           /\ UNCHANGED <<lastSweep, inst, persistent, crashed>>
    [] e.op = "get" ->
        LET bad == (IF ReadOk(rec, e.t, e.c \in held, e.c, e.res = "hit", e.b) THEN {}
                    ELSE {IF e.res = "hit" THEN "C01.read-served-dead-or-wrong" ELSE "C01.read-missed-live"})
                   \cup DiskClauses(e, rec, e.t, lastSweep, held, ~crashed)
        IN /\ now' = e.t
           /\ viol' = IF bad = {} THEN viol ELSE Append(viol, Fail(l, bad, e))
           /\ poisoned' = (bad # {}) /\ nchecked' = nchecked + 1
           /\ UNCHANGED <<rec, held, lastSweep, inst, persistent, crashed>>
    [] e.op = "list" ->
        LET bad == (IF ListOk(rec, e.t, ArrSet(Arr(e.ids))) THEN {} ELSE {"C01.listing-serves-dead"})
                   \cup DiskClauses(e, rec, e.t, lastSweep, held, ~crashed)
        IN /\ now' = e.t
           /\ viol' = IF bad = {} THEN viol ELSE Append(viol, Fail(l, bad, e))
           /\ poisoned' = (bad # {}) /\ nchecked' = nchecked + 1
           /\ UNCHANGED <<rec, held, lastSweep, inst, persistent, crashed>>
    [] e.op = "sweep" ->
        LET bad == (IF ~persistent \/ NoDeadFileAfterSweep(rec, e.t, Files(e)) THEN {}
                    ELSE {IF \E f \in Files(e) : f[1] \in Ids /\ rec[f[1]].inst < inst
                          THEN "C04.dead-file-after-sweep/earlier-instance" ELSE "C04.dead-file-after-sweep"})
                   \cup DiskClauses(e, rec, e.t, e.t, held, ~crashed)
        IN /\ now' = e.t /\ lastSweep' = e.t
           /\ viol' = IF bad = {} THEN viol ELSE Append(viol, Fail(l, bad, e))
           /\ poisoned' = (bad # {}) /\ nchecked' = nchecked + 1
           /\ UNCHANGED <<rec, held, inst, persistent, crashed>>
    [] e.op = "adv" ->
        LET bad == DiskClauses(e, rec, e.t, lastSweep, held, ~crashed)
        IN /\ now' = e.t
           /\ viol' = IF bad = {} THEN viol ELSE Append(viol, Fail(l, bad, e))
           /\ poisoned' = (bad # {})
           /\ UNCHANGED <<rec, held, lastSweep, inst, persistent, crashed, nchecked>>
    [] e.op = "restart" ->
        \* a new instance on the same directory: it holds nothing; files may still be there
        LET bad == DiskClauses(e, rec, e.t, lastSweep, {}, FALSE)
        IN /\ now' = e.t /\ held' = {} /\ inst' = inst + 1
           /\ viol' = IF bad = {} THEN viol ELSE Append(viol, Fail(l, bad, e))
           /\ poisoned' = (bad # {})
           /\ UNCHANGED <<rec, lastSweep, persistent, crashed, nchecked>>
    [] e.op = "crash" ->
        \* the process died inside an operation; memory is gone, partial files are possible
        /\ now' = e.t /\ held' = {} /\ crashed' = TRUE /\ persistent' = TRUE
        /\ rec' = [c \in Ids |-> IF rec[c].live /\ rec[c].dl > e.t THEN [rec[c] EXCEPT !.dl = e.t] ELSE rec[c]]
        /\ UNCHANGED <<viol, poisoned, lastSweep, inst, nchecked>>
    [] e.op = "final" ->
        \* every deadline has passed and a cleanup has completed: the directory must be empty
        LET bad == IF Files(e) = {} THEN {} ELSE {"C04.crash-leaves-file"}
        IN /\ viol' = IF bad = {} THEN viol ELSE Append(viol, Fail(l, bad, e))
           /\ poisoned' = (bad # {}) /\ nchecked' = nchecked + 1
           /\ UNCHANGED <<now, rec, held, lastSweep, inst, persistent, crashed>>
    [] OTHER -> UNCHANGED <<viol, poisoned, now, rec, held, lastSweep, inst, persistent, crashed, nchecked>>

Next == l <= Len(T) /\ l' = l + 1 /\ Step(T[l])
Spec == Init /\ [][Next]_vars
Done == Report(l, viol, [checked |-> nchecked])
=============================================================================
