---- MODULE ChunkStore_TTrace_1790034543 ----
EXTENDS Sequences, TLCExt, Toolbox, Naturals, TLC, ChunkStore

_expression ==
    LET ChunkStore_TEExpression == INSTANCE ChunkStore_TEExpression
    IN ChunkStore_TEExpression!expression
----

_trace ==
    LET ChunkStore_TETrace == INSTANCE ChunkStore_TETrace
    IN ChunkStore_TETrace!trace
----

_inv ==
    ~(
        TLCGet("level") = Len(_TETrace)
        /\
        rec = (<<[live |-> TRUE, b |-> 0, dl |-> 1], [live |-> TRUE, b |-> 0, dl |-> 4]>>)
        /\
        obs = (<<"put", 2>>)
        /\
        disk = (<<<<"data", 0>>, <<"data", 0>>>>)
        /\
        hist = (<<[op |-> "sweep"], [b |-> 0, c |-> 1, ttl |-> 1, op |-> "put"], [op |-> "step"], [op |-> "step"], [op |-> "adv", d |-> 1], [b |-> 0, c |-> 2, ttl |-> 2, op |-> "put"], [op |-> "step"], [op |-> "step"], [op |-> "adv", d |-> 1], [op |-> "adv", d |-> 1], [b |-> 0, c |-> 2, ttl |-> 1, op |-> "put"], [op |-> "step"], [op |-> "step"], [op |-> "step"], [op |-> "step"]>>)
        /\
        pc = (<<>>)
        /\
        mem = (<<[b |-> 0, dl |-> 1, has |-> TRUE, persisted |-> TRUE], [b |-> 0, dl |-> 4, has |-> TRUE, persisted |-> TRUE]>>)
        /\
        now = (3)
        /\
        lastSweep = (0)
    )
----

_init ==
    /\ now = _TETrace[1].now
    /\ pc = _TETrace[1].pc
    /\ disk = _TETrace[1].disk
    /\ rec = _TETrace[1].rec
    /\ hist = _TETrace[1].hist
    /\ obs = _TETrace[1].obs
    /\ lastSweep = _TETrace[1].lastSweep
    /\ mem = _TETrace[1].mem
----

_next ==
    /\ \E i,j \in DOMAIN _TETrace:
        /\ \/ /\ j = i + 1
              /\ i = TLCGet("level")
        /\ now  = _TETrace[i].now
        /\ now' = _TETrace[j].now
        /\ pc  = _TETrace[i].pc
        /\ pc' = _TETrace[j].pc
        /\ disk  = _TETrace[i].disk
        /\ disk' = _TETrace[j].disk
        /\ rec  = _TETrace[i].rec
        /\ rec' = _TETrace[j].rec
        /\ hist  = _TETrace[i].hist
        /\ hist' = _TETrace[j].hist
        /\ obs  = _TETrace[i].obs
        /\ obs' = _TETrace[j].obs
        /\ lastSweep  = _TETrace[i].lastSweep
        /\ lastSweep' = _TETrace[j].lastSweep
        /\ mem  = _TETrace[i].mem
        /\ mem' = _TETrace[j].mem

\* Uncomment the ASSUME below to write the states of the error trace
\* to the given file in Json format. Note that you can pass any tuple
\* to `JsonSerialize`. For example, a sub-sequence of _TETrace.
    \* ASSUME
    \*     LET J == INSTANCE Json
    \*         IN J!JsonSerialize("ChunkStore_TTrace_1790034543.json", _TETrace)

=============================================================================

 Note that you can extract this module `ChunkStore_TEExpression`
  to a dedicated file to reuse `expression` (the module in the 
  dedicated `ChunkStore_TEExpression.tla` file takes precedence 
  over the module `ChunkStore_TEExpression` below).

---- MODULE ChunkStore_TEExpression ----
EXTENDS Sequences, TLCExt, Toolbox, Naturals, TLC, ChunkStore

expression == 
    [
        \* To hide variables of the `ChunkStore` spec from the error trace,
        \* remove the variables below.  The trace will be written in the order
        \* of the fields of this record.
        now |-> now
        ,pc |-> pc
        ,disk |-> disk
        ,rec |-> rec
        ,hist |-> hist
        ,obs |-> obs
        ,lastSweep |-> lastSweep
        ,mem |-> mem
        
        \* Put additional constant-, state-, and action-level expressions here:
        \* ,_stateNumber |-> _TEPosition
        \* ,_nowUnchanged |-> now = now'
        
        \* Format the `now` variable as Json value.
        \* ,_nowJson |->
        \*     LET J == INSTANCE Json
        \*     IN J!ToJson(now)
        
        \* Lastly, you may build expressions over arbitrary sets of states by
        \* leveraging the _TETrace operator.  For example, this is how to
        \* count the number of times a spec variable changed up to the current
        \* state in the trace.
        \* ,_nowModCount |->
        \*     LET F[s \in DOMAIN _TETrace] ==
        \*         IF s = 1 THEN 0
        \*         ELSE IF _TETrace[s].now # _TETrace[s-1].now
        \*             THEN 1 + F[s-1] ELSE F[s-1]
        \*     IN F[_TEPosition - 1]
    ]

=============================================================================



Parsing and semantic processing can take forever if the trace below is long.
 In this case, it is advised to uncomment the module below to deserialize the
 trace from a generated binary file.

\*
\*---- MODULE ChunkStore_TETrace ----
\*EXTENDS IOUtils, TLC, ChunkStore
\*
\*trace == IODeserialize("ChunkStore_TTrace_1790034543.bin", TRUE)
\*
\*=============================================================================
\*

---- MODULE ChunkStore_TETrace ----
EXTENDS TLC, ChunkStore

trace == 
    <<
    ([rec |-> <<[live |-> FALSE, b |-> 0, dl |-> 0], [live |-> FALSE, b |-> 0, dl |-> 0]>>,obs |-> <<"init">>,disk |-> <<<<"absent">>, <<"absent">>>>,hist |-> <<>>,pc |-> <<>>,mem |-> <<[b |-> 0, dl |-> 0, has |-> FALSE, persisted |-> FALSE], [b |-> 0, dl |-> 0, has |-> FALSE, persisted |-> FALSE]>>,now |-> 0,lastSweep |-> -1]),
    ([rec |-> <<[live |-> FALSE, b |-> 0, dl |-> 0], [live |-> FALSE, b |-> 0, dl |-> 0]>>,obs |-> <<"swept", {}>>,disk |-> <<<<"absent">>, <<"absent">>>>,hist |-> <<[op |-> "sweep"]>>,pc |-> <<>>,mem |-> <<[b |-> 0, dl |-> 0, has |-> FALSE, persisted |-> FALSE], [b |-> 0, dl |-> 0, has |-> FALSE, persisted |-> FALSE]>>,now |-> 0,lastSweep |-> 0]),
    ([rec |-> <<[live |-> TRUE, b |-> 0, dl |-> 1], [live |-> FALSE, b |-> 0, dl |-> 0]>>,obs |-> <<"busy">>,disk |-> <<<<"absent">>, <<"absent">>>>,hist |-> <<[op |-> "sweep"], [b |-> 0, c |-> 1, ttl |-> 1, op |-> "put"]>>,pc |-> [b |-> 0, dl |-> 1, c |-> 1, op |-> "put", step |-> "open"],mem |-> <<[b |-> 0, dl |-> 0, has |-> FALSE, persisted |-> FALSE], [b |-> 0, dl |-> 0, has |-> FALSE, persisted |-> FALSE]>>,now |-> 0,lastSweep |-> 0]),
    ([rec |-> <<[live |-> TRUE, b |-> 0, dl |-> 1], [live |-> FALSE, b |-> 0, dl |-> 0]>>,obs |-> <<"busy">>,disk |-> <<<<"partial">>, <<"absent">>>>,hist |-> <<[op |-> "sweep"], [b |-> 0, c |-> 1, ttl |-> 1, op |-> "put"], [op |-> "step"]>>,pc |-> [b |-> 0, dl |-> 1, c |-> 1, op |-> "put", step |-> "write"],mem |-> <<[b |-> 0, dl |-> 0, has |-> FALSE, persisted |-> FALSE], [b |-> 0, dl |-> 0, has |-> FALSE, persisted |-> FALSE]>>,now |-> 0,lastSweep |-> 0]),
    ([rec |-> <<[live |-> TRUE, b |-> 0, dl |-> 1], [live |-> FALSE, b |-> 0, dl |-> 0]>>,obs |-> <<"put", 1>>,disk |-> <<<<"data", 0>>, <<"absent">>>>,hist |-> <<[op |-> "sweep"], [b |-> 0, c |-> 1, ttl |-> 1, op |-> "put"], [op |-> "step"], [op |-> "step"]>>,pc |-> <<>>,mem |-> <<[b |-> 0, dl |-> 1, has |-> TRUE, persisted |-> TRUE], [b |-> 0, dl |-> 0, has |-> FALSE, persisted |-> FALSE]>>,now |-> 0,lastSweep |-> 0]),
    ([rec |-> <<[live |-> TRUE, b |-> 0, dl |-> 1], [live |-> FALSE, b |-> 0, dl |-> 0]>>,obs |-> <<"adv">>,disk |-> <<<<"data", 0>>, <<"absent">>>>,hist |-> <<[op |-> "sweep"], [b |-> 0, c |-> 1, ttl |-> 1, op |-> "put"], [op |-> "step"], [op |-> "step"], [op |-> "adv", d |-> 1]>>,pc |-> <<>>,mem |-> <<[b |-> 0, dl |-> 1, has |-> TRUE, persisted |-> TRUE], [b |-> 0, dl |-> 0, has |-> FALSE, persisted |-> FALSE]>>,now |-> 1,lastSweep |-> 0]),
    ([rec |-> <<[live |-> TRUE, b |-> 0, dl |-> 1], [live |-> TRUE, b |-> 0, dl |-> 3]>>,obs |-> <<"busy">>,disk |-> <<<<"data", 0>>, <<"absent">>>>,hist |-> <<[op |-> "sweep"], [b |-> 0, c |-> 1, ttl |-> 1, op |-> "put"], [op |-> "step"], [op |-> "step"], [op |-> "adv", d |-> 1], [b |-> 0, c |-> 2, ttl |-> 2, op |-> "put"]>>,pc |-> [b |-> 0, dl |-> 3, c |-> 2, op |-> "put", step |-> "open"],mem |-> <<[b |-> 0, dl |-> 1, has |-> TRUE, persisted |-> TRUE], [b |-> 0, dl |-> 0, has |-> FALSE, persisted |-> FALSE]>>,now |-> 1,lastSweep |-> 0]),
    ([rec |-> <<[live |-> TRUE, b |-> 0, dl |-> 1], [live |-> TRUE, b |-> 0, dl |-> 3]>>,obs |-> <<"busy">>,disk |-> <<<<"data", 0>>, <<"partial">>>>,hist |-> <<[op |-> "sweep"], [b |-> 0, c |-> 1, ttl |-> 1, op |-> "put"], [op |-> "step"], [op |-> "step"], [op |-> "adv", d |-> 1], [b |-> 0, c |-> 2, ttl |-> 2, op |-> "put"], [op |-> "step"]>>,pc |-> [b |-> 0, dl |-> 3, c |-> 2, op |-> "put", step |-> "write"],mem |-> <<[b |-> 0, dl |-> 1, has |-> TRUE, persisted |-> TRUE], [b |-> 0, dl |-> 0, has |-> FALSE, persisted |-> FALSE]>>,now |-> 1,lastSweep |-> 0]),
    ([rec |-> <<[live |-> TRUE, b |-> 0, dl |-> 1], [live |-> TRUE, b |-> 0, dl |-> 3]>>,obs |-> <<"put", 2>>,disk |-> <<<<"data", 0>>, <<"data", 0>>>>,hist |-> <<[op |-> "sweep"], [b |-> 0, c |-> 1, ttl |-> 1, op |-> "put"], [op |-> "step"], [op |-> "step"], [op |-> "adv", d |-> 1], [b |-> 0, c |-> 2, ttl |-> 2, op |-> "put"], [op |-> "step"], [op |-> "step"]>>,pc |-> <<>>,mem |-> <<[b |-> 0, dl |-> 1, has |-> TRUE, persisted |-> TRUE], [b |-> 0, dl |-> 3, has |-> TRUE, persisted |-> TRUE]>>,now |-> 1,lastSweep |-> 0]),
    ([rec |-> <<[live |-> TRUE, b |-> 0, dl |-> 1], [live |-> TRUE, b |-> 0, dl |-> 3]>>,obs |-> <<"adv">>,disk |-> <<<<"data", 0>>, <<"data", 0>>>>,hist |-> <<[op |-> "sweep"], [b |-> 0, c |-> 1, ttl |-> 1, op |-> "put"], [op |-> "step"], [op |-> "step"], [op |-> "adv", d |-> 1], [b |-> 0, c |-> 2, ttl |-> 2, op |-> "put"], [op |-> "step"], [op |-> "step"], [op |-> "adv", d |-> 1]>>,pc |-> <<>>,mem |-> <<[b |-> 0, dl |-> 1, has |-> TRUE, persisted |-> TRUE], [b |-> 0, dl |-> 3, has |-> TRUE, persisted |-> TRUE]>>,now |-> 2,lastSweep |-> 0]),
    ([rec |-> <<[live |-> TRUE, b |-> 0, dl |-> 1], [live |-> TRUE, b |-> 0, dl |-> 3]>>,obs |-> <<"adv">>,disk |-> <<<<"data", 0>>, <<"data", 0>>>>,hist |-> <<[op |-> "sweep"], [b |-> 0, c |-> 1, ttl |-> 1, op |-> "put"], [op |-> "step"], [op |-> "step"], [op |-> "adv", d |-> 1], [b |-> 0, c |-> 2, ttl |-> 2, op |-> "put"], [op |-> "step"], [op |-> "step"], [op |-> "adv", d |-> 1], [op |-> "adv", d |-> 1]>>,pc |-> <<>>,mem |-> <<[b |-> 0, dl |-> 1, has |-> TRUE, persisted |-> TRUE], [b |-> 0, dl |-> 3, has |-> TRUE, persisted |-> TRUE]>>,now |-> 3,lastSweep |-> 0]),
    ([rec |-> <<[live |-> TRUE, b |-> 0, dl |-> 1], [live |-> TRUE, b |-> 0, dl |-> 4]>>,obs |-> <<"busy">>,disk |-> <<<<"data", 0>>, <<"data", 0>>>>,hist |-> <<[op |-> "sweep"], [b |-> 0, c |-> 1, ttl |-> 1, op |-> "put"], [op |-> "step"], [op |-> "step"], [op |-> "adv", d |-> 1], [b |-> 0, c |-> 2, ttl |-> 2, op |-> "put"], [op |-> "step"], [op |-> "step"], [op |-> "adv", d |-> 1], [op |-> "adv", d |-> 1], [b |-> 0, c |-> 2, ttl |-> 1, op |-> "put"]>>,pc |-> [b |-> 0, dl |-> 4, c |-> 2, op |-> "put", step |-> "zero"],mem |-> <<[b |-> 0, dl |-> 1, has |-> TRUE, persisted |-> TRUE], [b |-> 0, dl |-> 3, has |-> TRUE, persisted |-> TRUE]>>,now |-> 3,lastSweep |-> 0]),
    ([rec |-> <<[live |-> TRUE, b |-> 0, dl |-> 1], [live |-> TRUE, b |-> 0, dl |-> 4]>>,obs |-> <<"busy">>,disk |-> <<<<"data", 0>>, <<"zero">>>>,hist |-> <<[op |-> "sweep"], [b |-> 0, c |-> 1, ttl |-> 1, op |-> "put"], [op |-> "step"], [op |-> "step"], [op |-> "adv", d |-> 1], [b |-> 0, c |-> 2, ttl |-> 2, op |-> "put"], [op |-> "step"], [op |-> "step"], [op |-> "adv", d |-> 1], [op |-> "adv", d |-> 1], [b |-> 0, c |-> 2, ttl |-> 1, op |-> "put"], [op |-> "step"]>>,pc |-> [b |-> 0, dl |-> 4, c |-> 2, op |-> "put", step |-> "unlink"],mem |-> <<[b |-> 0, dl |-> 1, has |-> TRUE, persisted |-> TRUE], [b |-> 0, dl |-> 3, has |-> TRUE, persisted |-> TRUE]>>,now |-> 3,lastSweep |-> 0]),
    ([rec |-> <<[live |-> TRUE, b |-> 0, dl |-> 1], [live |-> TRUE, b |-> 0, dl |-> 4]>>,obs |-> <<"busy">>,disk |-> <<<<"data", 0>>, <<"absent">>>>,hist |-> <<[op |-> "sweep"], [b |-> 0, c |-> 1, ttl |-> 1, op |-> "put"], [op |-> "step"], [op |-> "step"], [op |-> "adv", d |-> 1], [b |-> 0, c |-> 2, ttl |-> 2, op |-> "put"], [op |-> "step"], [op |-> "step"], [op |-> "adv", d |-> 1], [op |-> "adv", d |-> 1], [b |-> 0, c |-> 2, ttl |-> 1, op |-> "put"], [op |-> "step"], [op |-> "step"]>>,pc |-> [b |-> 0, dl |-> 4, c |-> 2, op |-> "put", step |-> "open"],mem |-> <<[b |-> 0, dl |-> 1, has |-> TRUE, persisted |-> TRUE], [b |-> 0, dl |-> 3, has |-> TRUE, persisted |-> TRUE]>>,now |-> 3,lastSweep |-> 0]),
    ([rec |-> <<[live |-> TRUE, b |-> 0, dl |-> 1], [live |-> TRUE, b |-> 0, dl |-> 4]>>,obs |-> <<"busy">>,disk |-> <<<<"data", 0>>, <<"partial">>>>,hist |-> <<[op |-> "sweep"], [b |-> 0, c |-> 1, ttl |-> 1, op |-> "put"], [op |-> "step"], [op |-> "step"], [op |-> "adv", d |-> 1], [b |-> 0, c |-> 2, ttl |-> 2, op |-> "put"], [op |-> "step"], [op |-> "step"], [op |-> "adv", d |-> 1], [op |-> "adv", d |-> 1], [b |-> 0, c |-> 2, ttl |-> 1, op |-> "put"], [op |-> "step"], [op |-> "step"], [op |-> "step"]>>,pc |-> [b |-> 0, dl |-> 4, c |-> 2, op |-> "put", step |-> "write"],mem |-> <<[b |-> 0, dl |-> 1, has |-> TRUE, persisted |-> TRUE], [b |-> 0, dl |-> 3, has |-> TRUE, persisted |-> TRUE]>>,now |-> 3,lastSweep |-> 0]),
    ([rec |-> <<[live |-> TRUE, b |-> 0, dl |-> 1], [live |-> TRUE, b |-> 0, dl |-> 4]>>,obs |-> <<"put", 2>>,disk |-> <<<<"data", 0>>, <<"data", 0>>>>,hist |-> <<[op |-> "sweep"], [b |-> 0, c |-> 1, ttl |-> 1, op |-> "put"], [op |-> "step"], [op |-> "step"], [op |-> "adv", d |-> 1], [b |-> 0, c |-> 2, ttl |-> 2, op |-> "put"], [op |-> "step"], [op |-> "step"], [op |-> "adv", d |-> 1], [op |-> "adv", d |-> 1], [b |-> 0, c |-> 2, ttl |-> 1, op |-> "put"], [op |-> "step"], [op |-> "step"], [op |-> "step"], [op |-> "step"]>>,pc |-> <<>>,mem |-> <<[b |-> 0, dl |-> 1, has |-> TRUE, persisted |-> TRUE], [b |-> 0, dl |-> 4, has |-> TRUE, persisted |-> TRUE]>>,now |-> 3,lastSweep |-> 0])
    >>
----


=============================================================================

---- CONFIG ChunkStore_TTrace_1790034543 ----
CONSTANTS
    Ids = { 1 , 2 }
    Payloads = { 0 , 1 }
    Ttls = { 1 , 2 }
    MaxNow = 3
    Persistent = TRUE
    StartupScrub = TRUE
    EraseOnLookup = FALSE
    ListRaw = FALSE

INVARIANT
    _inv

CHECK_DEADLOCK
    \* CHECK_DEADLOCK off because of PROPERTY or INVARIANT above.
    FALSE

INIT
    _init

NEXT
    _next

CONSTANT
    _TETrace <- _trace

ALIAS
    _expression
=============================================================================
\* Generated on Mon Sep 21 23:49:05 UTC 2026