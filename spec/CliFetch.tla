------------------------------ MODULE CliFetch ------------------------------
(* Code-shaped design model of `eph fetch` (src/main.cpp) for C30 / C31, plus the node-side file-name  *)
(* sanitisers (Node::store_chunk, security::sanitize_filename_hint).                                   *)
(*                                                                                                     *)
(* One behaviour = one invocation:                                                                     *)
(*   ResolveOutput   the target is a directory: the manifest's "filename" metadata goes through the    *)
(*                   CLI's sanitize_filename lambda (path::filename, drop control characters, map      *)
(*                   separators / reserved characters to '_', reject "" "." "..", cut at               *)
(*                   kMaxSuggestedNameLength); a rejected name falls back to the chunk id; output =    *)
(*                   directory / name.                                                                 *)
(*   Attempt(p)      attempt_direct_fetch: transport hints by priority (tcp, relay), then control       *)
(*                   hints, then control:// fallbacks -- each stops the command when it delivers --,    *)
(*                   restricted by --transport-only / --control-fallback / --direct-only; finally the  *)
(*                   local daemon.  A path on which the endpoint delivers bytes verifies them against  *)
(*                   the manifest hash iff it is in VerifyOn; finalize_fetch then writes the file.     *)
(* Two families of configurations share the module: Mode = "paths" enumerates path x response x flags  *)
(* with one benign name; Mode = "names" enumerates every string up to MaxNameLen over the abstract     *)
(* alphabet with one honest local daemon.                                                              *)
EXTENDS Integers, Sequences, FiniteSets, TLC, CliFetchContract

CONSTANTS Mode,             \* "paths" | "names"
          Resps,            \* what a path may be configured with: subset of ByteResps \cup {"error","down","nopayload","shortstream","absent"}
          FlagSet,          \* subset of {"-", "direct", "transport", "ctl"}
          VerifyOn,         \* paths that hash the delivered bytes before writing (design: all of Paths)
          MaxNameLen,       \* names mode: strings of length 0..MaxNameLen
          Trunc,            \* kMaxSuggestedNameLength (255 in the code; small values exercise the cut)
          TakeFilename,     \* CLI sanitiser starts from path::filename()            (design: TRUE)
          MapSeparators,    \* '/' and '\' are among the characters mapped to '_'     (design: TRUE)
          DotsAfterStrip,   \* "." / ".." are rejected after control characters went  (design: TRUE)
          NodeStrips        \* Node::store_chunk drops control characters             (design: TRUE)

\* abstract alphabet: '/', '\', '.', ':', a control character, DEL, space, 'a', a non-ASCII byte
Alphabet == {47, 92, 46, 58, 1, 127, 32, 97, 195}
Names(n) == UNION {[1..k -> Alphabet] : k \in 0..n}
ChunkIdName == <<99, 105, 100>>                 \* "cid": stands for the 64 hex digits of the chunk id
Benign == <<97, 46, 97>>                        \* "a.a"
Underscore == 95

\* ---- the sanitisers, as the code computes them ---------------------------------------------------
AfterLastSlash(s) == SubSeq(s, LastSlash(s) + 1, Len(s))                      \* std::filesystem::path::filename() on POSIX
DropControl(s)    == SelectSeq(s, LAMBDA c : c \notin Control)                \* remove_if(iscntrl)
MapReserved(s)    == [i \in DOMAIN s |-> IF s[i] \in (IF MapSeparators THEN Separator ELSE {}) \cup Reserved THEN Underscore ELSE s[i]]
Cut(s)            == IF Len(s) > Trunc THEN SubSeq(s, 1, Trunc) ELSE s
IsDots(s)         == s = Dot \/ s = DotDot

\* main.cpp, sanitize_filename lambda of the fetch command; <<>> = "no usable name"
CliSanitize(raw) ==
    LET base  == IF TakeFilename THEN AfterLastSlash(raw) ELSE raw
        early == ~DotsAfterStrip /\ (base = <<>> \/ IsDots(base))             \* deviation: checked before stripping
        clean == MapReserved(DropControl(base))
    IN  IF early THEN <<>>
        ELSE IF DotsAfterStrip /\ (clean = <<>> \/ IsDots(clean)) THEN <<>>
        ELSE Cut(clean)

\* Node::store_chunk: [has, name]
NodeRecord(raw) ==
    LET base  == AfterLastSlash(raw)
        strip == IF NodeStrips THEN DropControl(base) ELSE base
        clean == MapReserved(strip)
        v     == IF IsDots(clean) THEN <<>> ELSE clean
    IN  IF v = <<>> THEN [has |-> FALSE, name |-> <<>>] ELSE [has |-> TRUE, name |-> Cut(v)]

\* security::sanitize_filename_hint: [has, name]
HintOf(raw) ==
    LET base == AfterLastSlash(raw)
    IN  IF raw = <<>> \/ base = <<>> \/ IsDots(base) THEN [has |-> FALSE, name |-> <<>>] ELSE [has |-> TRUE, name |-> Cut(base)]

\* daemon STORE: PATH header -> sanitize_filename_hint -> Node::store_chunk
PipeRecord(raw) == IF HintOf(raw).has THEN NodeRecord(HintOf(raw).name) ELSE [has |-> FALSE, name |-> <<>>]

\* ---- state ------------------------------------------------------------------------------------------
VARIABLES cfg,      \* path -> response ("absent": no such hint / no local daemon)
          flags, name,
          pc,       \* "resolve" | a path | "done"
          tried,    \* paths contacted, in order
          file,     \* digest of the output file: "none" | "want" | a hostile response's name
          rc,       \* exit code (-1 while running)
          outrel,   \* output path relative to the target directory
          hist
vars == <<cfg, flags, name, pc, tried, file, rc, outrel, hist>>
View == <<cfg, flags, name, pc, tried, file, rc, outrel>>

DigOf(r) == IF r = "correct" THEN "want" ELSE IF r \in ByteResps THEN r ELSE ""

Init ==
    /\ IF Mode = "names"
       THEN /\ name \in Names(MaxNameLen)
            /\ cfg = [p \in Paths |-> IF p = "local" THEN "correct" ELSE "absent"]
            /\ flags = "-"
       ELSE /\ name = Benign
            /\ cfg \in [Paths -> Resps]
            /\ \A p \in {"transport", "relay"} : cfg[p] \notin {"nopayload", "shortstream"}
            /\ flags \in FlagSet
    /\ pc = "resolve" /\ tried = <<>> /\ file = "none" /\ rc = -1 /\ outrel = <<>> /\ hist = <<>>

ResolveOutput ==
    /\ pc = "resolve"
    /\ outrel' = (IF CliSanitize(name) = <<>> THEN ChunkIdName ELSE CliSanitize(name))
    /\ pc' = "transport"
    /\ hist' = Append(hist, "resolve")
    /\ UNCHANGED <<cfg, flags, name, tried, file, rc>>

\* had_hints of attempt_direct_fetch
HasTransport == cfg["transport"] # "absent" \/ cfg["relay"] # "absent"
HasControl   == cfg["control"] # "absent" \/ cfg["fallback"] # "absent"
HadHints == CASE flags = "transport" -> HasTransport
              [] flags = "ctl"       -> HasControl
              [] OTHER               -> HasTransport \/ HasControl
DirectOnly == flags \in {"direct", "transport"}

Used(p) == /\ cfg[p] # "absent"
           /\ IF p = "local" THEN ~DirectOnly
              ELSE HadHints /\ Eligible(flags, p)

NextPc(p) == CASE p = "transport" -> "relay" [] p = "relay" -> "control" [] p = "control" -> "fallback"
               [] p = "fallback" -> "local" [] OTHER -> "done"

Attempt(p) ==
    /\ pc = p
    /\ LET r == cfg[p] IN
       IF ~Used(p)
       THEN /\ pc' = NextPc(p)
            /\ rc' = (IF p = "local" THEN 1 ELSE rc)            \* nothing left (or direct-only): the command fails
            /\ UNCHANGED <<tried, file>>
            /\ hist' = hist
       ELSE /\ tried' = Append(tried, p)
            /\ hist' = Append(hist, p)
            /\ IF r \in ByteResps /\ (r = "correct" \/ p \notin VerifyOn)
               THEN pc' = "done" /\ file' = DigOf(r) /\ rc' = 0                 \* finalize_fetch writes the payload
               ELSE IF r = "nopayload"
               THEN pc' = "done" /\ rc' = 0 /\ UNCHANGED file                   \* "written on the daemon host"
               ELSE /\ pc' = NextPc(p)                                          \* this path failed
                    /\ rc' = (IF p = "local" THEN 1 ELSE rc)
                    /\ UNCHANGED file
    /\ UNCHANGED <<cfg, flags, name, outrel>>

Next == ResolveOutput \/ \E p \in Paths : Attempt(p)
Spec == Init /\ [][Next]_vars

\* ---- observation handed to the contract -------------------------------------------------------------
Contacted(p) == \E i \in DOMAIN tried : tried[i] = p
PresentIdx == SelectSeq(<<1, 2, 3, 4, 5>>, LAMBDA i : cfg[PathOrder[i]] # "absent")
Chain == [k \in DOMAIN PresentIdx |->
            [path |-> PathOrder[PresentIdx[k]], resp |-> cfg[PathOrder[PresentIdx[k]]],
             dig |-> DigOf(cfg[PathOrder[PresentIdx[k]]]), hits |-> IF Contacted(PathOrder[PresentIdx[k]]) THEN 1 ELSE 0,
             order |-> IF Contacted(PathOrder[PresentIdx[k]]) THEN CHOOSE i \in DOMAIN tried : tried[i] = PathOrder[PresentIdx[k]] ELSE 0]]
Digs == IF file = "none" THEN {} ELSE {file}

\* ---- invariants ---------------------------------------------------------------------------------------
C30_OnlyMatchingBytes == file # "none" => file = "want"                         \* fileWritten => SHA256(bytes) = manifest.hash
C30_Contract == pc = "done" => C30Clauses(Chain, flags, "want", Digs, rc) = {}
C31_FetchName == pc # "resolve" => C31FileClauses(outrel) = {}
C31_FetchInsideDir == pc # "resolve" => "C31.outside-directory" \notin C31FileClauses(outrel)
C31_NodeName  == NodeRecord(name).has => NameOK(NodeRecord(name).name)
C31_PipeName  == PipeRecord(name).has => NameOK(PipeRecord(name).name)
TypeOK == /\ pc \in Paths \cup {"resolve", "done"} /\ rc \in {-1, 0, 1}
          /\ (pc = "done" => rc \in {0, 1})

\* ---- scenarios that must be reachable (each is the negation, expected to be violated) --------------------
Reach_LaterPathAfterHostile == ~(pc = "done" /\ file = "want" /\ \E i \in DOMAIN tried : cfg[tried[i]] \in ByteResps \ {"correct"})
Reach_AllFiveFail   == ~(pc = "done" /\ rc = 1 /\ Len(tried) = 5)
Reach_NameRejected  == ~(pc = "done" /\ name # <<>> /\ outrel = ChunkIdName /\ file = "want")
Reach_NameRewritten == ~(pc = "done" /\ outrel # name /\ outrel # ChunkIdName /\ Len(outrel) = Len(name))
=============================================================================
