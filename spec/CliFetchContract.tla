------------------------- MODULE CliFetchContract -------------------------
(* What C30 and C31 fix about `eph fetch` and about the file names the node records -- nothing else. *)
(*                                                                                                  *)
(* C30  `eph fetch` writes an output file only if its bytes hash to the manifest's content hash,    *)
(*      whichever path delivered them (transport hint, relay, control hint, control:// fallback,    *)
(*      local daemon); an endpoint that returns other bytes makes that path fail instead of         *)
(*      producing a file.                                                                           *)
(* C31  when the target is a directory, the created file is a direct child of it and its name has   *)
(*      no path separator, control or reserved character and is never "." / ".."; the node records  *)
(*      only such names in the manifests it issues.                                                 *)
(*                                                                                                  *)
(* An observation of one fetch: the hops configured for the case (a sequence, in the order the hints *)
(* were ranked; each hop = [path, resp, dig, hits, order] with dig = SHA-256 of the bytes that        *)
(* endpoint returns, "" if it returns none; hits = connections the endpoint saw during the command;   *)
(* order = position of its last connection among all connections of the command), the digest          *)
(* `want` of the manifest, the digests of the files that appeared, the exit code.  Digest equality    *)
(* stands for byte equality (crypto::Sha256 is bound to the TLA+ reference by C08).                   *)
(* The contract does not fix the order in which paths are tried, nor that a later path is tried      *)
(* after an earlier one failed.                                                                     *)
EXTENDS Integers, Sequences, FiniteSets

PathOrder == <<"transport", "relay", "control", "fallback", "local">>
Paths     == {PathOrder[i] : i \in 1..5}
ByteResps == {"correct", "truncated", "substituted", "extended", "empty"}   \* the endpoint delivers bytes
Silent    == {"error", "down", "shortstream"}                               \* the endpoint delivers nothing usable
\* "nopayload": the endpoint claims success without sending bytes (daemon-side write): nothing to hash, nothing demanded

Delivers(h)    == h.resp \in ByteResps
Good(h, want)  == Delivers(h) /\ h.dig = want          \* hostile/honest is decided by the bytes, not by the label
Bad(h, want)   == Delivers(h) /\ h.dig # want
Hops(chain)    == {chain[i] : i \in DOMAIN chain}

\* the discovery-mode flags restrict which paths the command may use at all
Eligible(flags, p) == CASE flags = "transport" -> p \in {"transport", "relay"}
                        [] flags = "ctl"       -> p \notin {"transport", "relay"}
                        [] flags = "direct"    -> p # "local"
                        [] OTHER               -> TRUE

FirstIdx(chain, P(_)) == CHOOSE i \in DOMAIN chain : P(chain[i]) /\ \A j \in DOMAIN chain : P(chain[j]) => i <= j

\* which hostile hop a mismatching file is blamed on: among the hops returning exactly these bytes the one contacted
\* last (the command stops after writing); the first such hop if none of them saw a connection
Blame(chain, want, d) ==
    LET Is(h)   == Bad(h, want) /\ h.dig = d
        Hit(h)  == Is(h) /\ h.hits > 0
    IN  IF \E h \in Hops(chain) : Hit(h)
        THEN (CHOOSE h \in Hops(chain) : Hit(h) /\ \A g \in Hops(chain) : Hit(g) => g.order <= h.order).path
        ELSE IF \E h \in Hops(chain) : Is(h) THEN chain[FirstIdx(chain, Is)].path ELSE "other"

\* ---- C30 ------------------------------------------------------------------------------------------
\* digs: set of digests of the files that appeared during the command
C30WroteMismatch(chain, want, digs) ==
    {"C30.wrote-mismatching-bytes/" \o Blame(chain, want, d) : d \in {x \in digs : x # want}}

\* the command reports success although nothing matching was delivered: some hostile path did not fail.  Blamed: the
\* hop whose bytes were written; if nothing was written, the hop contacted last (the command stopped there) when it is hostile
C30DidNotFail(chain, want, digs, rc) ==
    LET wrong     == {x \in digs : x # want}
        blamed    == {Blame(chain, want, d) : d \in wrong} \ {"other"}
        contacted == {h \in Hops(chain) : h.hits > 0}
        last      == CHOOSE h \in contacted : \A g \in contacted : g.order <= h.order
    IN  IF rc = 0 /\ want \notin digs
        THEN {"C30.path-did-not-fail/" \o p :
                 p \in (IF blamed # {} THEN blamed
                        ELSE IF wrong = {} /\ contacted # {} /\ Bad(last, want) THEN {last.path} ELSE {})}
        ELSE {}

\* honest world (every endpoint either delivers the stored payload or nothing): the fetch must produce the file
C30NotWritten(chain, flags, want, digs, rc) ==
    LET honest == \A h \in Hops(chain) : Good(h, want) \/ h.resp \in {"error", "down"}
        Elig(h) == Good(h, want) /\ Eligible(flags, h.path)
    IN  IF honest /\ (\E h \in Hops(chain) : Elig(h)) /\ ~(rc = 0 /\ want \in digs)
        THEN {"C30.correct-bytes-not-written/" \o chain[FirstIdx(chain, Elig)].path}
        ELSE {}

C30Clauses(chain, flags, want, digs, rc) ==
    C30WroteMismatch(chain, want, digs) \cup C30DidNotFail(chain, want, digs, rc) \cup C30NotWritten(chain, flags, want, digs, rc)

\* ---- C31 ------------------------------------------------------------------------------------------
\* names are sequences of byte values
Slash     == 47
Separator == {47, 92}                                   \* '/'  '\'
Control   == (0..31) \cup {127}
Reserved  == {58, 42, 63, 34, 60, 62, 124}              \* : * ? " < > |
Dot       == <<46>>
DotDot    == <<46, 46>>
Bytes(s)  == {s[i] : i \in DOMAIN s}

NameKinds(n) ==
    (IF Bytes(n) \cap Separator # {} THEN {"separator"} ELSE {}) \cup
    (IF Bytes(n) \cap Control # {} THEN {"control"} ELSE {}) \cup
    (IF Bytes(n) \cap Reserved # {} THEN {"reserved"} ELSE {}) \cup
    (IF n = Dot \/ n = DotDot THEN {"dot"} ELSE {})
NameOK(n) == NameKinds(n) = {}

LastSlash(rel) == IF Slash \in Bytes(rel) THEN CHOOSE i \in DOMAIN rel : rel[i] = Slash /\ \A j \in DOMAIN rel : rel[j] = Slash => j <= i ELSE 0
LastComponent(rel) == SubSeq(rel, LastSlash(rel) + 1, Len(rel))

\* rel: path of a created file relative to the target directory (lexically, "../x" when it is outside)
C31FileClauses(rel) ==
    (IF Slash \in Bytes(rel) THEN {"C31.outside-directory"} ELSE {}) \cup
    {"C31.bad-name/" \o k : k \in NameKinds(LastComponent(rel)) \ (IF Slash \in Bytes(rel) THEN {"dot"} ELSE {})}

\* a name found in the "filename" metadata of a manifest the node issued
C31RecordedClauses(n, clause) == IF NameOK(n) THEN {} ELSE {clause}
=============================================================================
