--------------------------- MODULE CliFetchTrace ---------------------------
(* Trace specification for C30 / C31 (harness/clifetch.cpp).                                            *)
(*   fetch     one run of the real `eph fetch`: mode (dir | trail | defdir | cwd: the target is a        *)
(*             directory; file: an explicit file path), flags, want (hex SHA-256 the manifest carries), *)
(*             chain (hops [path, resp, dig, hits] in hint-priority order; dig = SHA-256 of the bytes    *)
(*             that endpoint returns), rc (exit code, -1 = killed after the time-out), files (every      *)
(*             file that appeared anywhere under the scratch tree: rel = path relative to the target      *)
(*             directory as bytes, dig = its SHA-256 computed by the repo's crypto::Sha256).              *)
(*   nodename  raw (bytes handed over as original file name), direct_has/direct (the "filename" metadata *)
(*             of the manifest Node::store_chunk issued for it), piped_has/piped (the same behind         *)
(*             security::sanitize_filename_hint, as the daemon's STORE does).                             *)
(* Every clause is evaluated from the logged observation alone with the operators of CliFetchContract.  *)
EXTENDS TraceKit, CliFetchContract

VARIABLES l, viol, poisoned, stats,
          out       \* clauses failed by the event just consumed
vars == <<l, viol, poisoned, stats, out>>

Stats0 == [fetch |-> 0, nodename |-> 0, wrote_matching |-> 0, refused |-> 0, hostile_hops |-> 0, dir_files |-> 0,
           recorded |-> 0, clauses |-> 0]
Init == l = 1 /\ viol = <<>> /\ poisoned = FALSE /\ stats = Stats0 /\ out = {}

Files(e) == {Arr(e.files)[i] : i \in DOMAIN Arr(e.files)}
Digs(e)  == {f.dig : f \in Files(e)}

FetchClauses(e) ==
    C30Clauses(Arr(e.chain), e.flags, e.want, Digs(e), e.rc)
    \cup (IF e.mode # "file" THEN UNION {C31FileClauses(Arr(f.rel)) : f \in Files(e)} ELSE {})

NameClauses(e) ==
    (IF e.direct_has THEN C31RecordedClauses(Arr(e.direct), "C31.node-records-unsanitised-name") ELSE {})
    \cup (IF e.piped_has THEN C31RecordedClauses(Arr(e.piped), "C31.storeproof-unsanitised-name") ELSE {})

Step(e) ==
  CASE e.op = "fetch" ->
           /\ out' = FetchClauses(e)
           /\ viol' = IF out' = {} THEN viol
                      ELSE Append(viol, Fail(l, out', [id |-> e.id, rc |-> e.rc, mode |-> e.mode, flags |-> e.flags, files |-> e.files, chain |-> e.chain]))
           /\ stats' = [stats EXCEPT !.fetch = @ + 1,
                                     !.wrote_matching = @ + (IF e.want \in Digs(e) THEN 1 ELSE 0),
                                     !.refused = @ + (IF e.rc # 0 THEN 1 ELSE 0),
                                     !.hostile_hops = @ + Cardinality({i \in DOMAIN Arr(e.chain) : Bad(Arr(e.chain)[i], e.want)}),
                                     !.dir_files = @ + (IF e.mode # "file" THEN Cardinality(Files(e)) ELSE 0),
                                     !.clauses = @ + Cardinality(out')]
           /\ UNCHANGED poisoned
    [] e.op = "nodename" ->
           /\ out' = NameClauses(e)
           /\ viol' = IF out' = {} THEN viol
                      ELSE Append(viol, Fail(l, out', [id |-> e.id, raw |-> e.raw, direct |-> e.direct, piped |-> e.piped]))
           /\ stats' = [stats EXCEPT !.nodename = @ + 1,
                                     !.recorded = @ + (IF e.direct_has THEN 1 ELSE 0) + (IF e.piped_has THEN 1 ELSE 0),
                                     !.clauses = @ + Cardinality(out')]
           /\ UNCHANGED poisoned
    [] OTHER -> UNCHANGED <<viol, poisoned, stats, out>>

Next == l <= Len(T) /\ l' = l + 1 /\ Step(T[l])
Spec == Init /\ [][Next]_vars
Done == Report(l, viol, stats)
=============================================================================
