----------------------------- MODULE Concurrency -----------------------------
(* [C36] Locking design of the daemon: thread kinds, the sites each can execute, the mutexes *)
(* held at each site.  Threads (src/main.cpp serve loop + SessionManager):                    *)
(*   ctl   control handler   - takes node_mutex around every Node call                         *)
(*   tick  serve loop        - node_mutex around Node::tick()                                  *)
(*   acc   transport accept  - handle_pending_handshake -> Node::perform_handshake, no lock    *)
(*   rd1, rd2  session readers - handle_transport_message -> handlers, no outer lock           *)
(* A thread picks a site of its menu, acquires the site's locks (outer lock of the thread     *)
(* kind + inner locks of the function; mutexes exclude other threads), performs the access,   *)
(* releases.  RaceFree: never two threads at accesses of the same group with a write.         *)
(* Extra(g) = a mutex added around every access of group g (the repair); the code is          *)
(* Extra = {} which TLC shows racy for exactly the groups the trace check observes.           *)
EXTENDS Integers, Sequences, FiniteSets, TLC, ConcurrencyTable
CONSTANTS Repaired   \* set of groups whose accesses are additionally guarded by a per-group mutex
Threads == {"ctl", "tick", "acc", "rd1", "rd2"}
Outer(t) == IF t \in {"ctl", "tick"} THEN {"node_mutex"} ELSE {}
\* site |-> <<group, isWrite>>
SiteInfo ==
  [s \in {"KeyManager::register_session_with_material", "KeyManager::rotate_if_needed"} |-> <<"key_contexts", TRUE>>]
  @@ [s \in {"KeyManager::current_key", "KeyManager::known_peers"} |-> <<"key_contexts", FALSE>>]
  @@ [s \in {"SessionManager::register_peer_key"} |-> <<"session_key", TRUE>>]
  @@ [s \in {"SessionManager::send", "SessionManager::receive_loop"} |-> <<"session_key", FALSE>>]
  @@ [s \in {"Node::refresh_advertised_endpoints"} |-> <<"advertised_endpoints", TRUE>>]
  @@ [s \in {"Node::preferred_control_endpoints"} |-> <<"advertised_endpoints", FALSE>>]
  @@ [s \in {"Node::perform_handshake"} |-> <<"handshake_state", TRUE>>]
  @@ [s \in {"Node::cache_insert(announce)", "Node::cache_insert(store)", "Node::tick(prune)"} |-> <<"manifest_cache", TRUE>>]
  @@ [s \in {"Node::manifest_for_chunk"} |-> <<"manifest_cache", FALSE>>]
  @@ [s \in {"Node::handle_announce", "Node::tick(sweep)", "Node::announce_chunk"} |-> <<"dht", TRUE>>]
  @@ [s \in {"Node::schedule_assigned_fetch", "Node::process_pending_fetches"} |-> <<"fetch_table", TRUE>>]
Menu(t) ==
  CASE t = "ctl"  -> {"KeyManager::current_key", "SessionManager::send", "SessionManager::register_peer_key", "Node::refresh_advertised_endpoints",
                      "Node::preferred_control_endpoints", "Node::cache_insert(store)", "Node::manifest_for_chunk", "Node::announce_chunk"}
    [] t = "tick" -> {"KeyManager::rotate_if_needed", "KeyManager::known_peers", "KeyManager::current_key", "SessionManager::register_peer_key",
                      "Node::tick(prune)", "Node::tick(sweep)", "Node::process_pending_fetches"}
    [] t = "acc"  -> {"Node::perform_handshake", "KeyManager::register_session_with_material", "KeyManager::current_key", "SessionManager::register_peer_key"}
    [] OTHER      -> {"KeyManager::current_key", "SessionManager::receive_loop", "SessionManager::send", "SessionManager::register_peer_key",
                      "Node::preferred_control_endpoints", "Node::cache_insert(announce)", "Node::manifest_for_chunk", "Node::handle_announce",
                      "Node::schedule_assigned_fetch", "Node::process_pending_fetches"}
SM == "sessions_mutex"
LocksAt(t, s) == Outer(t) \cup InnerLocks[s] \cup (IF s = "SessionManager::register_peer_key" THEN {SM} ELSE {})
                 \cup (IF SiteInfo[s][1] \in Repaired THEN {"guard:" \o SiteInfo[s][1]} ELSE {})
VARIABLES at     \* at[t] = site the thread is executing, or "idle"
Init == at = [t \in Threads |-> "idle"]
HeldBy(t) == IF at[t] = "idle" THEN {} ELSE LocksAt(t, at[t])
Enter(t, s) == /\ at[t] = "idle" /\ s \in Menu(t)
               /\ \A u \in Threads \ {t} : HeldBy(u) \cap LocksAt(t, s) = {}
               /\ at' = [at EXCEPT ![t] = s]
Leave(t) == at[t] # "idle" /\ at' = [at EXCEPT ![t] = "idle"]
Next == \E t \in Threads : Leave(t) \/ \E s \in Menu(t) : Enter(t, s)
Spec == Init /\ [][Next]_at
Racy(t, u) == /\ t # u /\ at[t] # "idle" /\ at[u] # "idle"
              /\ SiteInfo[at[t]][1] = SiteInfo[at[u]][1] /\ (SiteInfo[at[t]][2] \/ SiteInfo[at[u]][2])
C36_RaceFree == \A t, u \in Threads : ~Racy(t, u)
\* per-group variants (used to show WHICH groups are racy as coded)
RaceFreeIn(g) == \A t, u \in Threads : ~(Racy(t, u) /\ SiteInfo[at[t]][1] = g)
RF_key_contexts == RaceFreeIn("key_contexts")
RF_session_key == RaceFreeIn("session_key")
RF_advertised_endpoints == RaceFreeIn("advertised_endpoints")
RF_handshake_state == RaceFreeIn("handshake_state")
RF_manifest_cache == RaceFreeIn("manifest_cache")
RF_dht == RaceFreeIn("dht")
RF_fetch_table == RaceFreeIn("fetch_table")
=============================================================================
