-------------------------- MODULE ConcurrencyTable --------------------------
(* Locking table of the daemon's shared node state as coded (DESIGN.md Appendix C):          *)
(* InnerLocks[site] = mutexes the function itself always holds at the probed access.         *)
(* "scheduler_mutex" = Node::scheduler_mutex_ (recursive); sessions_mutex_ is anonymous in   *)
(* traces (the harness cannot name it), so it does not appear here.                          *)
EXTENDS TLC
S == {"scheduler_mutex"}
InnerLocks ==
  [s \in {"Node::manifest_for_chunk", "Node::cache_insert(announce)", "Node::cache_insert(manifest)", "Node::cache_insert(store)",
          "Node::tick(prune)", "Node::update_swarm_plan", "Node::swarm_plan", "Node::schedule_assigned_fetch",
          "Node::process_pending_fetches", "Node::note_upload_start", "Node::note_upload_end", "Node::note_peer_message_version",
          "Node::outbound_message_version_for", "Node::register_incoming_announce", "Node::announce_chunk", "Node::handle_announce",
          "Node::register_peer_contact", "Node::fetch_chunk", "Node::tick(sweep)", "Node::tick(notify)"} |-> S]
  @@ [s \in {"KeyManager::register_session_with_material", "KeyManager::current_key", "KeyManager::rotate_if_needed", "KeyManager::known_peers",
             "Node::perform_handshake", "Node::last_handshake_success", "Node::refresh_advertised_endpoints", "Node::preferred_control_endpoints",
             "Node::drain_cleanup_notifications", "SessionManager::send", "SessionManager::receive_loop", "SessionManager::register_peer_key"} |-> {}]
=============================================================================
