SPECIFICATION Spec
INVARIANT Done
CHECK_DEADLOCK FALSE
