-------------------------- MODULE ConcurrencyTrace --------------------------
(* [C36] Trace specification for harness/conc.cpp.  Each event is one distinct observed     *)
(* access (group of shared state, call site, read/write, thread, set of mutexes held).      *)
(* Eraser-style lockset check stated as the contract: two accesses to the same group by      *)
(* different threads, at least one a write, with no mutex in common, are a race.             *)
(* The clause id names group and the two sites (ordered by the site index the harness logs). *)
(* Additionally every observed site is compared with the locking table of the design model   *)
(* (Concurrency.tla): a site seen with fewer locks than the table says is reported.          *)
EXTENDS TraceKit, ConcurrencyTable
VARIABLES l, viol, seen, nchecked
vars == <<l, viol, seen, nchecked>>
Init == l = 1 /\ viol = <<>> /\ seen = {} /\ nchecked = 0
Locks(e) == ArrSet(Arr(e.locks))
Pair(a, b) == IF a.sid <= b.sid THEN a.site \o "~" \o b.site ELSE b.site \o "~" \o a.site
Conflicts(e) == {x \in seen : x.group = e.group /\ x.obj = e.obj /\ x.tid # e.tid /\ (x.w \/ e.w) /\ Locks(x) \cap Locks(e) = {}}
TableClauses(e) == IF e.site \in DOMAIN InnerLocks /\ ~(InnerLocks[e.site] \subseteq Locks(e))
                   THEN {"C36.site-lost-lock/" \o e.site} ELSE {}
Step(e) ==
   IF e.op # "access" THEN UNCHANGED <<viol, seen>> /\ nchecked' = nchecked
   ELSE LET bad == {"C36.race/" \o e.group \o "/" \o Pair(x, e) : x \in Conflicts(e)} \cup TableClauses(e) IN
        /\ seen' = seen \cup {e} /\ nchecked' = nchecked + 1
        /\ viol' = IF bad = {} THEN viol ELSE Append(viol, Fail(l, bad, [group |-> e.group, site |-> e.site]))
Next == l <= Len(T) /\ l' = l + 1 /\ Step(T[l])
Spec == Init /\ [][Next]_vars
Done == Report(l, viol, [checked |-> nchecked, sites |-> Cardinality({x.site : x \in seen})])
=============================================================================
