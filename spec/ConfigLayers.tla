---------------------------- MODULE ConfigLayers ----------------------------
(* C32 -- configuration layering.  Design model shaped like the loader in src/main.cpp:    *)
(*   main(): flags are parsed into GlobalOptions first                                      *)
(*   load_configuration(): --profile / environments.<env>.profile / "default" selects the  *)
(*       profile; resolve_profile() merges  parent-first  along `extends` (visiting set =   *)
(*       cycle detection, unknown name = error); the environment's overrides are merged on  *)
(*       top (merge_objects = deep merge of mappings); apply_profile_to_options() fills     *)
(*       only the options a flag has not set                                                *)
(*   build_config(): options that are set replace the built-in defaults of Config           *)
(* TLC enumerates the cases (profile graph shape x selection mode x which layer sets which  *)
(* of two focus settings) and checks  Design => Contract  (ConfigLayersContract).  The case  *)
(* list is exported with -dump (variable `kase`) and replayed on the real loader.           *)
EXTENDS Integers, Sequences, FiniteSets, TLC, Json, ConfigLayersContract

CONSTANTS ShapeNames,        \* subset of DOMAIN ShapeTab to enumerate
          ModeNames,         \* subset of DOMAIN ModeTab
          GroupNames,        \* subset of DOMAIN GroupTab
          PairCap,           \* full a x b product up to this many settable layers; above: a={} \/ b={} \/ a=b
          ShallowMerge,          \* deviation: merge_objects replaces whole sections
          NoCycleCheck,          \* deviation: resolve_profile without the visiting set
          MissingParentIgnored,  \* deviation: an unknown `extends` target resolves to an empty profile
          ProfileBeatsFlag,      \* deviation: apply_profile_to_options overwrites options set by flags
          EnvProfileBeatsFlag,   \* deviation: the environment's `profile` key wins over --profile
          WindowAsUnit           \* deviation: the TTL window (minttl, maxttl) is read from the file as a unit -- only when NO flag set either bound

VARIABLES kase,   \* the case (input)
          pc,     \* "start" | "done"
          out     \* [res |-> DESIGN: outcome of the loader model, bad |-> CONTRACT ghost: failing clauses of that outcome]
vars == <<kase, pc, out>>
res == out.res
bad == out.bad

-----------------------------------------------------------------------------
(* Case tables.  "R" is the selected (root) profile, whose concrete name depends on the     *)
(* selection mode; a1..a3 are its ancestors; "ghost" is never defined.                      *)
ShapeTab ==
  [ chain0     |-> [names |-> <<"R">>,                   ext |-> {},                                                    side |-> FALSE],
    chain1     |-> [names |-> <<"R", "a1">>,             ext |-> {<<"R", "a1">>},                                       side |-> FALSE],
    chain2     |-> [names |-> <<"R", "a1", "a2">>,       ext |-> {<<"R", "a1">>, <<"a1", "a2">>},                       side |-> FALSE],
    chain3     |-> [names |-> <<"R", "a1", "a2", "a3">>, ext |-> {<<"R", "a1">>, <<"a1", "a2">>, <<"a2", "a3">>},       side |-> FALSE],
    selfcyc    |-> [names |-> <<"R">>,                   ext |-> {<<"R", "R">>},                                        side |-> FALSE],
    cyc2       |-> [names |-> <<"R", "a1">>,             ext |-> {<<"R", "a1">>, <<"a1", "R">>},                        side |-> FALSE],
    tailcyc    |-> [names |-> <<"R", "a1", "a2">>,       ext |-> {<<"R", "a1">>, <<"a1", "a2">>, <<"a2", "a1">>},       side |-> FALSE],
    missparent |-> [names |-> <<"R">>,                   ext |-> {<<"R", "ghost">>},                                    side |-> FALSE],
    missgrand  |-> [names |-> <<"R", "a1">>,             ext |-> {<<"R", "a1">>, <<"a1", "ghost">>},                    side |-> FALSE],
    nosel      |-> [names |-> <<>>,                      ext |-> {},                                                    side |-> FALSE],
    sidecyc    |-> [names |-> <<"R", "a1">>,             ext |-> {<<"R", "a1">>},                                       side |-> TRUE ] ]

\* selection modes: is there a config file, --profile, --env, the `profile` key of that
\* environment, and the name the root profile therefore has
ModeTab ==
  [ nocfg     |-> [config |-> FALSE, profflag |-> "",   envflag |-> "",   envprof |-> "",      root |-> "default"],
    none      |-> [config |-> TRUE,  profflag |-> "",   envflag |-> "",   envprof |-> "",      root |-> "default"],
    flag      |-> [config |-> TRUE,  profflag |-> "p0", envflag |-> "",   envprof |-> "",      root |-> "p0"],
    flagenv   |-> [config |-> TRUE,  profflag |-> "p0", envflag |-> "e1", envprof |-> "other", root |-> "p0"],
    env       |-> [config |-> TRUE,  profflag |-> "",   envflag |-> "e1", envprof |-> "p0",    root |-> "p0"],
    envnoprof |-> [config |-> TRUE,  profflag |-> "",   envflag |-> "e1", envprof |-> "",      root |-> "default"] ]

\* focus pairs: same section (control), same section (storage), different sections
GroupTab == [ A |-> <<"port", "token">>, B |-> <<"dir", "persistent">>, C |-> <<"ttl", "pow">>, D |-> <<"minttl", "maxttl">> ]

\* canonical document paths of the settings
Sec(s) == CASE s = "ttl" -> "node" [] s = "port" -> "control" [] s = "token" -> "control"
            [] s = "pow" -> "announce" [] s = "dir" -> "storage" [] s = "persistent" -> "storage" [] s = "aap" -> "control"
            [] s = "minttl" -> "node" [] s = "maxttl" -> "node"
Key(s) == CASE s = "ttl" -> "default_ttl_seconds" [] s = "port" -> "port" [] s = "token" -> "token"
            [] s = "pow" -> "pow_difficulty" [] s = "dir" -> "directory" [] s = "persistent" -> "persistent" [] s = "aap" -> "advertise_allow_private"
            [] s = "minttl" -> "min_ttl_seconds" [] s = "maxttl" -> "max_ttl_seconds"

\* decoys that must never win: a profile off the chain, the "other" root name, another environment
OtherCode == 8
AltRootCode == 7
AltRoot(m) == IF ModeTab[m].root = "p0" THEN "default" ELSE "p0"

Name(m, n) == IF n = "R" THEN ModeTab[m].root ELSE n
ModesFor(sh) == IF sh = "chain0" THEN ModeNames ELSE ModeNames \ {"nocfg"}

\* settable layers: 1 = flags, 2 = environment overrides (modes with --env), 3.. = profiles of the shape
Lay(sh, m) == {1} \cup (IF ModeTab[m].envflag # "" THEN {2} ELSE {})
                  \cup (IF ModeTab[m].config THEN {2 + i : i \in 1..Len(ShapeTab[sh].names)} ELSE {})

PairOk(a, b, n) == n <= PairCap \/ a = {} \/ b = {} \/ a = b

-----------------------------------------------------------------------------
(* Concrete content of a case k = [shape, mode, grp, a, b, pol]: focus setting 1 is set by  *)
(* the layers in a, focus setting 2 by the layers in b; the value code of layer i is i      *)
(* (distinct per layer); the boolean takes pol at its topmost setter and ~pol below.         *)
(* Conc(k) is everything the loader sees: the command line and the parsed document.          *)
MinOf(S) == CHOOSE i \in S : \A j \in S : i <= j
Conc(k) ==
    LET m     == ModeTab[k.mode]
        sh    == ShapeTab[k.shape]
        s1    == GroupTab[k.grp][1]
        s2    == GroupTab[k.grp][2]
        top   == IF k.b = {} THEN 0 ELSE MinOf(k.b)
        code(s, i)  == IF s # "persistent" THEN i ELSE IF (i = top) = k.pol THEN 1 ELSE 2
        layer(i)    == [s \in ((IF i \in k.a THEN {s1} ELSE {}) \cup (IF i \in k.b THEN {s2} ELSE {})) |-> code(s, i)]
        decoy(cd)   == [s \in {s1, s2} |-> IF s = "persistent" THEN 1 ELSE cd]      \* decoys set the two focus settings
        chain == [i \in 1..Len(sh.names) |-> Name(k.mode, sh.names[i])]
        onchain == {chain[i] : i \in 1..Len(chain)}
        defined == IF m.config THEN onchain \cup {"other", AltRoot(k.mode)} ELSE {}
        pairs == {<<Name(k.mode, p[1]), Name(k.mode, p[2])>> : p \in sh.ext} \cup (IF sh.side THEN {<<"other", "other">>} ELSE {})
    IN [config |-> m.config, profflag |-> m.profflag, envflag |-> m.envflag, envprof |-> m.envprof,
        flags |-> layer(1),
        env   |-> IF m.envflag # "" THEN layer(2) ELSE <<>>,
        chain |-> chain, defined |-> defined, pairs |-> pairs,
        ext   |-> IF m.config THEN [c \in {p[1] : p \in pairs} |-> (CHOOSE p \in pairs : p[1] = c)[2]] ELSE <<>>,
        prof  |-> [n \in defined |-> IF n \in onchain THEN layer(2 + (CHOOSE i \in 1..Len(chain) : chain[i] = n))
                                     ELSE IF n = "other" THEN decoy(OtherCode) ELSE decoy(AltRootCode)],
        side  |-> sh.side]

-----------------------------------------------------------------------------
(* DESIGN: the loader as written.  Documents are  section -> key -> code  mappings.         *)
Obj(layer) ==
    [sec \in {Sec(s) : s \in DOMAIN layer} |->
        [key \in {Key(s) : s \in {t \in DOMAIN layer : Sec(t) = sec}} |->
            layer[CHOOSE t \in DOMAIN layer : Sec(t) = sec /\ Key(t) = key]]]

\* config::merge_objects(base, overlay): mappings merge recursively, anything else is replaced
MergeObjects(base, overlay) ==
    [sec \in DOMAIN base \cup DOMAIN overlay |->
        IF sec \notin DOMAIN overlay THEN base[sec]
        ELSE IF sec \in DOMAIN base /\ ~ShallowMerge
             THEN [key \in DOMAIN base[sec] \cup DOMAIN overlay[sec] |->
                      IF key \in DOMAIN overlay[sec] THEN overlay[sec][key] ELSE base[sec][key]]
        ELSE overlay[sec]]

Fuel == 8   \* recursion bound of the model; only reached when the cycle check is switched off

\* config::resolve_profile(profiles, name, visiting);  d = the case (its parsed `profiles` section)
RECURSIVE ResolveProfile(_, _, _, _)
ResolveProfile(d, name, visiting, fuel) ==
    IF name \notin d.defined
      THEN (IF MissingParentIgnored /\ visiting # {} THEN [err |-> "", obj |-> <<>>]
            ELSE [err |-> "E_CONFIG_PROFILE:not-found", obj |-> <<>>])
    ELSE IF ~NoCycleCheck /\ name \in visiting THEN [err |-> "E_CONFIG_PROFILE:cycle", obj |-> <<>>]
    ELSE IF fuel = 0 THEN [err |-> "HANG", obj |-> <<>>]
    ELSE LET base == IF name \in DOMAIN d.ext
                       THEN ResolveProfile(d, d.ext[name], visiting \cup {name}, fuel - 1)
                       ELSE [err |-> "", obj |-> <<>>]
         IN IF base.err # "" THEN base
            ELSE [err |-> "", obj |-> MergeObjects(base.obj, Obj(d.prof[name]))]

\* apply_profile_to_options(profile, options): only options no flag has set are filled
ApplyProfileToOptions(obj, opts) ==
    LET inObj == {s \in Settings : Sec(s) \in DOMAIN obj /\ Key(s) \in DOMAIN obj[Sec(s)]}
        window == {"minttl", "maxttl"}
        seen  == IF WindowAsUnit /\ DOMAIN opts \cap window # {} THEN inObj \ window ELSE inObj
    IN [s \in DOMAIN opts \cup seen |->
          IF s \in DOMAIN opts /\ ~(ProfileBeatsFlag /\ s \in seen) THEN opts[s] ELSE obj[Sec(s)][Key(s)]]

\* load_configuration(options)
LoadConfiguration(d, opts) ==
    IF ~d.config THEN [err |-> "", opts |-> opts]
    ELSE LET sel0 == IF d.profflag # "" THEN d.profflag ELSE "default"
             sel  == IF d.envflag # "" /\ d.envprof # "" /\ (d.profflag = "" \/ EnvProfileBeatsFlag) THEN d.envprof ELSE sel0
             overrides == IF d.envflag # "" THEN Obj(d.env) ELSE <<>>
             base == ResolveProfile(d, sel, {}, Fuel)
         IN IF base.err # "" THEN [err |-> base.err, opts |-> opts]
            ELSE [err |-> "", opts |-> ApplyProfileToOptions(MergeObjects(base.obj, overrides), opts)]

\* build_config(options)
BuildConfig(opts) == [s \in Settings |-> IF s \in DOMAIN opts THEN opts[s] ELSE DefaultCode(s)]

Design(d) ==
    LET r == LoadConfiguration(d, d.flags) IN      \* main(): flags first, then the file
    IF r.err = "HANG" THEN [outcome |-> "hang", err |-> "", eff |-> <<>>]
    ELSE IF r.err # "" THEN [outcome |-> "error", err |-> r.err, eff |-> <<>>]
    ELSE [outcome |-> "ok", err |-> "", eff |-> BuildConfig(r.opts)]

-----------------------------------------------------------------------------
(* CONTRACT view of the same case *)
CWalk(d)   == IF d.config THEN Walk(d.defined, d.ext, Selected(d.profflag, IF d.envflag # "" THEN d.envprof ELSE ""))
              ELSE [status |-> "ok", chain |-> <<>>]
Failing(d, r) == LET w == CWalk(d) IN Clauses(w.status, LayerSeq(d.flags, d.env, d.prof, w.chain), r.outcome, r.eff, d.side)

-----------------------------------------------------------------------------
NoRes == [outcome |-> "pending", err |-> "", eff |-> <<>>]

Init == /\ pc = "start" /\ out = [res |-> NoRes, bad |-> {}]
        /\ \E sh \in ShapeNames : \E m \in ModesFor(sh) : \E g \in GroupNames :
             \E a \in SUBSET Lay(sh, m) : \E b \in SUBSET Lay(sh, m) :
               \E p \in (IF g = "B" /\ b # {} THEN BOOLEAN ELSE {TRUE}) :
                 /\ PairOk(a, b, Cardinality(Lay(sh, m))) = TRUE
                 /\ kase = [shape |-> sh, mode |-> m, grp |-> g, a |-> a, b |-> b, pol |-> p]

\* one evaluation per case (design outcome + contract verdict)
Eval(k) == LET d == Conc(k)
               r == Design(d)
           IN [res |-> r, bad |-> Failing(d, r)]

Load == /\ pc = "start" /\ pc' = "done" /\ UNCHANGED kase
        /\ out' = Eval(kase)

Next == Load
MCSpec == Init /\ [][Next]_vars
\* export: the cases only
DumpSpec == Init /\ [][FALSE]_vars

Done == pc = "done"
C32_Contract        == bad = {}
C32_Winner          == bad \subseteq {"C32.hang", "C32.cycle-not-reported", "C32.missing-profile-not-reported"}
C32_CycleReported   == "C32.cycle-not-reported" \notin bad
C32_MissingReported == "C32.missing-profile-not-reported" \notin bad
C32_NoHang          == "C32.hang" \notin bad

\* vacuity guards (must be violated = the scenario is enumerated); checked together with -continue
Reach_EnvSelectedDeepChain == ~(Done /\ kase.mode = "env" /\ kase.shape = "chain3" /\ res.outcome = "ok" /\ kase.a = {6} /\ kase.b = {})
Reach_CycleError   == ~(Done /\ kase.shape = "tailcyc" /\ kase.mode = "none" /\ kase.a = {} /\ kase.b = {} /\ res.outcome = "error")
Reach_MissingError == ~(Done /\ kase.shape = "missgrand" /\ kase.mode = "flag" /\ kase.a = {} /\ kase.b = {} /\ res.outcome = "error")
Reach_FlagOverEnvProfile == ~(Done /\ kase.mode = "flagenv" /\ kase.shape = "chain0" /\ res.outcome = "ok" /\ kase.a = {2, 3} /\ kase.b = {})

\* tables for the replay generator (printed once per TLC run; checks/cfglayers.py reads them)
Concrete(sh, m) ==
    LET d == Conc([shape |-> sh, mode |-> m, grp |-> "A", a |-> {}, b |-> {}, pol |-> TRUE]) IN
    [config |-> d.config, profflag |-> d.profflag, envflag |-> d.envflag, envprof |-> d.envprof,
     chain |-> d.chain, ext |-> d.pairs,
     decoys |-> [other |-> OtherCode, altroot |-> AltRootCode, altname |-> AltRoot(m)],
     status |-> CWalk(d).status, side |-> d.side]
Tables == [shapes |-> [sh \in DOMAIN ShapeTab |-> [m \in DOMAIN ModeTab |-> Concrete(sh, m)]],
           groups |-> GroupTab,
           paths  |-> [s \in Settings |-> <<Sec(s), Key(s)>>]]
ASSUME PrintT(<<"CFGLAYERS_TABLES", ToJson(Tables)>>)
=============================================================================
