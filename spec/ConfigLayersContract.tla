------------------------ MODULE ConfigLayersContract ------------------------
(* What C32 fixes about configuration layering, as pure operators.                        *)
(*                                                                                         *)
(* A *layer* is a function from a subset of Settings to value codes (a setting outside     *)
(* the DOMAIN is "not set by this layer").  A value code is a small integer that identifies *)
(* a concrete value (the harness owns the code <-> value tables; codes of different layers  *)
(* differ, so the winner is identifiable).  Code 0 is "the built-in default"; for the      *)
(* boolean setting the codes are 1 = true, 2 = false (default false = 2).                  *)
(*                                                                                         *)
(* A *profile graph* is  defined : set of profile names,  ext : function from a subset of  *)
(* defined to parent names (the `extends` key).                                            *)
(*                                                                                         *)
(* Precedence fixed by the property statement: flags, then environment overrides, then the *)
(* selected profile, then its ancestors (nearest first), then built-in defaults.  Cyclic or *)
(* missing profiles (the selected profile, or any parent on its extends chain) must be     *)
(* reported as an error.  Nothing is demanded about profiles that are not on the selected  *)
(* chain, about key aliases, or about out-of-range values.                                 *)
EXTENDS Integers, Sequences, FiniteSets

\* "aap" = control.advertise_allow_private: a boolean the loader keeps WITHOUT a was-it-set flag (a different storage shape from
\* the other settings); observed only by the drivers that report it (eff may lack it)
\* "minttl" / "maxttl" = node.min_ttl_seconds / node.max_ttl_seconds: two settings that form a window and are validated together --
\* each still takes its value from its own highest layer (a flag for one bound does not hide the file's value for the other)
Settings == {"ttl", "port", "token", "pow", "dir", "persistent", "aap", "minttl", "maxttl"}
Booleans == {"persistent", "aap"}
DefaultCode(s) == IF s \in Booleans THEN 2 ELSE 0

\* which profile is selected: --profile beats the environment's `profile` key, which beats
\* the name "default" (profile selection follows the same flags > environment > default order)
Selected(profflag, envprof) ==
    IF profflag # "" THEN profflag ELSE IF envprof # "" THEN envprof ELSE "default"

\* walk the extends chain from `name`.  Result: [status, chain] with status
\*   "ok" (chain = selected profile, parent, grandparent, ...), "missing", "cycle"
RECURSIVE WalkFrom(_, _, _, _)
WalkFrom(defined, ext, name, seen) ==
    IF name \notin defined THEN [status |-> "missing", chain |-> seen]
    ELSE IF \E i \in 1..Len(seen) : seen[i] = name THEN [status |-> "cycle", chain |-> seen]
    ELSE IF name \notin DOMAIN ext THEN [status |-> "ok", chain |-> Append(seen, name)]
    ELSE WalkFrom(defined, ext, ext[name], Append(seen, name))

Walk(defined, ext, sel) == WalkFrom(defined, ext, sel, <<>>)

\* the layer sequence in precedence order (defaults are implicit, below everything)
LayerSeq(flags, env, prof, chain) == <<flags, env>> \o [i \in 1..Len(chain) |-> prof[chain[i]]]

\* value of the first layer that sets s, else the built-in default
Effective(layers, s) ==
    LET idx == {i \in 1..Len(layers) : s \in DOMAIN layers[i]}
    IN IF idx = {} THEN DefaultCode(s)
       ELSE layers[CHOOSE i \in idx : \A j \in idx : i <= j][s]

MustBeReported(status) == status \in {"missing", "cycle"}

\* the failing clauses of one load.  outcome \in {"ok", "error", "hang", "crash"};
\* eff = observed effective codes (only meaningful when outcome = "ok").
\* sideBroken: a profile off the selected chain is cyclic/missing -- the statement is silent
\* on whether that is an error, so an error outcome is accepted there.
Clauses(status, layers, outcome, eff, sideBroken) ==
    IF outcome = "hang" THEN {"C32.hang"}
    ELSE IF status = "cycle" THEN (IF outcome = "error" THEN {} ELSE {"C32.cycle-not-reported"})
    ELSE IF status = "missing" THEN (IF outcome = "error" THEN {} ELSE {"C32.missing-profile-not-reported"})
    ELSE IF outcome = "ok" THEN {"C32.wrong-winner/" \o s : s \in {t \in Settings \cap DOMAIN eff : eff[t] # Effective(layers, t)}}
    ELSE IF sideBroken /\ outcome = "error" THEN {}
    ELSE {"C32.valid-config-rejected"}
=============================================================================
