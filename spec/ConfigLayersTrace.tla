------------------------- MODULE ConfigLayersTrace -------------------------
(* Trace specification for C32: every event is one load of a layered configuration by the   *)
(* real CLI loader (harness/cfglayers.cpp).  The event carries the concrete case            *)
(*   config (0/1: a --config file was given), profflag, envflag, envprof (the `profile` key *)
(*   of the environment named by --env, "" if none),                                         *)
(*   defined (profile names in the file), ext ([child, parent] pairs),                      *)
(*   fv ([setting, code] set by flags), ev ([setting, code] set by the selected             *)
(*   environment), pv ([profile, setting, code] set by profiles)                            *)
(* and the observation: outcome (ok | error | hang | crash), err, eff (setting -> code of   *)
(* the effective value, -1 = a value that belongs to no layer).  The contract recomputes    *)
(* the selected profile, its extends chain, the layer sequence and the winner from the      *)
(* logged inputs alone.                                                                     *)
EXTENDS TraceKit, ConfigLayersContract

VARIABLES l, viol, poisoned, stats,
          out     \* verdict on the event just consumed: [bad, status, side]
vars == <<l, viol, poisoned, stats, out>>

Stats0 == [checked |-> 0, ok |-> 0, cycle |-> 0, missing |-> 0, accepted |-> 0, rejected |-> 0, sidebroken |-> 0]
NoOut == [bad |-> {}, status |-> "", side |-> FALSE]
Init == l = 1 /\ viol = <<>> /\ poisoned = FALSE /\ stats = Stats0 /\ out = NoOut

Rows(x) == {Arr(x)[i] : i \in DOMAIN Arr(x)}

\* [setting, code] rows -> layer function
LayerOf(rows) == [s \in {r[1] : r \in rows} |-> (CHOOSE r \in rows : r[1] = s)[2]]
ExtOf(rows)   == [c \in {r[1] : r \in rows} |-> (CHOOSE r \in rows : r[1] = c)[2]]
ProfOf(defined, rows) == [n \in defined |-> LayerOf({<<r[2], r[3]>> : r \in {q \in rows : q[1] = n}})]

\* evaluated once per event (the result is stored in out', the other variables are derived from it)
Verdict(e) ==
    LET defined == {x : x \in Rows(e.defined)}
        ext     == ExtOf(Rows(e.ext))
        sel     == Selected(e.profflag, IF e.envflag # "" THEN e.envprof ELSE "")
        walk    == IF e.config = 1 THEN Walk(defined, ext, sel) ELSE [status |-> "ok", chain |-> <<>>]
        onchain == {walk.chain[i] : i \in 1..Len(walk.chain)}
        side    == e.config = 1 /\ walk.status = "ok" /\ \E n \in defined \ onchain : Walk(defined, ext, n).status # "ok"
        layers  == LayerSeq(LayerOf(Rows(e.fv)), IF e.envflag # "" THEN LayerOf(Rows(e.ev)) ELSE <<>>,
                            ProfOf(defined, Rows(e.pv)), walk.chain)
    IN [bad |-> Clauses(walk.status, layers, e.outcome, e.eff, side), status |-> walk.status, side |-> side]

Step(e) ==
  CASE e.op = "case" ->
           /\ out' = Verdict(e)
           /\ viol' = IF out'.bad = {} THEN viol
                      ELSE Append(viol, Fail(l, out'.bad, [id |-> e.id, outcome |-> e.outcome, err |-> e.err, eff |-> e.eff, status |-> out'.status]))
           /\ stats' = [stats EXCEPT !.checked = @ + 1,
                                     !.ok = @ + (IF out'.status = "ok" THEN 1 ELSE 0),
                                     !.cycle = @ + (IF out'.status = "cycle" THEN 1 ELSE 0),
                                     !.missing = @ + (IF out'.status = "missing" THEN 1 ELSE 0),
                                     !.accepted = @ + (IF e.outcome = "ok" THEN 1 ELSE 0),
                                     !.rejected = @ + (IF e.outcome = "error" THEN 1 ELSE 0),
                                     !.sidebroken = @ + (IF out'.side THEN 1 ELSE 0)]
           /\ UNCHANGED poisoned
    [] OTHER -> UNCHANGED <<viol, poisoned, stats, out>>

Next == l <= Len(T) /\ l' = l + 1 /\ Step(T[l])
Spec == Init /\ [][Next]_vars
Done == Report(l, viol, stats)
=============================================================================
