--------------------------- MODULE ConfigSanitize ---------------------------
(* [C02] Code-shaped transcription of sanitize_config() and clamp_chunk_ttl() of            *)
(* src/core/Node.cpp, checked by TLC against the contract (NodeTtlContract!ConfigWindowOk  *)
(* and: every lifetime a store creates lies in [min, max]) over the boundary grid.  The     *)
(* same grid (read from MC_ConfigSanitize.cfg by checks/C02.py) instantiates real Nodes.    *)
EXTENDS Integers, TLC, NodeTtlContract
CONSTANTS GridS,     \* durations in seconds tried for min / max / default / rotation
          GridPow,   \* PoW difficulties tried
          ReqS       \* requested store TTLs in seconds
VARIABLES cfg
\* the grids (substituted for the constants by MC_ConfigSanitize.cfg; checks/C02.py reads them from here)
DefGridS == {-1, 0, 1, 4, 5, 6, 29, 30, 31, 3599, 3600, 3601, 86399, 86400, 86401, 100000000}
DefGridPow == {0, 6, 24, 25, 255}
DefReqS == {-7, 0, 1, 29, 30, 31, 3600, 86399, 86400, 86401, 1000000000}
Max2(a, b) == IF a > b THEN a ELSE b
Min2(a, b) == IF a < b THEN a ELSE b
SanMin(v) == IF v < MinFloorS THEN MinFloorS ELSE IF v > MaxCeilS THEN MaxCeilS ELSE v
SanMax(v, mn) == LET a == IF v < mn THEN mn ELSE v
                     b == IF a < MinFloorS THEN MinFloorS ELSE a
                 IN IF b > MaxCeilS THEN MaxCeilS ELSE b
SanRot(v) == IF v <= 0 THEN RotMinS ELSE IF v < RotMinS THEN RotMinS ELSE IF v > RotMaxS THEN RotMaxS ELSE v
Sanitize(c) ==
    LET mn == SanMin(c.min)
        mx == SanMax(c.max, mn)
        df == IF c.deflt < mn THEN mn ELSE IF c.deflt > mx THEN mx ELSE c.deflt
    IN [min |-> mn, max |-> mx, deflt |-> df, rot |-> SanRot(c.rot),
        apow |-> Min2(c.apow, PowMax), hpow |-> Min2(c.hpow, PowMax), spow |-> Min2(c.spow, PowMax)]
\* clamp_chunk_ttl(effective ttl)
ClampS(req, s) == LET eff == IF req > 0 THEN req ELSE s.deflt
                      a == IF eff < s.min THEN s.min ELSE eff
                      b == IF a > s.max THEN s.max ELSE a
                  IN IF b <= 0 THEN MinFloorS ELSE b
\* the sanitised values are small enough for milliseconds
Ms(s) == [s EXCEPT !.min = @ * 1000, !.max = @ * 1000, !.deflt = @ * 1000, !.rot = @ * 1000]
Init == cfg \in [min : GridS, max : GridS, deflt : GridS, rot : {300}, apow : GridPow, hpow : {0}, spow : {0}]
             \cup [min : {30}, max : {21600}, deflt : {21600}, rot : GridS, apow : GridPow, hpow : GridPow, spow : GridPow]
Next == UNCHANGED cfg
Spec == Init /\ [][Next]_cfg
C02_Window == ConfigWindowOk(Ms(Sanitize(cfg)))
C02_Lifetimes == LET s == Sanitize(cfg) IN \A r \in ReqS : s.min <= ClampS(r, s) /\ ClampS(r, s) <= s.max
=============================================================================
