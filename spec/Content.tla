------------------------------- MODULE Content -------------------------------
(* C11 -- stored content round-trips; tampered replicas are never accepted.                      *)
(*                                                                                              *)
(* CONTRACT PART (pure operators over four primitives that are CONSTANT operators here):        *)
(*   Hash(bytes)                       content hash                                             *)
(*   Cipher(key, nonce, ctr, bytes)    stream cipher (encryption = decryption)                  *)
(*   KeyOf(shards, t)                  the key the first t key shares reconstruct               *)
(*   CtrOf(id)                         initial block counter derived from the chunk id          *)
(* spec/ContentTrace.tla substitutes the executable references (SHA256 of Sha256.tla,            *)
(* ChaCha20Xor of ChaCha20.tla, Combine of Shamir.tla at GF(2^8)/0x11D, LE32(id[0..3])) and      *)
(* evaluates the operators on executions of the real code; the model below substitutes toy       *)
(* primitives over 2-bit symbols (MC_Content*.cfg) so that TLC can enumerate every interleaving. *)
(* A manifest is a record [id, hash, nonce, t, shards].                                          *)
(*   Sealed(id, p, m, ct)   what store(id, p) must produce: m.hash = Hash(p) and                  *)
(*                          ct = Cipher(KeyOf(first m.t shards), m.nonce, CtrOf(id), p)           *)
(*   Open(m, ct)            the decryption of replica bytes ct under manifest m                   *)
(*   Genuine(m, ct)         Hash(Open(m, ct)) = m.hash  -- the ONLY replicas that may be          *)
(*                          accepted (stored / announced / returned); pristine ones MUST be       *)
(*   FetchAllowed(...)      what a local lookup may return (see there)                            *)
(*                                                                                              *)
(* MODEL PART (design level, one node N, code-shaped actions, ghost contract state):             *)
(*   Store      Node::store_chunk          Import   Node::receive_chunk (also behind handle_chunk)*)
(*   Ingest     Node::ingest_manifest / handle_announce / request_chunk: a manifest for a chunk   *)
(*              id arrives from elsewhere and replaces cache + key-share record, unconditionally  *)
(*   ShardExpire  the key-share record times out (fetch falls back to the cached manifest)        *)
(*   Fetch      Node::fetch_chunk                                                                 *)
(* The environment offers every honest publication Pub(c, p, k, nn, t) of every payload under      *)
(* every key/nonce/threshold, and every corruption kind of Kinds applied to it (Tamper).          *)
(* Invariants C11_... are stated on the variable last, the observable outcome of the last action.  *)
(* Deviation switches (the *_dev_* configs MUST violate the named invariant):                     *)
(*   DevFetchUnverified   fetch_chunk returns whatever the decryption gives, without comparing    *)
(*                        its hash with the cached manifest (THIS TREE before the proposed fix)   *)
(*   DevImportUnverified  receive_chunk without the hash comparison                               *)
(*   DevStoreBeforeVerify receive_chunk stores the bytes first and verifies afterwards            *)
(* Modelling assumption (checked against src/core/Node.cpp): every code path that replaces the    *)
(* key-share record of a held chunk replaces the cached manifest with the same manifest, and a    *)
(* share record never outlives the manifest it came from (ttl = floor(expiry - now)).             *)
EXTENDS Integers, Sequences, FiniteSets, Bitwise, TLC

CONSTANTS Hash(_), Cipher(_, _, _, _), KeyOf(_, _), CtrOf(_)
CONSTANTS Ids, PayloadIx, KeyVals, NonceVals, Thresholds, Kinds, MKinds,
          DevFetchUnverified, DevImportUnverified, DevStoreBeforeVerify

\* ---- contract operators -----------------------------------------------------------------------
KeyUsed(m) == KeyOf(m.shards, m.t)
Open(m, ct) == Cipher(KeyUsed(m), m.nonce, CtrOf(m.id), ct)
Sealed(id, p, m, ct) == /\ m.id = id
                        /\ m.hash = Hash(p)
                        /\ ct = Cipher(KeyUsed(m), m.nonce, CtrOf(id), p)
Genuine(m, ct) == Hash(Open(m, ct)) = m.hash
\* A local lookup of a chunk whose payload p was admitted under manifest own (by a store or by an
\* accepted replica).  undisturbed: no other manifest for this chunk id has been presented to the node
\* since.  Then the lookup must hit and return p.  Once another manifest has been presented the
\* statement leaves two compliant behaviours (keep the admitted content: return p; adopt the new
\* manifest: the held replica no longer matches it, so nothing may be returned) -- but never bytes that
\* are neither p nor hash to the content hash of the manifest the node now holds (cacheHash).
FetchAllowed(undisturbed, p, hit, out, hasCache, cacheHash) ==
    IF undisturbed THEN hit /\ out = p
    ELSE ~hit \/ out = p \/ (hasCache /\ Hash(out) = cacheHash)

\* ---- toy primitives of the model (2-bit symbols; an injective "hash"; XOR stream cipher; XOR shares) --------
ToyPayload(i) == CASE i = 1 -> <<>> [] i = 2 -> <<1>> [] OTHER -> <<2, 3>>
ToyHash(s) == s
ToyCipher(k, nn, ctr, s) == [i \in 1 .. Len(s) |-> s[i] ^^ ((k + nn + ctr + i) % 4)]
ToyKeyOf(sh, t) == IF t = 1 THEN sh[1] ELSE sh[1] ^^ sh[2]
ToyCtr(id) == id % 4
ToyShards(k, t) == IF t = 1 THEN <<k, 3>> ELSE <<k ^^ 2, 2>>        \* t = 1: the second share is unused

\* ---- the environment: honest publications and their corruptions ----------------------------------------
Desc == [p : PayloadIx, k : KeyVals, nn : NonceVals, t : Thresholds]
Pub(c, d) ==
    LET sh == ToyShards(d.k, d.t)
        m == [id |-> c, hash |-> Hash(ToyPayload(d.p)), nonce |-> d.nn, t |-> d.t, shards |-> sh]
    IN [m |-> m, ct |-> Cipher(KeyOf(sh, d.t), d.nn, CtrOf(c), ToyPayload(d.p)), p |-> ToyPayload(d.p)]

\* zero-arity constant tables (TLC evaluates them once): every publication, every corruption of it
PubT == [c \in Ids |-> [d \in Desc |-> Pub(c, d)]]

FlipAt(s, i) == IF i \in 1 .. Len(s) THEN [s EXCEPT ![i] = @ ^^ 1] ELSE s
TwoArg == {"foreignmanifest", "foreignct"}
\* x: the publication tampered with, y: a second publication of the same chunk id (used by TwoArg kinds)
Tamper(kind, x, y) ==
    CASE kind = "none"            -> [m |-> x.m, ct |-> x.ct]
      [] kind = "flipfirst"       -> [m |-> x.m, ct |-> FlipAt(x.ct, 1)]
      [] kind = "flipmid"         -> [m |-> x.m, ct |-> FlipAt(x.ct, (Len(x.ct) \div 2) + 1)]
      [] kind = "fliplast"        -> [m |-> x.m, ct |-> FlipAt(x.ct, Len(x.ct))]
      [] kind = "trunc"           -> [m |-> x.m, ct |-> SubSeq(x.ct, 1, Len(x.ct) - 1)]
      [] kind = "extend"          -> [m |-> x.m, ct |-> Append(x.ct, 0)]
      [] kind = "swapnonce"       -> [m |-> [x.m EXCEPT !.nonce = (@ + 2) % 4], ct |-> x.ct]     \* the nonce of another publication
      [] kind = "althash"         -> [m |-> [x.m EXCEPT !.hash = Hash(Append(x.p, 0))], ct |-> x.ct]
      [] kind = "shardfirst"      -> [m |-> [x.m EXCEPT !.shards[1] = @ ^^ 1], ct |-> x.ct]
      [] kind = "shardlast"       -> [m |-> [x.m EXCEPT !.shards[2] = @ ^^ 1], ct |-> x.ct]
      [] kind = "foreignmanifest" -> [m |-> y.m, ct |-> x.ct]
      [] kind = "foreignct"       -> [m |-> x.m, ct |-> y.ct]

TamperT == [c \in Ids |-> [kind \in Kinds |-> [d \in Desc |-> [e \in (IF kind \in TwoArg THEN Desc ELSE {d}) |->
               LET r == Tamper(kind, PubT[c][d], PubT[c][e]) pt == Open(r.m, r.ct)
               IN [m |-> r.m, ct |-> r.ct, pt |-> pt, genuine |-> (Hash(pt) = r.m.hash)]]]]]

\* ---- the model --------------------------------------------------------------------------------------------
VARIABLES held,       \* chunk_store_:  id -> None | [ct, nonce]
          cache,      \* manifest_cache_: id -> None | manifest
          shardrec,   \* dht shard table: id -> None | [shards, t]
          prov,       \* id -> the node announced itself as a provider
          truth,      \* ghost: id -> None | [p, own] payload admitted last (store / accepted replica) and its manifest
          meddled,    \* ghost: id -> another manifest was presented for a held chunk since
          last,       \* observable outcome of the last action
          hist        \* action history (not part of the VIEW)
mvars == <<held, cache, shardrec, prov, truth, meddled, last, hist>>
MView == <<held, cache, shardrec, prov, truth, meddled, last>>

None == [k |-> "none"]
Rec(ct, nn) == [k |-> "rec", ct |-> ct, nonce |-> nn]
Man(m) == [k |-> "man", m |-> m]
Shr(m) == [k |-> "shr", shards |-> m.shards, t |-> m.t]
Tru(p, m) == [k |-> "tru", p |-> p, own |-> m]
NoLast == [op |-> "init", c |-> 0, ok |-> FALSE, out |-> <<>>, genuine |-> TRUE, changed |-> FALSE, tampered |-> FALSE, fallback |-> FALSE, replaced |-> FALSE]

MInit == /\ held = [c \in Ids |-> None] /\ cache = [c \in Ids |-> None] /\ shardrec = [c \in Ids |-> None]
         /\ prov = [c \in Ids |-> FALSE] /\ truth = [c \in Ids |-> None] /\ meddled = [c \in Ids |-> FALSE]
         /\ last = NoLast /\ hist = <<>>

\* Node::store_chunk: hash, fresh key, seal, put, split the key, cache the manifest, publish the shares, announce
Store(c, d) ==
    LET x == PubT[c][d] IN
    /\ held' = [held EXCEPT ![c] = Rec(x.ct, x.m.nonce)]
    /\ cache' = [cache EXCEPT ![c] = Man(x.m)]
    /\ shardrec' = [shardrec EXCEPT ![c] = Shr(x.m)]
    /\ prov' = [prov EXCEPT ![c] = TRUE]
    /\ truth' = [truth EXCEPT ![c] = Tru(x.p, x.m)]
    /\ meddled' = [meddled EXCEPT ![c] = FALSE]
    /\ last' = [NoLast EXCEPT !.op = "store", !.c = c, !.ok = TRUE]
    /\ hist' = Append(hist, [op |-> "store", c |-> c, d |-> d])

\* Node::receive_chunk(manifest, ciphertext)
Import(c, kind, d, e) ==
    LET r == TamperT[c][kind][d][e]
        pt == r.pt
        acc == DevImportUnverified \/ r.genuine
    IN /\ IF acc
          THEN /\ held' = [held EXCEPT ![c] = Rec(r.ct, r.m.nonce)]
               /\ cache' = [cache EXCEPT ![c] = Man(r.m)]
               /\ shardrec' = [shardrec EXCEPT ![c] = Shr(r.m)]
               /\ prov' = [prov EXCEPT ![c] = TRUE]
               /\ truth' = [truth EXCEPT ![c] = Tru(pt, r.m)]
               /\ meddled' = [meddled EXCEPT ![c] = FALSE]
          ELSE /\ held' = IF DevStoreBeforeVerify THEN [held EXCEPT ![c] = Rec(r.ct, r.m.nonce)] ELSE held
               /\ UNCHANGED <<cache, shardrec, prov, truth, meddled>>
       /\ last' = [NoLast EXCEPT !.op = "import", !.c = c, !.ok = acc, !.out = IF acc THEN pt ELSE <<>>, !.genuine = r.genuine,
                                 !.changed = (<<held', cache', shardrec', prov'>> # <<held, cache, shardrec, prov>>), !.tampered = (kind # "none"),
                                 !.replaced = (acc /\ truth[c] # None /\ truth[c].p # pt)]
       /\ hist' = Append(hist, [op |-> "import", c |-> c, kind |-> kind, d |-> d, e |-> e])

\* ingest_manifest / handle_announce / request_chunk: no look at what the node holds
Ingest(c, kind, d, e) ==
    LET m == TamperT[c][kind][d][e].m IN
    /\ cache' = [cache EXCEPT ![c] = Man(m)]
    /\ shardrec' = [shardrec EXCEPT ![c] = Shr(m)]
    /\ meddled' = [meddled EXCEPT ![c] = @ \/ (truth[c] # None /\ truth[c].own # m)]
    /\ UNCHANGED <<held, prov, truth>>
    /\ last' = [NoLast EXCEPT !.op = "ingest", !.c = c, !.ok = TRUE]
    /\ hist' = Append(hist, [op |-> "ingest", c |-> c, kind |-> kind, d |-> d, e |-> e])

ShardExpire(c) ==
    /\ shardrec[c] # None
    /\ shardrec' = [shardrec EXCEPT ![c] = None]
    /\ UNCHANGED <<held, cache, prov, truth, meddled>>
    /\ last' = [NoLast EXCEPT !.op = "shardexpire", !.c = c, !.ok = TRUE]
    /\ hist' = Append(hist, [op |-> "shardexpire", c |-> c])

\* Node::fetch_chunk: record -> shares from the share record, else from the cached manifest (re-published) -> decrypt
Fetch(c) ==
    LET src == IF shardrec[c] # None THEN shardrec[c] ELSE IF cache[c] # None THEN Shr(cache[c].m) ELSE None
        pt == Cipher(KeyOf(src.shards, src.t), held[c].nonce, CtrOf(c), held[c].ct)
        verified == DevFetchUnverified \/ cache[c] = None \/ Hash(pt) = cache[c].m.hash
        hit == held[c] # None /\ src # None /\ verified
    IN /\ shardrec' = IF held[c] # None /\ shardrec[c] = None /\ cache[c] # None THEN [shardrec EXCEPT ![c] = Shr(cache[c].m)] ELSE shardrec
       /\ UNCHANGED <<held, cache, prov, truth, meddled>>
       /\ last' = [NoLast EXCEPT !.op = "fetch", !.c = c, !.ok = hit, !.out = IF hit THEN pt ELSE <<>>,
                                 !.fallback = (held[c] # None /\ shardrec[c] = None /\ cache[c] # None)]
       /\ hist' = Append(hist, [op |-> "fetch", c |-> c])

MNext == \E c \in Ids :
           \/ \E d \in Desc : Store(c, d)
           \/ \E kind \in Kinds, d \in Desc : \E e \in (IF kind \in TwoArg THEN Desc ELSE {d}) : Import(c, kind, d, e)
           \/ \E kind \in MKinds, d \in Desc : \E e \in (IF kind \in TwoArg THEN Desc ELSE {d}) : Ingest(c, kind, d, e)
           \/ ShardExpire(c)
           \/ Fetch(c)
MSpec == MInit /\ [][MNext]_mvars

\* ---- invariants ---------------------------------------------------------------------------------------------
LC == last.c
\* the local lookup / a replica import / (the CLI = Open + Genuine, no state) yield the admitted bytes, nothing else
C11_FetchAllowed ==
    last.op = "fetch" /\ truth[LC] # None =>
        FetchAllowed(~meddled[LC], truth[LC].p, last.ok, last.out, cache[LC] # None, IF cache[LC] # None THEN cache[LC].m.hash ELSE <<>>)
C11_FetchNothingUnknown == last.op = "fetch" /\ truth[LC] = None => ~last.ok
\* a replica whose decryption does not hash to the manifest's content hash is never accepted (returned) ...
C11_TamperedNeverAccepted == last.op = "import" /\ last.ok => last.genuine
\* ... nor stored or announced
C11_RejectedChangesNothing == last.op = "import" /\ ~last.ok => ~last.changed
\* a genuine replica is accepted and what is returned is its decryption; it is what the next lookup returns
C11_GenuineAccepted == last.op = "import" /\ last.genuine => last.ok /\ truth[LC] # None /\ last.out = truth[LC].p
\* the bytes held are the encryption of the admitted payload under the manifest it was admitted with
C11_HeldIsSealed == \A c \in Ids : held[c] # None =>
                        /\ truth[c] # None
                        /\ Sealed(c, truth[c].p, truth[c].own, held[c].ct)
                        /\ held[c].nonce = truth[c].own.nonce
C11_All == /\ C11_FetchAllowed /\ C11_FetchNothingUnknown /\ C11_TamperedNeverAccepted /\ C11_RejectedChangesNothing
           /\ C11_GenuineAccepted /\ C11_HeldIsSealed

\* ---- vacuity guards (must be VIOLATED: the scenario is reachable) --------------------------------------------------
Reach_MeddledFetch == ~(last.op = "fetch" /\ truth[LC] # None /\ meddled[LC] /\ held[LC] # None)
Reach_MeddledMiss == ~(last.op = "fetch" /\ truth[LC] # None /\ meddled[LC] /\ ~last.ok)
Reach_TamperedButGenuine == ~(last.op = "import" /\ last.tampered /\ last.genuine /\ last.out # <<>>)
Reach_TamperedRefused == ~(last.op = "import" /\ last.tampered /\ ~last.ok)
Reach_ReplacedByOtherContent == ~(last.op = "import" /\ last.ok /\ last.replaced)
Reach_FallbackHit == ~(last.op = "fetch" /\ last.ok /\ last.fallback)
=============================================================================
