SPECIFICATION TSpec
CONSTANTS
  Hash <- RealHash
  Cipher <- RealCipher
  KeyOf <- RealKeyOf
  CtrOf <- RealCtr
  Ids = {1}
  PayloadIx = {}
  KeyVals = {}
  NonceVals = {}
  Thresholds = {}
  Kinds = {}
  MKinds = {}
  DevFetchUnverified = FALSE
  DevImportUnverified = FALSE
  DevStoreBeforeVerify = FALSE
  FBits = 8
  FPoly = 285
  Idx = {1}
  MaxT = 0
  TFull = 0
  KFull = 0
  Secrets = {0}
  BadVals = {0}
  DevSkipZeroShares = FALSE
  DevNarrowCounter = FALSE
INVARIANT Done
CHECK_DEADLOCK FALSE
