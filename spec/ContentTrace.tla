---------------------------- MODULE ContentTrace ----------------------------
(* Trace specification for C11: validates an ndjson trace recorded by harness/content.cpp from real Nodes       *)
(* (store_chunk, fetch_chunk, receive_chunk, handle_chunk, ingest_manifest / handle_announce / request_chunk)    *)
(* and from the CLI's decrypt_chunk_with_manifest against the contract operators of Content.tla instantiated    *)
(* with the executable references:  Hash = SHA256 (Sha256.tla), Cipher = ChaCha20Xor (ChaCha20.tla),           *)
(* KeyOf(shards, t) = Combine(first t shards) (Shamir.tla at GF(2^8), 0x11D), CtrOf(id) = LE32(id[0..3]).        *)
(*                                                                                                              *)
(* Clauses (only what the property statement fixes):                                                            *)
(*  C11.hash-mismatch                          store: manifest.hash # SHA256(payload)                            *)
(*  C11.ciphertext-not-chacha20-under-shares-key   store: the bytes held are not ChaCha20Xor(Combine(first t     *)
(*                                             shards), manifest.nonce, LE32(id[0..3]), payload) (large payloads: *)
(*                                             first two and last two cipher blocks + length); /replica: after an *)
(*                                             accepted import the bytes / nonce held are not the ones imported   *)
(*  C11.local-roundtrip-mismatch               lookup on the storing node, no other manifest presented since:    *)
(*                                             miss, or bytes other than the stored payload                      *)
(*  C11.replica-roundtrip-mismatch[/lookup|/chunkin]  pristine (manifest, ciphertext) of a store given to another *)
(*                                             node: refused, or other bytes returned, or a later lookup there    *)
(*                                             does not give the payload                                          *)
(*  C11.cli-roundtrip-mismatch                 decrypt_chunk_with_manifest on the pristine pair                   *)
(*  C11.tampered-replica-accepted[/cli]        a pair with SHA256(Open(m', ct')) # m'.hash (or without a usable    *)
(*                                             key: threshold 0, fewer shares than the threshold) was accepted    *)
(*  C11.tampered-replica-stored-or-announced[/chunkin]  ... or left any trace in what the node holds for the id   *)
(*                                             (record, cached manifest, key-share record, provider entry, plan)  *)
(*  C11.returned-bytes-not-matching-hash[/cli] bytes were returned that are neither the admitted payload nor hash *)
(*                                             to the content hash of the manifest the node holds (lookup after   *)
(*                                             another manifest for the id was presented), or an accepted replica *)
(*                                             returned something else than its decryption                        *)
(* Permissive where the statement is silent: a corrupted pair that is still genuine (empty payload under another   *)
(* key, an unused share altered, shares reordered ...) may be accepted or refused; share sets with repeated        *)
(* indices among the first t have no defined key here and are not judged; after a foreign manifest for a held id   *)
(* was presented a lookup may miss.  Payloads above 512 bytes: the judgement is by construction (pristine =>       *)
(* genuine; a flipped / cut / extended ciphertext or an altered hash => not genuine, assuming SHA-256 collision    *)
(* resistance) and returned bytes are compared with the stored payloads by the driver (eqslot).                   *)
(*                                                                                                              *)
(* The first trace line is {"op":"lanes","starts":[..],"ends":[..]}: behaviours (reset .. next reset) are          *)
(* independent, so contiguous groups of behaviours are validated as separate TLC behaviours (one initial state per *)
(* lane, run with -workers N); every lane prints its own VERIF_RESULT and checks/content.py merges them.          *)
EXTENDS TraceKit, Content, Sha256, ChaCha20, Shamir

VARIABLES l, lend, viol, nviol, stats, res, ghost, slots
tvars == <<l, lend, viol, nviol, stats, res, ghost, slots>>
allvars == <<tvars, mvars, tup>>

MaxReported == 40

\* ---- the executable references behind the contract's primitives (ContentTrace.cfg: Hash <- RealHash ...) ----------
RealHash(b) == SHA256(b)
RealCipher(key, nonce, ctr, b) == ChaCha20Xor(key, nonce, ctr, b)
RealKeyOf(shards, t) == Combine(SubSeq(shards, 1, t))
RealCtr(id) == CounterOfLE(id[1], id[2], id[3], id[4])

\* evaluate v exactly once and hand the value to F (set enumeration forces the value)
Let1(v, Body(_)) == CHOOSE yy \in {Body(xx) : xx \in {v}} : TRUE

Bs(x) == Arr(x)
Shs(x) == LET s == Arr(x) IN [i \in 1 .. Len(s) |-> [index |-> s[i][1], value |-> Arr(s[i][2])]]
Mf(x) == [id |-> Bs(x.id), hash |-> Bs(x.hash), nonce |-> Bs(x.nonce), t |-> x.t, shards |-> Shs(x.shards)]

Usable(m) == m.t >= 1 /\ Len(m.shards) >= m.t
DistinctUsed(m) == Distinct(Indices(SubSeq(m.shards, 1, m.t)))
\* judgement of a replica: known = the contract decides it; genuine; pt = its decryption
Judge(m, ct) ==
    IF ~Usable(m) THEN [known |-> TRUE, genuine |-> FALSE, pt |-> <<>>]
    ELSE IF ~DistinctUsed(m) THEN [known |-> FALSE, genuine |-> FALSE, pt |-> <<>>]
    ELSE Let1(Open(m, ct), LAMBDA pt : [known |-> TRUE, genuine |-> (Hash(pt) = m.hash), pt |-> pt])

\* corruption kinds whose effect on a LARGE payload is decided by construction (see header)
LargeKinds == {"flipfirst", "flipmid", "fliplast", "trunc", "extend", "althash"}

ProjKey(p) == <<p.held, p.hfp, p.hlen, p.cache, p.cfp, p.shard, p.sfp, p.prov, p.plan>>
ContentFields(m) == <<m.id, m.hash, m.nonce, m.t, m.shards>>

GKey(node, id) == <<node, id>>
HasG(g, k) == k \in DOMAIN g
SetG(g, k, v) == [x \in (DOMAIN g) \cup {k} |-> IF x = k THEN v ELSE g[x]]
Meddle(g, k) == IF HasG(g, k) THEN [g EXCEPT ![k].meddled = TRUE] ELSE g

Stat0 == [stores |-> 0, large_stores |-> 0, fetches |-> 0, fetch_hits |-> 0, meddled_fetches |-> 0, meddled_hits |-> 0, tampers |-> 0, pristine |-> 0,
          judged |-> 0, unjudged |-> 0, genuine_tampered |-> 0, not_genuine |-> 0, recv |-> 0, recv_accepted |-> 0, recv_refused_not_genuine |-> 0,
          genuine_tampered_refused |-> 0, cli |-> 0, cli_accepted |-> 0, chunkin |-> 0, chunkin_stored |-> 0, manifests |-> 0, meddlings |-> 0, blocks |-> 0]
Inc(s, k, d) == [s EXCEPT ![k] = @ + d]
NBlk(n) == (n + 63) \div 64
\* reference work of judging n bytes: one ChaCha20 pass + one SHA-256 pass (+ padding block)
JudgeBlocks(n) == NBlk(n) + ((n + 8) \div 64) + 1

\* -------------------------------------------------------------------------------------------------------- store
StoreBad(e) ==
    LET m == Mf(e.m) id == Bs(e.id) IN
    IF e.threw = 1 \/ e.rec = 0 THEN {"C11.ciphertext-not-chacha20-under-shares-key"}
    ELSE IF ~Usable(m) \/ ~DistinctUsed(m) \/ m.id # id THEN {"C11.ciphertext-not-chacha20-under-shares-key"}
    ELSE IF e.small = 1
         THEN LET p == Bs(e.p) IN
              (IF Hash(p) = m.hash THEN {} ELSE {"C11.hash-mismatch"})
              \cup (IF Has(e, "ct") /\ Bs(e.ct) = Cipher(KeyUsed(m), m.nonce, CtrOf(id), p) THEN {} ELSE {"C11.ciphertext-not-chacha20-under-shares-key"})
         ELSE Let1(KeyUsed(m), LAMBDA key :
                (IF /\ e.rlen = e.plen /\ Has(e, "ct_head")
                    /\ Bs(e.ct_head) = Cipher(key, m.nonce, CtrOf(id), Bs(e.p_head))
                    /\ Bs(e.ct_tail) = Cipher(key, m.nonce, AddSmall32(CtrOf(id), e.tail_blk), Bs(e.p_tail))
                 THEN {} ELSE {"C11.ciphertext-not-chacha20-under-shares-key"})
                \cup (IF Has(e, "p") /\ Hash(Bs(e.p)) # m.hash THEN {"C11.hash-mismatch"} ELSE {})
                \* thorough tier: the whole payload and ciphertext of one large store are logged
                \cup (IF Has(e, "p") /\ Has(e, "ct") /\ Bs(e.ct) # Cipher(key, m.nonce, CtrOf(id), Bs(e.p))
                      THEN {"C11.ciphertext-not-chacha20-under-shares-key"} ELSE {}))

StoreEval(e) ==
    LET bad == StoreBad(e) m == Mf(e.m) id == Bs(e.id)
        p == IF e.small = 1 THEN Bs(e.p) ELSE <<>>
        g == [p |-> p, small |-> (e.small = 1), slot |-> e.slot, m |-> m, origin |-> "store", meddled |-> FALSE]
        s == [id |-> id, p |-> p, small |-> (e.small = 1), plen |-> e.plen, m |-> m, sealed |-> (bad = {})]
    IN [bad |-> bad,
        ghost |-> SetG(ghost, GKey(e.node, id), g),
        slots |-> SetG(slots, e.slot, s),
        st |-> Inc(Inc(Inc(stats, "stores", 1), "large_stores", 1 - e.small), "blocks", IF e.small = 1 THEN JudgeBlocks(e.plen) ELSE 4)]

\* -------------------------------------------------------------------------------------------------------- fetch
FetchEval(e) ==
    LET id == Bs(e.id) k == GKey(e.node, id)
        hit == e.hit = 1 /\ e.threw = 0
        logged == hit /\ Has(e, "out")
        out == IF logged THEN Bs(e.out) ELSE <<>>
        hasCache == e.post.cache = 1
        chash == IF hasCache THEN Bs(e.post.chash) ELSE <<>>
    IN IF HasG(ghost, k)
       THEN LET g == ghost[k]
                ok == IF g.small
                      THEN (IF hit /\ ~logged THEN g.meddled      \* more than 513 bytes came back for a small payload
                            ELSE FetchAllowed(~g.meddled, g.p, hit, out, hasCache, chash))
                      ELSE (IF ~g.meddled THEN hit /\ e.eqslot = g.slot ELSE TRUE)
                name == IF g.meddled THEN "C11.returned-bytes-not-matching-hash"
                        ELSE IF g.origin = "store" THEN "C11.local-roundtrip-mismatch" ELSE "C11.replica-roundtrip-mismatch/lookup"
            IN [bad |-> IF ok THEN {} ELSE {name}, ghost |-> ghost, slots |-> slots,
                st |-> Inc(Inc(Inc(Inc(stats, "fetches", 1), "fetch_hits", IF hit THEN 1 ELSE 0), "meddled_fetches", IF g.meddled THEN 1 ELSE 0),
                           "meddled_hits", IF g.meddled /\ hit THEN 1 ELSE 0)]
       ELSE [bad |-> IF hit /\ ~(logged /\ hasCache /\ Hash(out) = chash) THEN {"C11.returned-bytes-not-matching-hash"} ELSE {},
             ghost |-> ghost, slots |-> slots, st |-> Inc(Inc(stats, "fetches", 1), "fetch_hits", IF hit THEN 1 ELSE 0)]

\* -------------------------------------------------------------------------------------------------------- tamper
\* the judgement of the pair (m', ct') handed to the real code
TamperJudge(e, m, sl) ==
    IF e.small = 1
    THEN (IF e.pristine = 1 /\ sl.sealed THEN [known |-> TRUE, genuine |-> TRUE, pt |-> sl.p] ELSE Judge(m, Bs(e.ct)))
    ELSE (IF e.pristine = 1 THEN [known |-> TRUE, genuine |-> TRUE, pt |-> <<>>]
          ELSE IF e.corrupt \in LargeKinds THEN [known |-> TRUE, genuine |-> FALSE, pt |-> <<>>]
          ELSE [known |-> FALSE, genuine |-> FALSE, pt |-> <<>>])

RecvBad(e, m, sl, J) ==
    LET ok == e.r_hit = 1 /\ e.r_threw = 0
        small == e.small = 1
        logged == ok /\ Has(e, "r_out")
        out == IF logged THEN Bs(e.r_out) ELSE <<>>
        post == e.r_post
    IN (IF J.known /\ ~J.genuine /\ ok THEN {"C11.tampered-replica-accepted"} ELSE {})
       \cup (IF J.known /\ ~J.genuine /\ ProjKey(e.r_pre) # ProjKey(post) THEN {"C11.tampered-replica-stored-or-announced"} ELSE {})
       \cup (IF e.pristine = 1 /\ (~ok \/ (small /\ (~logged \/ out # sl.p)) \/ (~small /\ e.r_eqslot # e.slot)) THEN {"C11.replica-roundtrip-mismatch"} ELSE {})
       \cup (IF e.pristine = 0 /\ J.known /\ J.genuine /\ ok /\ small /\ (~logged \/ out # J.pt) THEN {"C11.returned-bytes-not-matching-hash"} ELSE {})
       \cup (IF J.known /\ J.genuine /\ ok /\
                (post.held # 1 \/ post.hlen # e.ctlen \/ Bs(post.hnonce) # m.nonce \/ (small /\ (~Has(post, "hct") \/ Bs(post.hct) # Bs(e.ct))))
             THEN {"C11.ciphertext-not-chacha20-under-shares-key/replica"} ELSE {})

CliBad(e, sl, J) ==
    LET ok == e.c_hit = 1 /\ e.c_threw = 0
        small == e.small = 1
        logged == ok /\ Has(e, "c_out")
        out == IF logged THEN Bs(e.c_out) ELSE <<>>
    IN (IF J.known /\ ~J.genuine /\ ok THEN {"C11.tampered-replica-accepted/cli"} ELSE {})
       \cup (IF e.pristine = 1 /\ (~ok \/ (small /\ (~logged \/ out # sl.p)) \/ (~small /\ e.c_eqslot # e.slot)) THEN {"C11.cli-roundtrip-mismatch"} ELSE {})
       \cup (IF e.pristine = 0 /\ J.known /\ J.genuine /\ ok /\ small /\ (~logged \/ out # J.pt) THEN {"C11.returned-bytes-not-matching-hash/cli"} ELSE {})

\* the manifest a node uses for an arriving CHUNK is the one it has cached: m' when the preceding ingest admitted it
ChunkinJudge(e, J) ==
    IF e.k_same_m = 1 THEN J
    ELSE IF e.k_hasm = 0 THEN [known |-> TRUE, genuine |-> FALSE, pt |-> <<>>]
    ELSE IF e.small = 1 THEN Judge(Mf(e.k_mused), Bs(e.ct))
    ELSE [known |-> FALSE, genuine |-> FALSE, pt |-> <<>>]
ChunkinStored(e) == e.k_post.held = 1 /\ e.k_post.hlen = e.ctlen /\ (e.small = 1 => Has(e.k_post, "hct") /\ Bs(e.k_post.hct) = Bs(e.ct))
ChunkinBad(e, Jk) ==
    (IF Jk.known /\ ~Jk.genuine /\ ProjKey(e.k_pre) # ProjKey(e.k_post) THEN {"C11.tampered-replica-stored-or-announced/chunkin"} ELSE {})
    \cup (IF e.pristine = 1 /\ e.k_same_m = 1 /\ ~ChunkinStored(e) THEN {"C11.replica-roundtrip-mismatch/chunkin"} ELSE {})

TamperEval(e) ==
    LET m == Mf(e.m) sl == slots[e.slot] IN
    Let1(TamperJudge(e, m, sl), LAMBDA J :
      LET hasR == Has(e, "r_node") hasC == Has(e, "c_hit") hasK == Has(e, "k_node")
          Jk == IF hasK THEN ChunkinJudge(e, J) ELSE J
          bad == (IF hasR THEN RecvBad(e, m, sl, J) ELSE {}) \cup (IF hasC THEN CliBad(e, sl, J) ELSE {}) \cup (IF hasK THEN ChunkinBad(e, Jk) ELSE {})
          rok == hasR /\ e.r_hit = 1 /\ e.r_threw = 0
          newg(origin, mm, pt) == [p |-> pt, small |-> (e.small = 1), slot |-> e.slot, m |-> mm, origin |-> origin, meddled |-> FALSE]
          \* receive_chunk on node r_node
          g1 == IF ~hasR THEN ghost
                ELSE LET k == GKey(e.r_node, m.id) IN
                     IF rok /\ J.known /\ J.genuine THEN SetG(ghost, k, newg("replica", m, J.pt))
                     ELSE IF rok \/ ProjKey(e.r_pre) # ProjKey(e.r_post) THEN Meddle(ghost, k)
                     ELSE ghost
          \* ingest_manifest + handle_chunk on node k_node
          g2 == IF ~hasK THEN g1
                ELSE LET k == GKey(e.k_node, m.id)
                         mm == IF e.k_same_m = 1 \/ e.k_hasm = 0 THEN m ELSE Mf(e.k_mused)
                     IN IF Jk.known /\ Jk.genuine /\ ChunkinStored(e) THEN SetG(g1, k, newg("replica", mm, Jk.pt))
                        ELSE IF HasG(g1, k) /\ (ContentFields(g1[k].m) # ContentFields(m) \/ ProjKey(e.k_pre) # ProjKey(e.k_post)) THEN Meddle(g1, k)
                        ELSE g1
          judgedNow == e.small = 1 /\ ~(e.pristine = 1 /\ sl.sealed)
          s1 == Inc(Inc(Inc(Inc(stats, "tampers", 1), "pristine", e.pristine), "judged", IF J.known THEN 1 ELSE 0), "unjudged", IF J.known THEN 0 ELSE 1)
          s2 == Inc(Inc(s1, "genuine_tampered", IF e.pristine = 0 /\ J.known /\ J.genuine THEN 1 ELSE 0), "not_genuine", IF J.known /\ ~J.genuine THEN 1 ELSE 0)
          s3 == Inc(Inc(Inc(Inc(s2, "recv", IF hasR THEN 1 ELSE 0), "recv_accepted", IF rok THEN 1 ELSE 0),
                        "recv_refused_not_genuine", IF hasR /\ ~rok /\ J.known /\ ~J.genuine THEN 1 ELSE 0),
                    "genuine_tampered_refused", IF hasR /\ ~rok /\ e.pristine = 0 /\ J.known /\ J.genuine THEN 1 ELSE 0)
          s4 == Inc(Inc(Inc(Inc(s3, "cli", IF hasC THEN 1 ELSE 0), "cli_accepted", IF hasC /\ e.c_hit = 1 THEN 1 ELSE 0),
                        "chunkin", IF hasK THEN 1 ELSE 0), "chunkin_stored", IF hasK /\ ChunkinStored(e) /\ ProjKey(e.k_pre) # ProjKey(e.k_post) THEN 1 ELSE 0)
      IN [bad |-> bad, ghost |-> g2, slots |-> slots, st |-> Inc(s4, "blocks", IF judgedNow THEN JudgeBlocks(e.ctlen) ELSE 0)])

\* -------------------------------------------------------------------------------------------------------- manifest
ManifestEval(e) ==
    LET m == Mf(e.m) k == GKey(e.node, m.id)
        differs == HasG(ghost, k) /\ ContentFields(ghost[k].m) # ContentFields(m)
    IN [bad |-> {}, ghost |-> IF differs THEN Meddle(ghost, k) ELSE ghost, slots |-> slots,
        st |-> Inc(Inc(stats, "manifests", 1), "meddlings", IF differs THEN 1 ELSE 0)]

\* --------------------------------------------------------------------------------------------------------
Keep == [bad |-> {}, ghost |-> ghost, slots |-> slots, st |-> stats]
Eval(e) ==
    CASE e.op = "reset" -> [bad |-> {}, ghost |-> <<>>, slots |-> <<>>, st |-> stats]
      [] e.op = "store" -> StoreEval(e)
      [] e.op = "fetch" -> FetchEval(e)
      [] e.op = "tamper" -> TamperEval(e)
      [] e.op = "manifest" -> ManifestEval(e)
      [] OTHER -> Keep

Lanes == T[1]
TInit == /\ \E k \in 1 .. Len(Lanes.starts) : l = Lanes.starts[k] /\ lend = Lanes.ends[k]
         /\ viol = <<>> /\ nviol = 0 /\ stats = Stat0 /\ res = [bad |-> {}] /\ ghost = <<>> /\ slots = <<>>
         /\ MInit /\ tup = <<>>

Detail(e) == [op |-> e.op, src |-> Fld(e, "src", 0), corrupt |-> Fld(e, "corrupt", ""), slot |-> Fld(e, "slot", -1), node |-> Fld(e, "node", -1)]
TNext == /\ l <= lend
         /\ l' = l + 1
         /\ res' = Eval(T[l])
         /\ ghost' = res'.ghost /\ slots' = res'.slots /\ stats' = res'.st
         /\ nviol' = nviol + (IF res'.bad = {} THEN 0 ELSE 1)
         /\ viol' = IF res'.bad = {} \/ Len(viol) >= MaxReported THEN viol ELSE Append(viol, Fail(l, res'.bad, Detail(T[l])))
         /\ UNCHANGED <<lend, mvars, tup>>
TSpec == TInit /\ [][TNext]_allvars
Done == l <= lend \/ PrintT(<<"VERIF_RESULT", ToJson([events |-> Len(T), first |-> lend, viol |-> viol, stats |-> stats @@ [nviol |-> nviol]])>>)
=============================================================================
