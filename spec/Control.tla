------------------------------ MODULE Control ------------------------------
(* The daemon's control plane (src/daemon/ControlServer.cpp, ControlClient.cpp): design      *)
(* level, shaped like the code -- parse_request (length cap while the headers are read),     *)
(* handle_store / handle_fetch / handle_stop (token gate, TTL window, rate bucket, store      *)
(* PoW, effects), send_response / parse_response (the KEY:VALUE wire format) -- with the      *)
(* C27 / C28 / C29 contract (ControlContract.tla) as invariants over the last response `obs`  *)
(* and the ghost acceptance history.                                                           *)
(*                                                                                             *)
(* Deviations the pinned tree has/had are CONSTANT switches named Dev...; with a switch on, the   *)
(* named invariant must be violated (MC_Control_dev_*.cfg), with all off the model satisfies   *)
(* the contract.                                                                               *)
EXTENDS Integers, Sequences, FiniteSets, TLC, ControlContract

CONSTANTS Chunks,      \* chunk ids clients hold a manifest for (stored by this daemon or elsewhere)
          Addrs,       \* client addresses
          Hdrs,        \* values of the unauthenticated TOKEN header when no token is configured ("none" = absent)
          MaxNow,      \* clock bound
          Window, Limit, FLimit,   \* rate model: window length, STORE limit, streamed-FETCH limit
          TokenCfg,    \* BOOLEAN: the daemon has a control token
          PowOn,       \* BOOLEAN: store proof-of-work enabled
          Families,    \* which request families the model explores: subset of {"auth","admit","rate","seed","frame"}
          RateCmds,    \* commands of the "rate" family
          MaxHist,     \* bound on the length of generated input sequences
          CheckLemma,  \* BOOLEAN: evaluate the framing lemma (ASSUME) in this run
          DevStopUnchecked,      \* STOP is served without looking at the token
          DevFetchOutUnchecked,  \* FETCH with OUT: never looks at the token
          DevFetchLateAuth,      \* FETCH STREAM checks the token only after registering the manifest / looking the chunk up
          DevRateKeyHeader,      \* no token configured: the rate bucket is keyed by the TOKEN header when one is sent
          DevRefundOnRefusal,    \* a refused STORE gives a slot of the rate budget back -- whether or not it had taken one
          RateBad,               \* BOOLEAN: the "rate" family also sends STOREs that are refused on their headers (size, TTL) or PoW
          DevTrimValues,         \* parse_response strips blanks around keys and values ("KEY: value" tolerated)
          DevRawNewlines         \* send_response writes values verbatim (no escaping of newlines / CR / backslash)

VARIABLES now,
          stored, registered, files, running,   \* the daemon's observable effects
          sBucket, fBucket,                     \* DESIGN: rate histories per bucket key
          accS, accF,                           \* CONTRACT ghost: acceptance times per client address
          obs,                                  \* the last response, as the client sees it
          hist
vars == <<now, stored, registered, files, running, sBucket, fBucket, accS, accF, obs, hist>>

TokVariants == {"none", "exact", "wrong", "prefix", "suffix", "case"}
Orders3 == {"first", "mid", "last"}      \* where the TOKEN header sits among the request headers
BucketKeys == {<<"tok">>} \cup {<<"hdr", h>> : h \in Hdrs \ {"none"}} \cup {<<"addr", a>> : a \in Addrs}
Effects == <<stored, registered, files, running>>

\* model numbers for the admission classes: cap 2, TTL window [2, 4]
Cap == 2
MinTtl == 2
MaxTtl == 4
LenNum(c) == CASE c = "under" -> 1 [] c = "at" -> 2 [] c = "over" -> 3
TtlKind(c) == CASE c = "absent" -> "absent" [] c = "garbage" -> "bad" [] OTHER -> "num"
TtlNum(c) == CASE c = "below" -> 1 [] c = "min" -> 2 [] c = "mid" -> 3 [] c = "max" -> 4 [] c = "above" -> 5 [] OTHER -> 0

-----------------------------------------------------------------------------
(* Wire format of a response.  Characters are tokens; "NL" "CR" "BS" are newline, carriage   *)
(* return, backslash.  A response is [ok, fields : key -> value, has, data]; keys are         *)
(* one-token sequences, values and data token sequences.                                       *)
ValueTable == << <<>>, <<"x">>, <<"a", "NL", "b">>, <<"a", "NL">>, <<"k", ":", "v">>, <<"NL">>,       \* the six of the plan
                 <<"a", "BS", "n", "b">>, <<"BS">>, <<"x", "CR", "y">>,                                \* escape-character corner cases
                 <<"SP", "x">>, <<"x", "SP">> >>                                                       \* a blank at either end belongs to the value
DataTable == << <<>>, <<"p">>, <<"NL", "p">>, <<"p", "NL", "NL">> >>
Digits == <<"0", "1", "2", "3", "4", "5", "6", "7", "8", "9">>
DigitSet == {Digits[i] : i \in 1..10}
ToNat(tok) == (CHOOSE i \in 1..10 : Digits[i] = tok) - 1
EmptyF == [x \in {} |-> <<>>]

Flat(ss) == LET f[i \in 0..Len(ss)] == IF i = 0 THEN <<>> ELSE f[i - 1] \o ss[i] IN f[Len(ss)]
EncTok(t) == IF DevRawNewlines THEN <<t>>
             ELSE CASE t = "NL" -> <<"BS", "n">> [] t = "CR" -> <<"BS", "r">> [] t = "BS" -> <<"BS", "BS">> [] OTHER -> <<t>>
Enc(v) == Flat([i \in 1..Len(v) |-> EncTok(v[i])])
RECURSIVE DecFrom(_, _)
DecFrom(v, i) == IF i > Len(v) THEN <<>>
                 ELSE IF v[i] = "BS" /\ i < Len(v)
                        THEN (CASE v[i + 1] = "n" -> <<"NL">> [] v[i + 1] = "r" -> <<"CR">> [] v[i + 1] = "BS" -> <<"BS">>
                                [] OTHER -> <<"BS", v[i + 1]>>) \o DecFrom(v, i + 2)
                        ELSE <<v[i]>> \o DecFrom(v, i + 1)
Dec(v) == IF DevRawNewlines THEN v ELSE DecFrom(v, 1)

\* send_response: STATUS line, one KEY:VALUE line per field in the (unordered) map's order, blank line, payload
WireOf(resp, order) ==
    <<"STATUS", ":", IF resp.ok THEN "OK" ELSE "ERROR", "NL">>
    \o Flat([i \in 1..Len(order) |-> order[i] \o <<":">> \o Enc(resp.fields[order[i]]) \o <<"NL">>])
    \o <<"NL">> \o resp.data
OrdersOf(S) == {s \in [1..Cardinality(S) -> S] : \A i, j \in 1..Cardinality(S) : i # j => s[i] # s[j]}

\* parse_response: recv_line (drops CR) until an empty line; a line without ':' is skipped; the key is
\* what precedes the first ':'; STATUS and PAYLOAD-LENGTH are interpreted; then the payload is read
NextNL(w, i) == IF \E j \in i..Len(w) : w[j] = "NL"
                  THEN CHOOSE j \in i..Len(w) : w[j] = "NL" /\ \A k \in i..(j - 1) : w[k] # "NL"
                  ELSE 0
NotCR(t) == t # "CR"
TrimSP(v) == LET keep == {i \in 1..Len(v) : v[i] # "SP"}
             IN IF keep = {} THEN <<>>
                ELSE SubSeq(v, CHOOSE i \in keep : \A j \in keep : i <= j, CHOOSE i \in keep : \A j \in keep : j <= i)
RECURSIVE ParseFrom(_, _, _)
ParseFrom(w, i, acc) ==
    LET j == NextNL(w, i) IN
    IF j = 0 THEN [acc EXCEPT !.rest = <<>>]
    ELSE LET line == SelectSeq(SubSeq(w, i, j - 1), NotCR)
             rest == SubSeq(w, j + 1, Len(w))
         IN IF line = <<>> THEN [acc EXCEPT !.rest = rest]
            ELSE IF ~\E p \in 1..Len(line) : line[p] = ":" THEN ParseFrom(w, j + 1, acc)
            ELSE LET p   == CHOOSE p \in 1..Len(line) : line[p] = ":" /\ \A q \in 1..(p - 1) : line[q] # ":"
                     key == SubSeq(line, 1, p - 1)
                     raw == SubSeq(line, p + 1, Len(line))
                     val == IF DevTrimValues THEN TrimSP(raw) ELSE raw
                 IN IF key = <<"STATUS">> THEN ParseFrom(w, j + 1, [acc EXCEPT !.seen = TRUE, !.ok = (val = <<"OK">>)])
                    ELSE IF key = <<"PAYLOAD-LENGTH">>
                      THEN IF Len(val) = 1 /\ val[1] \in DigitSet
                             THEN ParseFrom(w, j + 1, [acc EXCEPT !.plen = ToNat(val[1]), !.fields = (key :> val) @@ acc.fields])
                             ELSE [acc EXCEPT !.bad = TRUE, !.rest = rest]
                      ELSE ParseFrom(w, j + 1, [acc EXCEPT !.fields = (key :> Dec(val)) @@ acc.fields])
Parse(w) ==
    LET a  == ParseFrom(w, 1, [ok |-> FALSE, seen |-> FALSE, bad |-> FALSE, plen |-> -1, fields |-> EmptyF, rest |-> <<>>])
        f1 == IF a.seen THEN a.fields ELSE (<<"MESSAGE">> :> <<"incomplete">>) @@ a.fields
        ok == a.ok /\ a.seen /\ ~a.bad
    IN IF a.plen < 0 THEN [ok |-> ok, fields |-> f1, has |-> FALSE, data |-> <<>>]
       ELSE IF Len(a.rest) >= a.plen THEN [ok |-> ok, fields |-> f1, has |-> TRUE, data |-> SubSeq(a.rest, 1, a.plen)]
       ELSE [ok |-> FALSE, fields |-> f1, has |-> FALSE, data |-> <<>>]

\* PAYLOAD-LENGTH belongs to the framing, not to what the handler produced
Norm(r) == [r EXCEPT !.fields = [k \in DOMAIN r.fields \ {<<"PAYLOAD-LENGTH">>} |-> r.fields[k]]]
Resp(ok, fields, has, data) ==
    [ok |-> ok, has |-> has, data |-> data,
     fields |-> IF has THEN (<<"PAYLOAD-LENGTH">> :> <<Digits[Len(data) + 1]>>) @@ fields ELSE fields]

\* LEMMA (checked by TLC when CheckLemma): for the escaped format -- the one the contract needs --
\* Parse(Serialize(x)) = x for every response over the value table, in every field order, with and
\* without payload.
LemmaKeys == {<<"CODE">>, <<"V">>, <<"W">>}
LemmaValues == {ValueTable[i] : i \in 1..Len(ValueTable)}
LemmaResp(ok, v, w, d) == Resp(ok, [k \in LemmaKeys |-> IF k = <<"V">> THEN v ELSE IF k = <<"W">> THEN w ELSE <<"OK">>],
                              d > 0, IF d > 0 THEN DataTable[d] ELSE <<>>)
LemmaHolds(r) == \A order \in OrdersOf(DOMAIN r.fields) : SameResponse(Norm(r), Norm(Parse(WireOf(r, order))))
FramingLemma(unused) ==      \* a parameter keeps TLC from evaluating it eagerly in runs that do not ask for it
    /\ \A v \in LemmaValues, w \in LemmaValues, ok \in BOOLEAN : LemmaHolds(LemmaResp(ok, v, w, 0))
    /\ \A v \in LemmaValues, d \in 1..Len(DataTable) : LemmaHolds(LemmaResp(TRUE, v, <<"x">>, d))
ASSUME CheckLemma /\ ~DevRawNewlines => FramingLemma(0)

\* what `eph list` can show: the ids heading the non-empty lines of the ENTRIES value the client got
IdTok(c) == <<"c1", "c2", "c3", "c4">>[c]
Segs(v) == {SubSeq(v, a, b) : a \in 1..Len(v), b \in 1..Len(v)}
LinesOf(v) == {s \in Segs(v) : s # <<>> /\ \A i \in 1..Len(s) : s[i] # "NL"}
LineStarts(v) == {c \in Chunks : \E a \in 1..Len(v) : v[a] = IdTok(c) /\ (a = 1 \/ v[a - 1] = "NL")}
Listed(got) == IF <<"ENTRIES">> \in DOMAIN got.fields THEN LineStarts(got.fields[<<"ENTRIES">>]) ELSE {}

-----------------------------------------------------------------------------
Init == /\ now = 0 /\ stored = {} /\ registered = {} /\ files = {} /\ running = TRUE
        /\ sBucket = [k \in BucketKeys |-> <<>>] /\ fBucket = [k \in BucketKeys |-> <<>>]
        /\ accS = [a \in Addrs |-> <<>>] /\ accF = [a \in Addrs |-> <<>>]
        /\ obs = [k |-> "init"]

Exact(r) == r.tok = "exact"
Unauth(r) == TokenCfg /\ ~Exact(r)
\* the bucket a request is counted in (handle_store / handle_fetch: rate_identity)
KeyOf(r) == IF TokenCfg THEN <<"tok">>
            ELSE IF DevRateKeyHeader /\ r.hdr # "none" THEN <<"hdr", r.hdr>> ELSE <<"addr", r.addr>>
Fresh(ts) == LET keep(t) == ~(now - t > Window) IN SelectSeq(ts, keep)     \* allow_*: entries older than the window are dropped

RespObs(r, status, why, before, bodyRead) ==
    [k |-> "resp", cmd |-> r.cmd, tok |-> r.tok, ord |-> r.ord, hdr |-> r.hdr, addr |-> r.addr, ch |-> r.ch,
     len |-> r.len, ttl |-> r.ttl, pow |-> r.pow,
     must |-> MustRefuse(TokenCfg, r.cmd, Exact(r)), status |-> status, why |-> why, autherr |-> (why = "unauth"),
     wf |-> TRUE, before |-> before, bodyRead |-> bodyRead]

Refuse(r, why, bodyRead) ==
    /\ obs' = RespObs(r, "ERROR", why, Effects, bodyRead)
    /\ UNCHANGED <<now, stored, registered, files, running, sBucket, fBucket, accS, accF>>

\* a STORE refused before the rate check: the budget is not touched (deviation: the newest entry of the bucket is handed back,
\* although this request never took one -- an earlier ACCEPTED store is forgotten)
StoreRefuse(r, why, bodyRead) ==
    /\ obs' = RespObs(r, "ERROR", why, Effects, bodyRead)
    /\ sBucket' = IF DevRefundOnRefusal /\ why # "too-large" /\ sBucket[KeyOf(r)] # <<>>
                    THEN [sBucket EXCEPT ![KeyOf(r)] = SubSeq(@, 1, Len(@) - 1)] ELSE sBucket
    /\ UNCHANGED <<now, stored, registered, files, running, fBucket, accS, accF>>

\* ---- STORE: parse_request (cap) ; token ; TTL ; rate ; PoW ; store
Store(r) ==
    IF r.len = "over" THEN StoreRefuse(r, "too-large", FALSE)                \* refused while reading the headers
    ELSE IF Unauth(r) THEN StoreRefuse(r, "unauth", TRUE)
    ELSE IF r.ttl = "garbage" THEN StoreRefuse(r, "ttl-invalid", TRUE)
    ELSE IF r.ttl \in {"below", "above"} THEN StoreRefuse(r, "ttl-range", TRUE)
    ELSE LET key == KeyOf(r) fresh == Fresh(sBucket[key]) IN
         IF Len(fresh) >= Limit
           THEN /\ obs' = RespObs(r, "ERROR", "rate", Effects, TRUE)
                /\ sBucket' = [sBucket EXCEPT ![key] = fresh]
                /\ UNCHANGED <<now, stored, registered, files, running, fBucket, accS, accF>>
           ELSE /\ sBucket' = [sBucket EXCEPT ![key] = Append(fresh, now)]
                /\ IF PowOn /\ r.pow # "valid"
                     THEN /\ obs' = RespObs(r, "ERROR", "pow", Effects, TRUE)
                          /\ UNCHANGED <<now, stored, registered, files, running, fBucket, accS, accF>>
                     ELSE /\ stored' = stored \cup {r.ch} /\ registered' = registered \cup {r.ch}
                          /\ accS' = [accS EXCEPT ![r.addr] = Append(@, now)]
                          /\ obs' = RespObs(r, "OK", "ok", Effects, TRUE)
                          /\ UNCHANGED <<now, files, running, fBucket, accF>>

\* ---- FETCH: [token] ; ingest_manifest ; local lookup ; STREAM: [late token] rate, send / OUT: write file
Fetch(r) ==
    LET stream == r.cmd = "FETCH-STREAM"
        early  == IF stream THEN ~DevFetchLateAuth ELSE ~DevFetchOutUnchecked   \* the gate stands before any effect
    IN
    IF early /\ Unauth(r) THEN Refuse(r, "unauth", TRUE)
    ELSE IF r.ch \notin stored
      THEN /\ registered' = registered \cup {r.ch}
           /\ obs' = RespObs(r, "ERROR", "missing", Effects, TRUE)
           /\ UNCHANGED <<now, stored, files, running, sBucket, fBucket, accS, accF>>
    ELSE IF stream
      THEN IF Unauth(r)          \* only reachable with DevFetchLateAuth: the manifest is already registered
             THEN /\ registered' = registered \cup {r.ch}
                  /\ obs' = RespObs(r, "ERROR", "unauth", Effects, TRUE)
                  /\ UNCHANGED <<now, stored, files, running, sBucket, fBucket, accS, accF>>
             ELSE LET key == KeyOf(r) fresh == Fresh(fBucket[key]) IN
                  /\ registered' = registered \cup {r.ch}
                  /\ IF Len(fresh) >= FLimit
                       THEN /\ fBucket' = [fBucket EXCEPT ![key] = fresh]
                            /\ obs' = RespObs(r, "ERROR", "rate", Effects, TRUE) /\ UNCHANGED accF
                       ELSE /\ fBucket' = [fBucket EXCEPT ![key] = Append(fresh, now)]
                            /\ accF' = [accF EXCEPT ![r.addr] = Append(@, now)]
                            /\ obs' = RespObs(r, "OK", "ok", Effects, TRUE)
                  /\ UNCHANGED <<now, stored, files, running, sBucket, accS>>
      ELSE /\ registered' = registered \cup {r.ch} /\ files' = files \cup {r.ch}
           /\ obs' = RespObs(r, "OK", "ok", Effects, TRUE)
           /\ UNCHANGED <<now, stored, running, sBucket, fBucket, accS, accF>>

Stop(r) ==
    IF ~DevStopUnchecked /\ Unauth(r) THEN Refuse(r, "unauth", TRUE)
    ELSE /\ running' = FALSE /\ obs' = RespObs(r, "OK", "ok", Effects, TRUE)
         /\ UNCHANGED <<now, stored, registered, files, sBucket, fBucket, accS, accF>>

Open(r) == /\ obs' = RespObs(r, "OK", "ok", Effects, TRUE)       \* PING, LIST: never gated
           /\ UNCHANGED <<now, stored, registered, files, running, sBucket, fBucket, accS, accF>>

Request(r) ==
    /\ running
    /\ CASE r.cmd = "STORE" -> Store(r)
         [] r.cmd \in {"FETCH-STREAM", "FETCH-OUT"} -> Fetch(r)
         [] r.cmd = "STOP" -> Stop(r)
         [] OTHER -> Open(r)

Advance == /\ now' = now + 1
           /\ accS' = [a \in Addrs |-> LET keep(t) == now + 1 - t < Window IN SelectSeq(accS[a], keep)]   \* older ones can never share a window again
           /\ accF' = [a \in Addrs |-> LET keep(t) == now + 1 - t < Window IN SelectSeq(accF[a], keep)]
           /\ obs' = [k |-> "adv"]
           /\ UNCHANGED <<stored, registered, files, running, sBucket, fBucket>>

\* ---- framing family: what the handlers produce and what the client makes of the bytes
Seed(c) == /\ running /\ stored' = stored \cup {c} /\ registered' = registered \cup {c} /\ obs' = [k |-> "seed"]
           /\ UNCHANGED <<now, files, running, sBucket, fBucket, accS, accF>>
Frame(cmd, resp) ==
    /\ running
    /\ obs.k # "frame"      \* these requests change nothing but obs: exploring one after another adds no state
    /\ \E order \in OrdersOf(DOMAIN resp.fields) :
         LET got == Parse(WireOf(resp, order))
         IN obs' = [k |-> "frame", cmd |-> cmd, prod |-> Norm(resp), got |-> Norm(got), live |-> stored, listed |-> Listed(got)]
    /\ UNCHANGED <<now, stored, registered, files, running, sBucket, fBucket, accS, accF>>
EntriesOf(cs) == Flat([i \in 1..Len(cs) |-> <<IdTok(cs[i]), ",", "sz", "NL">>])
ListResp(cs) == Resp(TRUE, [k \in {<<"CODE">>, <<"COUNT">>, <<"ENTRIES">>} |->
                              IF k = <<"CODE">> THEN <<"OK_LIST">> ELSE IF k = <<"COUNT">> THEN <<Digits[Len(cs) + 1]>> ELSE EntriesOf(cs)], FALSE, <<>>)
List == \E cs \in OrdersOf(stored) : Frame("LIST", ListResp(cs))
Defaults(v, w) == Frame("DEFAULTS", Resp(TRUE, [k \in {<<"CODE">>, <<"V">>, <<"W">>} |->
                              IF k = <<"CODE">> THEN <<"OK_DEFAULTS">> ELSE IF k = <<"V">> THEN ValueTable[v] ELSE ValueTable[w]], FALSE, <<>>))
Status(ws) == Frame("STATUS", Resp(TRUE, [k \in {<<"CODE">>, <<"WARNINGS">>, <<"CONFLICT">>} |->
                              IF k = <<"CODE">> THEN <<"OK_STATUS">> ELSE IF k = <<"CONFLICT">> THEN <<"0">>
                              ELSE Flat([i \in 1..Len(ws) |-> ValueTable[ws[i]] \o <<"NL">>])], FALSE, <<>>))
Payload(d) == Frame("PAYLOAD", Resp(TRUE, [k \in {<<"CODE">>} |-> <<"OK_FETCH">>], TRUE, DataTable[d]))

-----------------------------------------------------------------------------
(* CONTRACT as invariants                                                                     *)
IsResp == obs.k = "resp"
C27_Refused  == IsResp /\ obs.must => RefusedAuth(obs.status, obs.autherr, obs.wf)
C27_NoEffect == IsResp /\ obs.must => NoEffect(obs.before, Effects)
C28_Admission ==
    IsResp /\ obs.cmd = "STORE" /\ obs.status = "OK" =>
        /\ LenWithinCap("num", LenNum(obs.len), Cap)
        /\ TtlInWindow(TtlKind(obs.ttl), TtlNum(obs.ttl), MinTtl, MaxTtl)
        /\ PowAcceptable(IF PowOn THEN 1 ELSE 0, obs.pow = "valid")
C28_BeforeBody == IsResp /\ obs.cmd = "STORE" /\ ~LenWithinCap("num", LenNum(obs.len), Cap) => RefusedBeforeBody(TRUE, ~obs.bodyRead)
C28_Rate == ~TokenCfg => \A a \in Addrs : RateOk(accS[a], now, Window, Limit) /\ RateOk(accF[a], now, Window, FLimit)
C29_RoundTrip == obs.k = "frame" => SameResponse(obs.prod, obs.got)
C29_ListComplete == obs.k = "frame" /\ obs.cmd = "LIST" => ListComplete(obs.live, obs.listed)

-----------------------------------------------------------------------------
(* Model-checking harness: finite request alphabet per family; hist is hidden by VIEW so     *)
(* that -dump gives one replayable input sequence per distinct state.                         *)
Req(cmd, tok, ord, hdr, addr, ch, len, ttl, pow) ==
    [op |-> "req", cmd |-> cmd, tok |-> tok, ord |-> ord, hdr |-> hdr, addr |-> addr, ch |-> ch, len |-> len, ttl |-> ttl, pow |-> pow]
A0 == CHOOSE a \in Addrs : TRUE
GoodTok == IF TokenCfg THEN "exact" ELSE "none"
GoodPow == IF PowOn THEN "valid" ELSE "missing"
C0 == CHOOSE c \in Chunks : TRUE       \* the chunk STOREs carry; the other chunks stay unknown to the daemon
AuthActs == {Req(cmd, tok, IF tok = "none" THEN "mid" ELSE ord, "none", A0, ch, "under", "mid", GoodPow) :
               cmd \in {"FETCH-STREAM", "FETCH-OUT"}, tok \in TokVariants, ord \in Orders3, ch \in Chunks}
            \cup {Req("STORE", tok, IF tok = "none" THEN "mid" ELSE ord, "none", A0, C0, "under", "mid", GoodPow) :
               tok \in TokVariants, ord \in Orders3}
            \cup {Req("STOP", tok, IF tok = "none" THEN "mid" ELSE ord, "none", A0, CHOOSE c \in Chunks : TRUE, "under", "mid", GoodPow) :
               tok \in TokVariants, ord \in Orders3}
            \cup {Req(cmd, tok, "mid", "none", A0, CHOOSE c \in Chunks : TRUE, "under", "mid", GoodPow) : cmd \in {"LIST", "PING"}, tok \in {"none", "wrong"}}
AdmitActs == {Req("STORE", GoodTok, "mid", "none", A0, ch, len, ttl, pow) :
               ch \in Chunks, len \in {"under", "at", "over"},
               ttl \in {"absent", "below", "min", "mid", "max", "above", "garbage"}, pow \in {"valid", "invalid", "missing"}}
RateActs == {Req(cmd, IF hdr = "none" THEN "none" ELSE "wrong", "mid", hdr, a, ch, "under", "mid", GoodPow) :
               cmd \in RateCmds, hdr \in Hdrs, a \in Addrs, ch \in Chunks}
            \cup (IF RateBad THEN {Req("STORE", "none", "mid", "none", a, ch, len, ttl, pow) :
                                     a \in Addrs, ch \in Chunks, len \in {"under", "over"}, ttl \in {"mid", "above", "garbage"},
                                     pow \in {GoodPow} \cup (IF PowOn THEN {"invalid"} ELSE {})} ELSE {})
ReqActs == (IF "auth" \in Families THEN AuthActs ELSE {}) \cup (IF "admit" \in Families THEN AdmitActs ELSE {})
           \cup (IF "rate" \in Families THEN RateActs ELSE {})
WarnSeqs == UNION {[1..n -> 1..Len(ValueTable)] : n \in 0..2}

MCInit == Init /\ hist = <<>>
MCNext ==
    \/ \E r \in ReqActs : Request(r) /\ hist' = Append(hist, r)
    \/ "rate" \in Families /\ Advance /\ hist' = Append(hist, [op |-> "adv", d |-> 1])
    \/ /\ ("frame" \in Families \/ "seed" \in Families)
       /\ \E c \in Chunks : Seed(c) /\ hist' = Append(hist, [op |-> "seed", c |-> c])
    \/ /\ "frame" \in Families
       /\ \/ List /\ hist' = Append(hist, [op |-> "list"])
          \/ \E v \in 1..Len(ValueTable), w \in 1..Len(ValueTable) : Defaults(v, w) /\ hist' = Append(hist, [op |-> "defaults", v |-> v, w |-> w])
          \/ \E ws \in WarnSeqs : Status(ws) /\ hist' = Append(hist, [op |-> "status", ws |-> ws])
          \/ \E d \in 1..Len(DataTable) : Payload(d) /\ hist' = Append(hist, [op |-> "payload", d |-> d])
MCSpec == MCInit /\ [][MCNext]_vars
View == <<now, stored, registered, files, running, sBucket, fBucket, accS, accF, obs>>
Bound == now <= MaxNow /\ Len(hist) <= MaxHist

\* vacuity guards: each must be VIOLATED (= the scenario is reachable) in its MC_Control_reach_*.cfg
Reach_UnauthStopRefused == ~(IsResp /\ obs.cmd = "STOP" /\ obs.must /\ obs.status = "ERROR" /\ running)
Reach_UnauthFetchUnknownChunk == ~(IsResp /\ obs.cmd \in {"FETCH-STREAM", "FETCH-OUT"} /\ obs.must /\ obs.ch \notin stored /\ stored # {})
Reach_AuthorisedFetchOut == ~(IsResp /\ obs.cmd = "FETCH-OUT" /\ ~obs.must /\ obs.status = "OK" /\ files # {})
Reach_RateLimited == ~(IsResp /\ obs.why = "rate" /\ obs.hdr # "none")
Reach_SlidingWindow == ~(IsResp /\ obs.cmd \in RateCmds /\ obs.status = "OK" /\ \E k \in BucketKeys : \E b \in {sBucket[k], fBucket[k]} : Len(b) >= 2 /\ b[1] < b[Len(b)])
Reach_OverCapRefused == ~(IsResp /\ obs.why = "too-large")
Reach_PowRefused == ~(IsResp /\ obs.why = "pow" /\ obs.ttl = "max" /\ obs.len = "at")
Reach_ListThree == ~(obs.k = "frame" /\ obs.cmd = "LIST" /\ Cardinality(obs.live) = 3 /\ obs.listed = obs.live)
Reach_MultiLineValue == ~(obs.k = "frame" /\ obs.cmd = "DEFAULTS" /\ \E key \in DOMAIN obs.got.fields : \E i \in 1..Len(obs.got.fields[key]) : obs.got.fields[key][i] = "NL")
=============================================================================
