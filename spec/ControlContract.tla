--------------------------- MODULE ControlContract ---------------------------
(* What C27, C28 and C29 fix about the daemon's control plane, as pure operators.  Used by   *)
(* the design model (Control.tla, as invariants) and by the trace specification              *)
(* (ControlTrace.tla, on the observations logged from the real ControlServer/ControlClient). *)
(* Where a statement is silent the operators are permissive (see the comments).              *)
EXTENDS Integers, Sequences, FiniteSets

-----------------------------------------------------------------------------
(* [C27] a configured control token gates STORE, FETCH (streamed or written to a daemon-side *)
(* path) and STOP.  A request "lacks the exact token" when it has no TOKEN header or the     *)
(* header's value differs from the configured token in any way.                               *)
Gated == {"STORE", "FETCH-STREAM", "FETCH-OUT", "STOP"}
MustRefuse(tokcfg, cmd, exact) == tokcfg /\ cmd \in Gated /\ ~exact

\* "refused with an authentication error": an error response; for a request that is otherwise
\* well formed the error must be the authentication error (a malformed request may be turned
\* down for its malformation first -- the statement does not order the two refusals).
RefusedAuth(status, autherr, wellformed) == status = "ERROR" /\ (wellformed => autherr)

\* "no effect": the observable projection <<stored, registered, files written, running>> is
\* what it was before the request.
NoEffect(before, after) == after = before

-----------------------------------------------------------------------------
(* [C28] admission of a STORE.  Only acceptance is constrained ("accepted only if").         *)
LenWithinCap(lenkind, len, cap) == lenkind = "num" /\ len <= cap
\* no TTL header: the daemon's default applies, which the configuration keeps in the window
TtlInWindow(ttlkind, ttl, min, max) == ttlkind = "absent" \/ (ttlkind = "num" /\ min <= ttl /\ ttl <= max)
PowAcceptable(powbits, powok) == powbits = 0 \/ powok

\* an over-cap STORE is refused before the body is read: the refusal reached a client that
\* had not sent a single body byte
RefusedBeforeBody(withheld, early) == withheld => early

(* rate limit, no token configured: per client address at most `limit` accepted requests in  *)
(* any window of length w.  times = the address's acceptance times (the newest included);    *)
(* a window is half open, so two acceptances exactly w apart are never in one window (the    *)
(* statement leaves that boundary open).                                                      *)
InWindow(times, t, w) == {i \in DOMAIN times : t - times[i] < w}
RateOk(times, t, w, limit) == Cardinality(InWindow(times, t, w)) <= limit

StoreWindowMs == 30000
StoreLimit == 6
FetchWindowMs == 30000
FetchLimit == 12

-----------------------------------------------------------------------------
(* [C29] the client's view of a response is the daemon's: every field the daemon produced    *)
(* arrives with exactly its value (multi-line values included), nothing else arrives, the    *)
(* payload is the payload; and a listing names every live local chunk.                        *)
FieldOk(present, exp, got) == present /\ got = exp
SameResponse(produced, parsed) == parsed = produced
ListComplete(live, listed) == live \subseteq listed
=============================================================================
