---------------------------- MODULE ControlTrace ----------------------------
(* Trace specification: validates an ndjson trace recorded by harness/control.cpp from a     *)
(* real Node + real ControlServer (raw-socket requests, events "req") and the real           *)
(* ControlClient / print_list_response (events "cresp") against the C27 / C28 / C29 contract. *)
(*                                                                                             *)
(* Ghost state per behaviour (reset .. reset): the daemon's configuration, the projection of   *)
(* its observable effects after the previous event (stored ids, registered manifests, files   *)
(* written on the daemon side, running), and per client address the times of accepted STOREs  *)
(* and streamed FETCHes.  The C27 and C29 clauses compare each event with the projection      *)
(* observed at the previous event, so one failure cannot cascade and they stay armed; a C28   *)
(* failure (the acceptance history is then off) suspends the C28 clauses until the next reset *)
(* (`poisoned` = the set of suspended properties).                                             *)
EXTENDS TraceKit, ControlContract

Addrs == 1..16
VARIABLES l, viol, poisoned,
          cfg, proj, accS, accF, stats
vars == <<l, viol, poisoned, cfg, proj, accS, accF, stats>>

NoCfg == [tokcfg |-> FALSE, cap |-> 0, min |-> 0, max |-> 0, powbits |-> 0]
ProjOf(e) == [ids |-> ArrSet(Arr(e.ids)), reg |-> ArrSet(Arr(e.reg)), files |-> ArrSet(Arr(e.files)),
              run |-> (e.stops = 0 /\ e.ping = 1 /\ e.srv = 1)]
Stats0 == [checked |-> 0, gated |-> 0, accepted |-> 0, ratelimited |-> 0, fields |-> 0, lists |-> 0]

Init == /\ l = 1 /\ viol = <<>> /\ poisoned = {}
        /\ cfg = NoCfg /\ proj = [ids |-> {}, reg |-> {}, files |-> {}, run |-> TRUE]
        /\ accS = [a \in Addrs |-> <<>>] /\ accF = [a \in Addrs |-> <<>>] /\ stats = Stats0

If(c, s) == IF c THEN s ELSE {}

\* ---- a raw request and the response it got
C27Clauses(e, after) ==
    LET must == MustRefuse(cfg.tokcfg, e.cmd, e.exact)
    IN  If(must /\ ~NoEffect(proj, after), {"C27.unauthenticated-effect/" \o e.cmd})
        \cup If(must /\ ~RefusedAuth(e.status, e.autherr, e.wf), {"C27.not-refused/" \o e.cmd})
C28Clauses(e) ==
    LET accepted == e.status = "OK"
        isStore  == e.cmd = "STORE"
        lenOk    == isStore /\ LenWithinCap(e.lenkind, e.len, cfg.cap)
        sTimes   == Append(accS[e.src], e.t)
        fTimes   == Append(accF[e.src], e.t)
    IN  If(isStore /\ accepted /\ ~lenOk, {"C28.accepted-over-cap"})
        \cup If(isStore /\ accepted /\ ~TtlInWindow(e.ttlkind, e.ttl, cfg.min, cfg.max), {"C28.accepted-bad-ttl"})
        \cup If(isStore /\ accepted /\ ~PowAcceptable(cfg.powbits, e.powok), {"C28.accepted-bad-pow"})
        \cup If(isStore /\ ~lenOk /\ ~RefusedBeforeBody(e.withheld, e.early), {"C28.body-read-before-refusal"})
        \cup If(isStore /\ accepted /\ ~cfg.tokcfg /\ ~RateOk(sTimes, e.t, StoreWindowMs, StoreLimit), {"C28.rate-limit-exceeded/store"})
        \cup If(e.cmd = "FETCH-STREAM" /\ accepted /\ ~cfg.tokcfg /\ ~RateOk(fTimes, e.t, FetchWindowMs, FetchLimit), {"C28.rate-limit-exceeded/fetch"})

\* ---- a response as the real ControlClient parsed it
Checks(e) == Arr(e.checks)
FieldClauses(e) == {"C29.field-mismatch/" \o Checks(e)[i].f : i \in {j \in DOMAIN Checks(e) : ~FieldOk(Checks(e)[j].present, Arr(Checks(e)[j].exp), Arr(Checks(e)[j].got))}}
ListClauses(e) == If(e.cmd = "LIST" /\ ~ListComplete(ArrSet(Arr(e.live)), ArrSet(Arr(e.printed))), {"C29.list-missing-chunk"})

Recent(ts, t) == LET keep(x) == t - x <= StoreWindowMs IN SelectSeq(ts, keep)   \* older acceptances can no longer share a window

Step(e) ==
  CASE e.op = "reset" ->
        /\ cfg' = [tokcfg |-> (e.tokcfg = 1), cap |-> e.cap, min |-> e.min, max |-> e.max, powbits |-> e.powbits]
        /\ proj' = ProjOf(e) /\ accS' = [a \in Addrs |-> <<>>] /\ accF' = [a \in Addrs |-> <<>>]
        /\ poisoned' = {} /\ UNCHANGED <<viol, stats>>
    [] e.op \in {"seed", "adv"} ->
        /\ proj' = ProjOf(e) /\ UNCHANGED <<viol, poisoned, cfg, accS, accF, stats>>
    [] e.op = "req" ->
        LET after    == ProjOf(e)
            b27      == C27Clauses(e, after)
            b28      == If("C28" \notin poisoned, C28Clauses(e))
            bad      == b27 \cup b28
            accepted == e.status = "OK"
        IN /\ proj' = after
           /\ accS' = IF e.cmd = "STORE" /\ accepted THEN [accS EXCEPT ![e.src] = Append(Recent(@, e.t), e.t)] ELSE accS
           /\ accF' = IF e.cmd = "FETCH-STREAM" /\ accepted THEN [accF EXCEPT ![e.src] = Append(Recent(@, e.t), e.t)] ELSE accF
           /\ viol' = IF bad = {} THEN viol ELSE Append(viol, Fail(l, bad, e))
           /\ poisoned' = poisoned \cup If(b28 # {}, {"C28"})
           /\ stats' = [stats EXCEPT !.checked = @ + 1,
                                     !.gated = @ + (IF MustRefuse(cfg.tokcfg, e.cmd, e.exact) THEN 1 ELSE 0),
                                     !.accepted = @ + (IF accepted /\ e.cmd \in {"STORE", "FETCH-STREAM", "FETCH-OUT", "STOP"} THEN 1 ELSE 0),
                                     !.ratelimited = @ + (IF e.code \in {"ERR_STORE_RATE_LIMITED", "ERR_FETCH_RATE_LIMITED"} THEN 1 ELSE 0)]
           /\ UNCHANGED cfg
    [] e.op = "cresp" ->
        LET bad == FieldClauses(e) \cup ListClauses(e)
        IN /\ proj' = ProjOf(e)
           /\ viol' = IF bad = {} THEN viol ELSE Append(viol, Fail(l, bad, e))
           /\ UNCHANGED poisoned
           /\ stats' = [stats EXCEPT !.checked = @ + 1, !.fields = @ + Len(Checks(e)), !.lists = @ + (IF e.cmd = "LIST" THEN 1 ELSE 0)]
           /\ UNCHANGED <<cfg, accS, accF>>
    [] OTHER -> UNCHANGED <<viol, poisoned, cfg, proj, accS, accF, stats>>

Next == l <= Len(T) /\ l' = l + 1 /\ Step(T[l])
Spec == Init /\ [][Next]_vars
Done == Report(l, viol, stats)
=============================================================================
