---------------------------- MODULE CryptoLemmas ----------------------------
(* Small in-spec lemmas about the executable references, checked exhaustively by TLC over   *)
(* the listed parameter ranges (one state per case, one invariant per lemma).               *)
(*                                                                                          *)
(*  C08  Pad        FIPS 180-4 5.1.1 shape of Sha256Pad for every length 0..260             *)
(*       Stream     design => contract for the incremental API: the update/finalize          *)
(*                  buffering of src/crypto/Sha256.cpp (transcribed below: 64-byte buffer,   *)
(*                  fill / flush loop, 0x80, extra block when more than 56 bytes are          *)
(*                  buffered, 64-bit length) hands the compression function exactly the       *)
(*                  blocks of Sha256Pad(msg), for every length 0..130 and EVERY split into    *)
(*                  three update calls at cut positions {0,1,55,56,63,64,65,len}              *)
(*       LongKey    HMAC(key, m) = HMAC(SHA256(key), m) for keys longer than 64 bytes, and    *)
(*                  HMAC(key, m) = HMAC(key padded with zeros to 64, m) for shorter keys      *)
(*  C09  Involution ChaCha20Xor applied twice is the identity (reference)                    *)
(*       Advance    the keystream of a long input is block(c) o block(c+1) o ..., with        *)
(*                  c+1 taken modulo 2^32 (2^32-1 is followed by 0), and the tail of an        *)
(*                  encryption equals the encryption of the tail with the advanced counter    *)
(*  C13  Envelope   a prefix followed by its reference HMAC satisfies the acceptance          *)
(*                  contract; flipping any single bit position class, dropping or adding a    *)
(*                  byte, or using another key falsifies it                                    *)
(* The module EXTENDS CryptoCases (byte filler Fill(n, tag) salted by CASES_SALT, Rep), so    *)
(* the same TLC run also writes the structured input cases when CASES_OUT is set.             *)
EXTENDS CryptoCases, ChaCha20

CONSTANT Group     \* "C08" | "C09" | "C13"

\* ------------------------------------------------------------------ C08.Pad
PadOk(n) ==
   LET p == Sha256Pad(Fill(n, 1))
       L == Len(p)
   IN /\ L % 64 = 0 /\ L >= n + 9 /\ L < n + 9 + 64
      /\ SubSeq(p, 1, n) = Fill(n, 1)
      /\ p[n + 1] = 128
      /\ \A i \in (n + 2)..(L - 8) : p[i] = 0
      /\ p[L - 7] = 0 /\ p[L - 6] = 0 /\ p[L - 5] = 0 /\ p[L - 4] = 0
      /\ ((p[L - 3] * 256 + p[L - 2]) * 256 + p[L - 1]) * 256 + p[L] = 8 * n

\* ------------------------------------------------------------------ C08.Stream
\* hasher state of the C++ class, with the compression function abstracted to "remember the block":
\*   buf (sequence of at most 63 buffered bytes), bits (bit_len_), out (blocks handed to transform)
Hasher0 == [buf |-> <<>>, bits |-> 0, out |-> <<>>]
\* Sha256::update(data): add the bit length, then repeatedly copy min(space, rest) bytes and flush a full buffer
UpdStep(st, dummy) ==
   IF st.rest = <<>> THEN st
   ELSE LET space == 64 - Len(st.buf)
            k == IF Len(st.rest) < space THEN Len(st.rest) ELSE space
            b2 == st.buf \o SubSeq(st.rest, 1, k)
        IN IF Len(b2) = 64 THEN [st EXCEPT !.buf = <<>>, !.out = Append(@, b2), !.rest = SubSeq(st.rest, k + 1, Len(st.rest))]
           ELSE [st EXCEPT !.buf = b2, !.rest = SubSeq(st.rest, k + 1, Len(st.rest))]
Update(h, data) ==
   IF data = <<>> THEN h
   ELSE LET s0 == [buf |-> h.buf, bits |-> h.bits + 8 * Len(data), out |-> h.out, rest |-> data]
            s1 == FoldLeft(UpdStep, s0, [j \in 1..((Len(data) \div 64) + 2) |-> j])
        IN [buf |-> s1.buf, bits |-> s1.bits, out |-> s1.out]
\* Sha256::finalize(): 0x80; if more than 56 bytes are buffered, zero-fill and flush; zero-fill to 56; 8 length bytes; flush
Finalize(h) ==
   LET b1 == Append(h.buf, 128)
       spill == Len(b1) > 56
       out1 == IF spill THEN Append(h.out, b1 \o Rep(64 - Len(b1), 0)) ELSE h.out
       b2 == IF spill THEN <<>> ELSE b1
       lenb == <<0, 0, 0, 0, (h.bits \div 16777216) % 256, (h.bits \div 65536) % 256, (h.bits \div 256) % 256, h.bits % 256>>
   IN Append(out1, b2 \o Rep(56 - Len(b2), 0) \o lenb)
BlocksOf(p) == [b \in 1..(Len(p) \div 64) |-> SubSeq(p, 64 * b - 63, 64 * b)]
Cuts(n) == {0, 1, 55, 56, 63, 64, 65, n} \cap (0..n)
StreamOk(n) ==
   LET m == Fill(n, 2)
       want == BlocksOf(Sha256Pad(m))
   IN \A a \in Cuts(n), b \in Cuts(n) : a <= b =>
         Finalize(Update(Update(Update(Hasher0, SubSeq(m, 1, a)), SubSeq(m, a + 1, b)), SubSeq(m, b + 1, n))) = want

\* ------------------------------------------------------------------ C08.LongKey
LKeyLens == <<0, 1, 31, 32, 63, 64, 65, 66, 100, 128, 131, 200>>
LongKeyOk(i) ==
   LET kl == LKeyLens[((i - 1) % Len(LKeyLens)) + 1]
       key == Fill(kl, 3 + i)
       msg == Fill((i * 29) % 150, 4 + i)
   IN IF kl > 64 THEN HMAC(key, msg) = HMAC(SHA256(key), msg) /\ HmacBlockKey(key) = SHA256(key) \o Rep(32, 0)
      ELSE HMAC(key, msg) = HMAC(key \o Rep(64 - kl, 0), msg) /\ SubSeq(HmacBlockKey(key), 1, kl) = key

\* ------------------------------------------------------------------ C09
LCounters == << <<0, 0>>, <<0, 1>>, <<32768, 0>>, <<65535, 65534>>, <<65535, 65535>>, <<0, 65535>>, <<32767, 65535>> >>
LLens == <<0, 1, 63, 64, 65, 128, 129, 200>>
CKey(i) == IF i % 4 = 0 THEN Rep(32, 0) ELSE Fill(32, 5 + i)
CNonce(i) == IF i % 3 = 0 THEN Rep(12, 255) ELSE Fill(12, 6 + i)
CCtr(i) == LCounters[((i - 1) % Len(LCounters)) + 1]
CLen(i) == LLens[(((i - 1) \div Len(LCounters)) % Len(LLens)) + 1]
InvolutionOk(i) ==
   LET p == Fill(CLen(i), 7 + i)
   IN ChaCha20Xor(CKey(i), CNonce(i), CCtr(i), ChaCha20Xor(CKey(i), CNonce(i), CCtr(i), p)) = p
Succ32(c) == IF c = <<65535, 65535>> THEN <<0, 0>> ELSE IF c[2] = 65535 THEN <<c[1] + 1, 0>> ELSE <<c[1], c[2] + 1>>
AdvanceOk(i) ==
   LET k == CKey(i)  n == CNonce(i)  c == CCtr(i)
       p == Fill(150, 8 + i)
       ct == ChaCha20Xor(k, n, c, p)
   IN /\ ChaCha20Keystream(k, n, c, 192) = ChaCha20Block(k, n, c) \o ChaCha20Block(k, n, Succ32(c)) \o ChaCha20Block(k, n, Succ32(Succ32(c)))
      /\ SubSeq(ct, 65, 150) = ChaCha20Xor(k, n, Succ32(c), SubSeq(p, 65, 150))
      /\ SubSeq(ct, 1, 64) = ChaCha20Xor(k, n, c, SubSeq(p, 1, 64))
      /\ ChaCha20Block(k, n, c) # ChaCha20Block(k, n, Succ32(c))

\* ------------------------------------------------------------------ C13
Accept(buf, key) == Len(buf) >= 32 /\ SubSeq(buf, Len(buf) - 31, Len(buf)) = HMAC(key, SubSeq(buf, 1, Len(buf) - 32))
PLens == <<0, 1, 2, 15, 66, 100>>
FlipBit(s, i, bit) == [s EXCEPT ![i] = @ ^^ P2[bit + 1]]
EnvelopeOk(i) ==
   LET pl == PLens[((i - 1) % Len(PLens)) + 1]
       key == Fill(IF i % 5 = 0 THEN 70 ELSE 32, 9 + i)
       p == Fill(pl, 10 + i)
       buf == p \o HMAC(key, p)
       L == Len(buf)
       spots == {1, pl, pl + 1, L} \cap (1..L)
   IN /\ Accept(buf, key)
      /\ \A s \in spots : ~Accept(FlipBit(buf, s, (s + i) % 8), key)
      /\ ~Accept(SubSeq(buf, 1, L - 1), key) /\ ~Accept(buf \o <<0>>, key) /\ ~Accept(<<buf[L]>> \o SubSeq(buf, 1, L - 1), key)
      /\ ~Accept(buf, FlipBit(key, 1 + (i % Len(key)), i % 8)) /\ (pl > 0 => ~Accept(SubSeq(buf, L - 31, L), key))

\* ------------------------------------------------------------------ model
Kinds == CASE Group = "C08" -> {"pad", "stream", "longkey"}
           [] Group = "C09" -> {"involution", "advance"}
           [] Group = "C13" -> {"envelope"}
Count(k) == CASE k = "pad" -> 261 [] k = "stream" -> 131 [] k = "longkey" -> 24
              [] k = "involution" -> 56 [] k = "advance" -> 14 [] k = "envelope" -> 6

VARIABLES kind, i
vars == <<kind, i>>
\* the cases of a kind are walked in Lanes interleaved chains so that TLC's workers share them; every chain starts at a
\* dummy index <= 0 (no lemma applies there) because TLC evaluates initial states sequentially
Lanes == 8
Init == kind \in Kinds /\ i \in (1 - Lanes)..0
Next == i + Lanes <= Count(kind) /\ i' = i + Lanes /\ UNCHANGED kind
Spec == Init /\ [][Next]_vars

L_Pad == (kind = "pad" /\ i >= 1) => PadOk(i - 1)
L_Stream == (kind = "stream" /\ i >= 1) => StreamOk(i - 1)
L_LongKey == (kind = "longkey" /\ i >= 1) => LongKeyOk(i)
L_Involution == (kind = "involution" /\ i >= 1) => InvolutionOk(i)
L_Advance == (kind = "advance" /\ i >= 1) => AdvanceOk(i)
L_Envelope == (kind = "envelope" /\ i >= 1) => EnvelopeOk(i)
=============================================================================
