---------------------------- MODULE CryptoTrace ----------------------------
(* Trace specification for C08 / C09 / C13: every event recorded by harness/crypto.cpp      *)
(* carries the inputs given to the real code and the outputs it produced; here the digest,  *)
(* tag or keystream is recomputed with the executable references (Sha256, Hmac, ChaCha20)   *)
(* and compared.  Events are independent (pure functions), so nothing is ever poisoned:     *)
(* every failing event is reported.  Clause ids:                                            *)
(*   C08.sha256-mismatch            Sha256::digest(msg) differs from FIPS 180-4              *)
(*   C08.sha256-mismatch/split      one-shot is right, some split into update calls differs  *)
(*   C08.hmac-mismatch[/long-key]   HmacSha256::compute differs from RFC 2104 (key > 64: /long-key) *)
(*   C08.verify-accepts-wrong-tag   verify() returned true for a tag that is not the 32-byte HMAC *)
(*   C08.verify-rejects-correct-tag verify() returned false for exactly the 32-byte HMAC     *)
(*   C09.keystream-mismatch[/counter-wrap]   ChaCha20::apply differs from RFC 8439 (/counter-wrap: *)
(*                                  the block counter passes 2^32-1 inside this input)       *)
(*   C09.not-involution             apply(apply(x)) differs from x                           *)
(*   C09.keystream-mismatch/encrypt_with_key, /decrypt_with_key   the CryptoManager entry    *)
(*                                  points with counter = LE32(chunk id[0..3]) and the nonce used *)
(*   C09.not-involution/with_key    decrypt_with_key(encrypt_with_key(p)) differs from p     *)
(*   C13.accepted-bad-mac           decode_signed returned a message although the buffer is  *)
(*                                  shorter than 32 bytes or its last 32 bytes are not        *)
(*                                  HMAC(key, preceding bytes)                                *)
(*   C13.accepted-undecodable       ... although the preceding bytes do not decode            *)
(*   C13.rejected-good              decode_signed refused a buffer whose MAC is right and     *)
(*                                  whose preceding bytes decode                              *)
(*   C13.returned-differs           the message returned is not the decoding of those bytes   *)
(* "Those bytes decode" is taken from the real plain decoder (logged as dec): what decodes   *)
(* is the business of C15/C16, not of C13.                                                   *)
EXTENDS TraceKit, Hmac, ChaCha20

VARIABLES l, viol, nviol, stats, res
vars == <<l, viol, nviol, stats, res>>

MaxReported == 60     \* failing events listed in the result per lane (all are counted in nviol)

\* Events are independent, so the trace is validated in Lanes interleaved lanes (lane k handles lines k, k+Lanes, ...):
\* TLC explores the lanes as separate behaviours, in parallel with -workers; each lane prints its own VERIF_RESULT and
\* checks/crypto.py adds them up.  LANES unset = one lane = the usual single pass.
Lanes == IF "LANES" \in DOMAIN IOEnv THEN atoi(IOEnv.LANES) ELSE 1

\* counters of what the REFERENCE saw (cok: candidate tags equal to the reference tag; smacok: buffers whose MAC is right;
\* sgood: MAC right and prefix decodes; sundec: MAC right, prefix does not decode); vacc / sacc: accepted by the code
Stat0 == [sha |-> 0, splits |-> 0, hmac |-> 0, cands |-> 0, cok |-> 0, vacc |-> 0, chacha |-> 0, wrap |-> 0, blocks |-> 0,
          withkey |-> 0, signed |-> 0, sacc |-> 0, smacok |-> 0, sgood |-> 0, sundec |-> 0]

Init == l \in 1..Lanes /\ viol = <<>> /\ nviol = 0 /\ stats = Stat0 /\ res = [bad |-> {}, a |-> 0, b |-> 0]

Bytes(x) == Arr(x)
Seqs(x) == Arr(x)

\* -------------------------------------------------------------------- C08
ShaBad(e) ==
   LET ref == SHA256(Bytes(e.msg))
       digs == Seqs(e.digs)
   IN IF Bytes(e.one) # ref THEN {"C08.sha256-mismatch"}
      ELSE IF \E i \in DOMAIN digs : Bytes(digs[i]) # ref THEN {"C08.sha256-mismatch/split"}
      ELSE {}

\* result: <<set of failing clauses, number of candidates equal to the reference tag>>
HmacBad(e) ==
   LET key == Bytes(e.key)
       ref == HMAC(key, Bytes(e.msg))
       cands == Seqs(e.cands)
       acc == Seqs(e.acc)
   IN <<(IF Bytes(e.tag) = ref THEN {} ELSE {IF Len(key) > 64 THEN "C08.hmac-mismatch/long-key" ELSE "C08.hmac-mismatch"})
      \cup (IF \E i \in DOMAIN cands : acc[i] = 1 /\ Bytes(cands[i]) # ref THEN {"C08.verify-accepts-wrong-tag"} ELSE {})
      \cup (IF \E i \in DOMAIN cands : acc[i] = 0 /\ Bytes(cands[i]) = ref THEN {"C08.verify-rejects-correct-tag"} ELSE {}),
      Cardinality({i \in DOMAIN cands : Bytes(cands[i]) = ref})>>

\* -------------------------------------------------------------------- C09
NBlocks(n) == (n + 63) \div 64
\* the counter reaches 2^32-1 and another block follows
Wraps(ctr, n) == NBlocks(n) >= 2 /\ ctr[1] = 65535 /\ ctr[2] + NBlocks(n) > 65536

ChachaBad(e) ==
   LET inp == Bytes(e.inp)
       ctr == <<e.ctr[1], e.ctr[2]>>
       ref == ChaCha20Xor(Bytes(e.key), Bytes(e.nonce), ctr, inp)
   IN (IF Bytes(e.out) = ref THEN {} ELSE {IF Wraps(ctr, Len(inp)) THEN "C09.keystream-mismatch/counter-wrap" ELSE "C09.keystream-mismatch"})
      \cup (IF Bytes(e.out2) = inp THEN {} ELSE {"C09.not-involution"})
      \cup (IF "inpl" \in DOMAIN e /\ Bytes(e.inpl) # ref THEN {"C09.keystream-mismatch/in-place"} ELSE {})

\* a chunk-sized input: the logged blocks (first, second, middle, last two) are recomputed at counter + index; every other block
\* was compared by the driver with a one-block call at counter + index (piecediff = -1), and those calls are the short cases above
ChachaLongBad(e) ==
   LET ctr == <<e.ctr[1], e.ctr[2]>>
       bl == Arr(e.blocks)
       badBlocks == {k \in DOMAIN bl : Bytes(bl[k].out) # ChaCha20Xor(Bytes(e.key), Bytes(e.nonce), AddSmall32(ctr, bl[k].i), Bytes(bl[k].inp))}
   IN (IF badBlocks = {} /\ e.outlen = e.n /\ e.piecediff = -1 THEN {}
       ELSE {IF Wraps(ctr, e.n) THEN "C09.keystream-mismatch/long-input-counter-wrap" ELSE "C09.keystream-mismatch/long-input"})
      \cup (IF e.inv = 1 THEN {} ELSE {"C09.not-involution/long-input"})
      \cup (IF e.inplsame = 1 THEN {} ELSE {"C09.keystream-mismatch/in-place"})

CidCounter(cid) == CounterOfLE(cid[1], cid[2], cid[3], cid[4])

EncWkBad(e) ==
   LET pt == Bytes(e.pt)
       ref == ChaCha20Xor(Bytes(e.key), Bytes(e.nonce), CidCounter(Bytes(e.cid)), pt)
   IN (IF Bytes(e.ct) = ref THEN {} ELSE {"C09.keystream-mismatch/encrypt_with_key"})
      \cup (IF e.decok = 1 /\ Bytes(e.dec) = pt THEN {} ELSE {"C09.not-involution/with_key"})

DecWkBad(e) ==
   LET ct == Bytes(e.ct)
       ref == ChaCha20Xor(Bytes(e.key), Bytes(e.nonce), CidCounter(Bytes(e.cid)), ct)
   IN IF e.decok = 1 /\ Bytes(e.pt) = ref THEN {} ELSE {"C09.keystream-mismatch/decrypt_with_key"}

\* -------------------------------------------------------------------- C13
SignedMacOk(e) ==
   LET buf == Bytes(e.buf)
       n == Len(buf)
   IN n >= 32 /\ SubSeq(buf, n - 31, n) = HMAC(Bytes(e.key), SubSeq(buf, 1, n - 32))

SignedBad(e, macok) ==
   LET acc == e.acc = 1
       dec == e.dec = 1
   IN (IF acc /\ ~macok THEN {"C13.accepted-bad-mac"} ELSE {})
      \cup (IF acc /\ macok /\ ~dec THEN {"C13.accepted-undecodable"} ELSE {})
      \cup (IF ~acc /\ macok /\ dec THEN {"C13.rejected-good"} ELSE {})
      \cup (IF acc /\ macok /\ dec /\ e.same # 1 THEN {"C13.returned-differs"} ELSE {})

\* --------------------------------------------------------------------
Inc(s, k, d) == [s EXCEPT ![k] = @ + d]
Count(x, P(_)) == Cardinality({i \in DOMAIN x : P(x[i])})

\* verdict of one event: the failing clauses and the reference-side counters.  The (expensive) recomputation is
\* bound to the variable res first, so that it is evaluated exactly once per event; the other variables read res'.
Eval(e) ==
   CASE e.op = "sha" -> [bad |-> ShaBad(e), a |-> 0, b |-> 0]
     [] e.op = "hmac" -> LET hm == HmacBad(e) IN [bad |-> hm[1], a |-> hm[2], b |-> 0]
     [] e.op = "chacha" -> [bad |-> ChachaBad(e), a |-> 0, b |-> 0]
     [] e.op = "chachal" -> [bad |-> ChachaLongBad(e), a |-> 0, b |-> 0]
     [] e.op = "encwk" -> [bad |-> EncWkBad(e), a |-> 0, b |-> 0]
     [] e.op = "decwk" -> [bad |-> DecWkBad(e), a |-> 0, b |-> 0]
     [] e.op = "signed" -> LET macok == SignedMacOk(e) IN [bad |-> SignedBad(e, macok), a |-> IF macok THEN 1 ELSE 0, b |-> 0]
     [] OTHER -> [bad |-> {}, a |-> 0, b |-> 0]

Step(e) ==
   /\ res' = Eval(e)
   /\ stats' = CASE e.op = "sha" -> Inc(Inc(stats, "sha", 1), "splits", e.nsplits)
               [] e.op = "hmac" -> Inc(Inc(Inc(Inc(stats, "hmac", 1), "cands", Len(Seqs(e.cands))), "cok", res'.a), "vacc", Count(Seqs(e.acc), LAMBDA x : x = 1))
               [] e.op = "chacha" -> Inc(Inc(Inc(stats, "chacha", 1), "blocks", NBlocks(Len(Bytes(e.inp)))), "wrap",
                                         IF Wraps(<<e.ctr[1], e.ctr[2]>>, Len(Bytes(e.inp))) THEN 1 ELSE 0)
               [] e.op = "chachal" -> Inc(Inc(Inc(stats, "chacha", 1), "blocks", Len(Arr(e.blocks))), "wrap", IF Wraps(<<e.ctr[1], e.ctr[2]>>, e.n) THEN 1 ELSE 0)
               [] e.op \in {"encwk", "decwk"} -> Inc(stats, "withkey", 1)
               [] e.op = "signed" -> Inc(Inc(Inc(Inc(Inc(stats, "signed", 1), "sacc", e.acc), "smacok", res'.a),
                                         "sgood", IF res'.a = 1 /\ e.dec = 1 THEN 1 ELSE 0), "sundec", IF res'.a = 1 /\ e.dec # 1 THEN 1 ELSE 0)
               [] OTHER -> stats
   /\ nviol' = nviol + (IF res'.bad = {} THEN 0 ELSE 1)
   /\ viol' = IF res'.bad = {} \/ Len(viol) >= MaxReported THEN viol
              ELSE Append(viol, Fail(l, res'.bad, [op |-> e.op, src |-> Fld(e, "src", 0), kind |-> Fld(e, "kind", "")]))

Next == l <= Len(T) /\ l' = l + Lanes /\ Step(T[l])
Spec == Init /\ [][Next]_vars
Done == Report(l, viol, stats @@ [nviol |-> nviol])
=============================================================================
