--------------------------------- MODULE DH ---------------------------------
(* Executable reference of the Diffie-Hellman arithmetic of src/network/KeyExchange.cpp (C12):  *)
(* the multiplicative group modulo the Mersenne prime p = 2^31 - 1, generator 5.                *)
(*                                                                                            *)
(* TLC integers are 32-bit signed, so neither a product nor a sum of two residues fits.  All    *)
(* arithmetic is therefore built from ONE overflow-free primitive                               *)
(*     DhAddMod(x, y, m) = (x + y) mod m   for 0 <= x, y < m < 2^31   (never forms x + y)       *)
(* multiplication is double-and-add over the bits of one factor, exponentiation is square-and- *)
(* multiply over the bits of the exponent.  Numbers that may exceed 2^31 - 1 (exponents and     *)
(* candidate public values are uint32 in the code) are pairs <<hi16, lo16>> ("limbs").          *)
(*                                                                                            *)
(*   DhModExp(base, e, m)     base^e mod m ; base in 0..m-1, e = <<hi, lo>>, 2 <= m < 2^31     *)
(*   DhPublic(s)              5^s mod p                       (KeyExchange::compute_public)     *)
(*   DhShared(s, remote)      (remote mod p)^s mod p          (inside derive_shared_secret)     *)
(*   DhValidPublic(c)         1 < c < p                       (KeyExchange::validate_public)    *)
(*   DhBE32(w)                the 4 big-endian bytes of a limb pair                             *)
(* Lemmas: DHLemmas.tla (small primes exhaustively, against native arithmetic; samples at p).  *)
EXTENDS Integers, Sequences, SequencesExt, TLC

DhP == 2147483647
DhG == 5
DhLimbs(v) == <<v \div 65536, v % 65536>>            \* v in 0 .. 2^31-1
DhPow2 == <<1, 2, 4, 8, 16, 32, 64, 128, 256, 512, 1024, 2048, 4096, 8192, 16384, 32768,
            65536, 131072, 262144, 524288, 1048576, 2097152, 4194304, 8388608, 16777216, 33554432,
            67108864, 134217728, 268435456, 536870912, 1073741824>>       \* 2^0 .. 2^30
DhBit(v, i) == (v \div DhPow2[i + 1]) % 2                 \* bit i (0..30) of v in 0 .. 2^31-1

DhAddMod(x, y, m) == IF x >= m - y THEN x - (m - y) ELSE x + y

\* x * y mod m : st = <<acc, x * 2^i mod m>>
DhMulMod(x, y, m) ==
    FoldLeft(LAMBDA st, i : << IF DhBit(y, i) = 1 THEN DhAddMod(st[1], st[2], m) ELSE st[1], DhAddMod(st[2], st[2], m) >>,
             <<0, x>>, [i \in 1 .. 31 |-> i - 1])[1]

\* the 32 exponent bits, least significant first
DhExpBits(e) == [i \in 1 .. 32 |-> IF i <= 16 THEN DhBit(e[2], i - 1) ELSE DhBit(e[1], i - 17)]
\* square-and-multiply, least significant bit first: st = <<result, base^(2^i)>>
DhModExp(base, e, m) ==
    FoldLeft(LAMBDA st, bit : << IF bit = 1 THEN DhMulMod(st[1], st[2], m) ELSE st[1], DhMulMod(st[2], st[2], m) >>,
             <<1 % m, base>>, DhExpBits(e))[1]

\* value of a limb pair modulo m (the pair may denote up to 2^32 - 1)
DhModLimbs(w, m) == DhAddMod(DhMulMod(w[1] % m, 65536 % m, m), w[2] % m, m)

DhPublic(s) == DhModExp(DhG, s, DhP)
DhShared(s, remote) == DhModExp(DhModLimbs(remote, DhP), s, DhP)
DhValidPublic(c) == (c[1] > 0 \/ c[2] > 1) /\ (c[1] < 32767 \/ (c[1] = 32767 /\ c[2] < 65535))
DhValidScalar(s) == (s[1] > 0 \/ s[2] >= 2) /\ (s[1] < 32767 \/ (s[1] = 32767 /\ s[2] <= 65533))   \* 2 .. p - 2
DhBE32(w) == <<w[1] \div 256, w[1] % 256, w[2] \div 256, w[2] % 256>>
DhLess(v, w) == v[1] < w[1] \/ (v[1] = w[1] /\ v[2] < w[2])

\* known values (computed independently with Python's pow): p = 2^31 - 1
ASSUME DhModExp(5, DhLimbs(2), DhP) = 25
ASSUME DhModExp(2, DhLimbs(31), DhP) = 1                       \* 2^31 = p + 1
ASSUME DhModExp(5, DhLimbs(DhP - 1), DhP) = 1                  \* Fermat
ASSUME DhModExp(5, DhLimbs(123456789), DhP) = 1891294900
ASSUME DhModExp(5, DhLimbs(DhP - 2), DhP) = 858993459          \* 5^-1
ASSUME DhModExp(7, DhLimbs(2147483645), DhP) = 1840700269
ASSUME DhModExp(5, <<65535, 65535>>, DhP) = 125                \* exponent 2^32 - 1 = 2 (p - 1) + 3
ASSUME DhModExp(DhP - 1, DhLimbs(3), DhP) = DhP - 1
ASSUME DhModExp(123456789, DhLimbs(987654321), DhP) = 1077769156
ASSUME DhModLimbs(<<65535, 65535>>, DhP) = 1 /\ DhModLimbs(<<61035, 10240>>, DhP) = 1852516353   \* 2^32-1, 4 000 000 000
ASSUME DhMulMod(DhP - 1, DhP - 1, DhP) = 1 /\ DhAddMod(DhP - 1, DhP - 1, DhP) = DhP - 2
ASSUME ~DhValidPublic(<<0, 0>>) /\ ~DhValidPublic(<<0, 1>>) /\ DhValidPublic(<<0, 2>>) /\ DhValidPublic(<<32767, 65534>>)
       /\ ~DhValidPublic(<<32767, 65535>>) /\ ~DhValidPublic(<<32768, 0>>) /\ ~DhValidPublic(<<65535, 65535>>)
=============================================================================
