------------------------------ MODULE DHLemmas ------------------------------
(* Lemmas about DH!DhModExp checked by TLC.  One state per exponent ea in Exps; every invariant *)
(* quantifies over all partners eb in Exps.                                                     *)
(*   MC_DH_p31.cfg     Pm = 31, Gm = 3, Exps = 0..30   exhaustive: agreement (g^a)^b = (g^b)^a,   *)
(*                     = g^(ab mod (p-1)), and DhModExp / DhMulMod = native arithmetic            *)
(*   MC_DH_p46337.cfg  largest prime whose products fit TLC's integers: add/double vs native      *)
(*   MC_DH_p.cfg       Pm = 2^31 - 1, Gm = 5, boundary and spread exponents (no native reference: *)
(*                     agreement, exponent-product law, Fermat)                                   *)
EXTENDS DH, FiniteSets
CONSTANTS Pm, Gm, Exps, Native
VARIABLE ea

ExpSeq == SetToSeq(Exps)
Init == ea = 1
Next == ea < Len(ExpSeq) /\ ea' = ea + 1
Spec == Init /\ [][Next]_ea
EA == ExpSeq[ea]

RECURSIVE NaivePow(_, _)
NaivePow(g, k) == IF k = 0 THEN 1 % Pm ELSE (NaivePow(g, k - 1) * g) % Pm

Pub(v) == DhModExp(Gm % Pm, DhLimbs(v), Pm)
L_Agreement == \A eb \in Exps : DhModExp(Pub(EA), DhLimbs(eb), Pm) = DhModExp(Pub(eb), DhLimbs(EA), Pm)
\* (g^a)^b = g^(ab mod (p - 1))   (Pm prime)
L_ExpProduct == \A eb \in Exps : DhModExp(Pub(EA), DhLimbs(eb), Pm) = Pub(DhMulMod(EA % (Pm - 1), eb % (Pm - 1), Pm - 1))
L_Fermat == DhModExp(Pub(EA), DhLimbs(Pm - 1), Pm) = 1 % Pm
L_Range == Pub(EA) \in 0 .. Pm - 1
L_NativeMul == Native => \A eb \in Exps : DhMulMod(EA % Pm, eb % Pm, Pm) = ((EA % Pm) * (eb % Pm)) % Pm
                                         /\ DhAddMod(EA % Pm, eb % Pm, Pm) = ((EA % Pm) + (eb % Pm)) % Pm
L_NativePow == (Native /\ EA <= 64) => Pub(EA) = NaivePow(Gm % Pm, EA)
=============================================================================
