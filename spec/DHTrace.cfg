SPECIFICATION TSpec
INVARIANT Done
CHECK_DEADLOCK FALSE
