------------------------------ MODULE DHTrace ------------------------------
(* Trace specification for C12: validates an ndjson trace recorded by harness/dh.cpp from the   *)
(* real network::KeyExchange and from pairs of real Nodes performing Node::perform_handshake.   *)
(*                                                                                              *)
(* Clauses (what the statement fixes):                                                          *)
(*  C12.session-keys-differ         both nodes accepted the other's handshake but do not hold    *)
(*                                  one and the same 32-byte session key                         *)
(*  C12.key-independent-of-publics  two handshakes between different (unordered) pairs of        *)
(*                                  public keys produced the same session key                    *)
(*  C12.dh-agreement                derive_shared_secret(a, g^b) # derive_shared_secret(b, g^a)  *)
(*  C12.modexp-reference            a public value or a shared scalar is not the modular power   *)
(*                                  5^s, (g^b)^a mod 2^31-1 computed by DH!DhModExp              *)
(*  C12.invalid-public-accepted     a candidate outside (1, p) passes validate_public, or        *)
(*                                  perform_handshake accepts it / installs a session key        *)
(* Design-level agreement is only COUNTED (a different KDF would still satisfy the statement):   *)
(*   shared secret = SHA256(BE32(g^ab)) and                                                      *)
(*   session key   = HMAC(shared secret, BE32(min(pubA, pubB)) \o BE32(max(pubA, pubB)))         *)
(* recomputed with spec/Sha256.tla and spec/Hmac.tla (KdfShared / KdfSession below).             *)
EXTENDS TraceKit, DH, Hmac

VARIABLES l, viol, seen, nval, nvalAcc, nkx, nhs, nhsBoth, nbad, nbadAcc, nkdf, nkdfEq
vars == <<l, viol, seen, nval, nvalAcc, nkx, nhs, nhsBoth, nbad, nbadAcc, nkdf, nkdfEq>>
cnt == <<nval, nvalAcc, nkx, nhs, nhsBoth, nbad, nbadAcc, nkdf, nkdfEq>>

TInit == /\ l = 1 /\ viol = <<>> /\ seen = {}
         /\ nval = 0 /\ nvalAcc = 0 /\ nkx = 0 /\ nhs = 0 /\ nhsBoth = 0 /\ nbad = 0 /\ nbadAcc = 0 /\ nkdf = 0 /\ nkdfEq = 0

KdfShared(scalarValue) == SHA256(DhBE32(DhLimbs(scalarValue)))
KdfSession(shared, pubv, pubw) ==
    HMAC(shared, IF DhLess(pubw, pubv) THEN DhBE32(pubw) \o DhBE32(pubv) ELSE DhBE32(pubv) \o DhBE32(pubw))
PairOf(v, w) == IF DhLess(w, v) THEN <<w, v>> ELSE <<v, w>>

KxClauses(e) ==
    LET refPa == DhPublic(e.a) refPb == DhPublic(e.b)
        refS == DhShared(e.a, e.pb)
    IN (IF e.ka = e.kb /\ e.sab = e.sba THEN {} ELSE {"C12.dh-agreement"})
       \cup (IF e.pa = DhLimbs(refPa) /\ e.pb = DhLimbs(refPb) /\ e.kp = e.pa /\ e.sab = DhLimbs(refS) THEN {} ELSE {"C12.modexp-reference"})
       \cup (IF Len(e.ka) = 32 THEN {} ELSE {"C12.dh-agreement"})
KxKdfEq(e) == e.ka = KdfShared(DhShared(e.a, e.pb))

HsBoth(e) == e.oka /\ e.okb
HsClauses(e) ==
    (IF ~HsBoth(e) \/ (Len(Arr(e.keya)) = 32 /\ Arr(e.keya) = Arr(e.keyb)) THEN {} ELSE {"C12.session-keys-differ"})
    \cup (IF e.puba = DhLimbs(DhPublic(e.sca)) /\ e.pubb = DhLimbs(DhPublic(e.scb)) THEN {} ELSE {"C12.modexp-reference"})
    \cup (IF HsBoth(e) /\ \E s \in seen : s[2] = Arr(e.keya) /\ s[1] # PairOf(e.puba, e.pubb) THEN {"C12.key-independent-of-publics"} ELSE {})
HsKdfEq(e) == Arr(e.keya) = KdfSession(KdfShared(DhShared(e.sca, e.pubb)), e.puba, e.pubb)

ValClauses(e) == IF e.res /\ ~DhValidPublic(e.c) THEN {"C12.invalid-public-accepted"} ELSE {}
BadClauses(e) == IF ~DhValidPublic(e.c) /\ (e.ok \/ Len(Arr(e.key)) # 0 \/ e.marked) THEN {"C12.invalid-public-accepted"} ELSE {}

Note(bad, e) == IF bad = {} THEN viol ELSE Append(viol, Fail(l, bad, e))

Step(e) ==
  CASE e.op = "reset" -> seen' = {} /\ UNCHANGED <<viol, cnt>>
    [] e.op = "validate" ->
        /\ viol' = Note(ValClauses(e), e) /\ nval' = nval + 1 /\ nvalAcc' = nvalAcc + (IF e.res THEN 1 ELSE 0)
        /\ UNCHANGED <<seen, nkx, nhs, nhsBoth, nbad, nbadAcc, nkdf, nkdfEq>>
    [] e.op = "kx" ->
        /\ viol' = Note(KxClauses(e), e) /\ nkx' = nkx + 1
        /\ nkdf' = nkdf + 1 /\ nkdfEq' = nkdfEq + (IF KxKdfEq(e) THEN 1 ELSE 0)
        /\ UNCHANGED <<seen, nval, nvalAcc, nhs, nhsBoth, nbad, nbadAcc>>
    [] e.op = "hs" ->
        /\ viol' = Note(HsClauses(e), e) /\ nhs' = nhs + 1 /\ nhsBoth' = nhsBoth + (IF HsBoth(e) THEN 1 ELSE 0)
        /\ seen' = IF HsBoth(e) THEN seen \cup {<<PairOf(e.puba, e.pubb), Arr(e.keya)>>} ELSE seen
        /\ nkdf' = nkdf + (IF HsBoth(e) THEN 1 ELSE 0) /\ nkdfEq' = nkdfEq + (IF HsBoth(e) /\ HsKdfEq(e) THEN 1 ELSE 0)
        /\ UNCHANGED <<nval, nvalAcc, nkx, nbad, nbadAcc>>
    [] e.op = "hsbad" ->
        /\ viol' = Note(BadClauses(e), e) /\ nbad' = nbad + 1 /\ nbadAcc' = nbadAcc + (IF e.ok THEN 1 ELSE 0)
        /\ UNCHANGED <<seen, nval, nvalAcc, nkx, nhs, nhsBoth, nkdf, nkdfEq>>
    [] OTHER -> UNCHANGED <<viol, seen, cnt>>

TNext == l <= Len(T) /\ l' = l + 1 /\ Step(T[l])
TSpec == TInit /\ [][TNext]_vars
Done == Report(l, viol, [validate |-> nval, validate_accepted |-> nvalAcc, kx |-> nkx, handshakes |-> nhs, handshakes_mutual |-> nhsBoth,
                         candidates |-> nbad, candidates_accepted |-> nbadAcc, kdf_checked |-> nkdf, kdf_equal |-> nkdfEq])
=============================================================================
