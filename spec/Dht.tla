-------------------------------- MODULE Dht --------------------------------
(* Kademlia table: design level, shaped like src/dht/KademliaTable.cpp (one action per      *)
(* public member function; buckets_ as LRU sequences, table_ as chunk -> locator), with the *)
(* contract ghost state of C06 / C07 (DhtContract.tla) carried along and the contract       *)
(* clauses checked as invariants.                                                           *)
(*                                                                                           *)
(* Model ids are IdBits-bit integers (4 bits: all 16 ids), Bytes(v) = <<v>>; time is an     *)
(* integer tick (the harness maps a tick to one second).                                     *)
EXTENDS DhtContract, TLC

CONSTANTS Self,       \* the local id
          Peers,      \* ids the model registers / announces (may contain Self)
          Chunks,     \* chunk ids
          Ttls,       \* announcement lifetimes (0 = dead on arrival)
          RegTtls,    \* lifetimes given to register_peer; 0 = no expiry given (default time point: the code takes "now")
          Addrs,      \* addresses
          K,          \* bucket capacity (code: kBucketSize = 16)
          Cap,        \* providers kept per chunk (code: kMaxProviders = 20)
          IdBits,     \* id width of the model
          MaxNow, MaxHist,
          QueryTargets, \* targets for which C07_Closest is evaluated in every reachable state
          Routing,    \* BOOLEAN: FALSE = the bucket side is left out (provider-only configurations;
                      \* upsert_bucket never reads table_, the two halves of the class are independent)
          LocatorExpiryOverwrite  \* BOOLEAN deviation (historical code): add_contact overwrites
                                  \* locator.expires_at with the latest announcement's expiry

AllIds   == 0..(2^IdBits - 1)
Bytes(v) == <<v>>
HB(v)    == HighBit(Bytes(v), Bytes(Self))

VARIABLES now,
          bk,     \* DESIGN buckets_: bucket index -> sequence of [id, addr, exp], front = least recently touched
          loc,    \* DESIGN table_: chunk -> [has, exp, holders]   holders: set of <<peer, exp>>
          prov,   \* CONTRACT ghost (C06): chunk -> peer -> expiry of the most recent announcement
          reg,    \* CONTRACT ghost (C07): peer -> [addr, exp] newest registration (NoReg: none)
          obs     \* last call and what the contract needs to judge it

NoProv == -1
NoReg  == [addr |-> -1, exp |-> -1]
NoLoc  == [has |-> FALSE, exp |-> -1, holders |-> {}]

Init == /\ now = 0
        /\ bk = [b \in 0..(IdBits - 1) |-> <<>>]
        /\ loc = [c \in Chunks |-> NoLoc]
        /\ prov = [c \in Chunks |-> [p \in Peers |-> NoProv]]
        /\ reg = [p \in Peers |-> NoReg]
        /\ obs = [op |-> "init"]

-----------------------------------------------------------------------------
(* DESIGN helpers *)
Expired(x) == now >= x                                   \* expired(contact, now)
Max2(a, b) == IF a > b THEN a ELSE b
\* bucket_index_for: count the leading zero bits of (self xor peer); nullopt when equal
LeadingZeros(v) == CHOOSE z \in 0..IdBits : \/ (v = 0 /\ z = IdBits)
                                            \/ (v # 0 /\ z < IdBits /\ 2^(IdBits - z - 1) <= v /\ v < 2^(IdBits - z))
BucketIndex(p)  == IdBits - LeadingZeros(p ^^ Self) - 1        \* -1 = nullopt
Purge(s)        == SelectSeq(s, LAMBDA x : ~Expired(x.exp))
IndexOf(s, p)   == IF \E i \in 1..Len(s) : s[i].id = p THEN CHOOSE i \in 1..Len(s) : s[i].id = p ELSE 0
Without(s, i)   == [j \in 1..(Len(s) - 1) |-> IF j < i THEN s[j] ELSE s[j + 1]]

\* upsert_bucket(contact): purge the bucket, refresh in place (moved to the back) or insert,
\* dropping the front entry of a full bucket
Upsert(b, p, a, e) ==
    LET idx == BucketIndex(p) IN
    IF ~Routing \/ idx < 0 THEN b
    ELSE LET s1 == Purge(b[idx])
             i  == IndexOf(s1, p)
             s2 == IF i > 0 THEN Append(Without(s1, i), [s1[i] EXCEPT !.addr = a, !.exp = e])
                   ELSE Append(IF Len(s1) >= K THEN Tail(s1) ELSE s1, [id |-> p, addr |-> a, exp |-> e])
         IN [b EXCEPT ![idx] = s2]

\* the table as the set of routing entries the contract talks about
Entries(b) == UNION {{[b |-> i, pos |-> j, id |-> b[i][j].id, addr |-> b[i][j].addr, exp |-> b[i][j].exp] :
                        j \in 1..Len(b[i])} : i \in DOMAIN b}
\* holders of a locator as the function peer -> expiry the contract talks about
HoldersFn(c) == [p \in {h[1] : h \in loc[c].holders} |-> (CHOOSE h \in loc[c].holders : h[1] = p)[2]]
LiveHolders(l) == {h[1] : h \in {x \in l.holders : ~Expired(x[2])}}

\* what the contract needs to judge a table-changing call: computed from the pre/post state
Judge(b2, ins, insLive) ==
    IF ~Routing THEN [frame |-> {}, lost |-> {}, refreshed |-> FALSE] ELSE
    LET P == Entries(bk)
        C == Entries(b2)
        PL == IdsOf(Live7(P, now))
    IN [frame |-> FrameFails(HB, P, C, now, Self, K, ins, insLive),
        lost  |-> PL \ IdsOf(C),
        refreshed |-> ins # None /\ ins \in PL]

-----------------------------------------------------------------------------
(* DESIGN actions *)

\* add_contact(chunk, contact, ttl)
AddContact(c, p, a, ttl) ==
    LET e  == now + ttl
        b2 == Upsert(bk, p, a, e)
        h1 == {h \in loc[c].holders : h[1] # p} \cup {<<p, e>>}
        G  == [prov[c] EXCEPT ![p] = e]
    IN /\ bk' = b2
       /\ \E S \in SUBSET h1 :
            \* more than kMaxProviders: sort by expiry (descending), keep the first Cap (ties: any)
            /\ IF Cardinality(h1) > Cap
                 THEN Cardinality(S) = Cap /\ \A x \in S : \A y \in h1 \ S : x[2] >= y[2]
                 ELSE S = h1
            /\ loc' = [loc EXCEPT ![c] = [has |-> TRUE, holders |-> S,
                                          exp |-> IF LocatorExpiryOverwrite \/ ~loc[c].has THEN e ELSE Max2(loc[c].exp, e)]]
            /\ prov' = [prov EXCEPT ![c] = AfterCap(G, now, {h[1] : h \in {x \in S : ~Expired(x[2])}})]
       /\ reg' = [reg EXCEPT ![p] = [addr |-> a, exp |-> e]]
       /\ obs' = [op |-> "add", c |-> c, p |-> p, G |-> G] @@ Judge(b2, p, e > now)
       /\ UNCHANGED now

\* find_providers(chunk): purges the expired holders, erases an empty locator
FindProviders(c) ==
    /\ IF ~loc[c].has THEN /\ obs' = [op |-> "find", c |-> c, res |-> {}] /\ UNCHANGED loc
       ELSE LET h2 == {h \in loc[c].holders : ~Expired(h[2])} IN
            /\ loc' = [loc EXCEPT ![c] = IF h2 = {} THEN NoLoc ELSE [loc[c] EXCEPT !.holders = h2]]
            /\ obs' = [op |-> "find", c |-> c, res |-> {h[1] : h \in h2}]
    /\ UNCHANGED <<now, bk, prov, reg>>

\* withdraw_contact(chunk, provider)
Withdraw(c, p) ==
    /\ IF ~loc[c].has THEN UNCHANGED loc
       ELSE LET h2 == {h \in loc[c].holders : h[1] # p} IN
            loc' = [loc EXCEPT ![c] = IF h2 = {} THEN NoLoc ELSE [loc[c] EXCEPT !.holders = h2]]
    /\ prov' = [prov EXCEPT ![c][p] = NoProv]
    /\ obs' = [op |-> "withdraw", c |-> c, p |-> p]
    /\ UNCHANGED <<now, bk, reg>>

\* sweep_expired: sweep_buckets; per locator purge holders, erase when empty or at locator.expires_at
SweepExpired ==
    LET b2 == [i \in DOMAIN bk |-> Purge(bk[i])] IN
    /\ bk' = b2
    /\ loc' = [c \in Chunks |->
                 IF ~loc[c].has THEN loc[c]
                 ELSE LET h2 == {h \in loc[c].holders : ~Expired(h[2])} IN
                      IF h2 = {} \/ now >= loc[c].exp THEN NoLoc ELSE [loc[c] EXCEPT !.holders = h2]]
    /\ obs' = [op |-> "sweep"] @@ Judge(b2, None, FALSE)
    /\ UNCHANGED <<now, prov, reg>>

\* register_peer(contact): a default expiry is replaced by "now"
RegisterPeer(p, a, x) ==
    LET e  == now + x
        b2 == Upsert(bk, p, a, e)
    IN /\ bk' = b2
       /\ reg' = [reg EXCEPT ![p] = [addr |-> a, exp |-> IF x = 0 THEN Unspec ELSE e]]
       /\ obs' = [op |-> "reg", p |-> p] @@ Judge(b2, p, e > now)
       /\ UNCHANGED <<now, loc, prov>>

Advance(d) == /\ now' = now + d /\ obs' = [op |-> "adv"] /\ UNCHANGED <<bk, loc, prov, reg>>

\* closest_peers(target, limit) const: unexpired contacts of all buckets, sorted by XOR
\* distance (std::array comparison = numeric comparison of the XOR), first min(limit, n)
Candidates == {e.id : e \in Live7(Entries(bk), now)}
RECURSIVE SortByDist(_, _)
SortByDist(S, t) == IF S = {} THEN <<>>
                    ELSE LET m == CHOOSE x \in S : \A y \in S : (x ^^ t) <= (y ^^ t)
                         IN <<m>> \o SortByDist(S \ {m}, t)
ClosestPeers(t, k) == LET s == SortByDist(Candidates, t) IN SubSeq(s, 1, Min2(k, Len(s)))

-----------------------------------------------------------------------------
(* CONTRACT invariants *)

\* [C06] a lookup returns exactly the live, non-withdrawn providers
C06_FindExact == obs.op = "find" => FindFails(prov[obs.c], now, obs.res) = {}
\* [C06] what is stored agrees with the contract at every instant: in particular a sweep
\* (or any other call) never removes a provider before its own expiry
C06_HeldExact == \A c \in Chunks : HeldFails(prov[c], now, HoldersFn(c)) = {}
C06_SweepNeverRemovesLive ==
    obs.op = "sweep" => \A c \in Chunks : PLive(prov[c], now) \subseteq LiveHolders(loc[c])
\* [C06] capacity: at most Cap, those expiring last
C06_Cap == /\ \A c \in Chunks : Cardinality(LiveHolders(loc[c])) <= Cap
           /\ obs.op = "add" => CapFails(obs.G, now, Cap, LiveHolders(loc[obs.c])) = {}

\* [C07] bucket shape, single newest entry per contact
C07_Shape  == ShapeFails(HB, Entries(bk), Self, K) = {}
C07_Newest == NewestFails(Entries(bk), [p \in {q \in Peers : reg[q] # NoReg} |-> reg[p]]) = {}
\* [C07] contacts are lost only as the contract allows, registrations are kept
C07_Frame  == obs.op \in {"add", "reg", "sweep"} => obs.frame = {}
\* [C07] every closest-peer query (all targets, all limits) answers as the contract says
C07_Closest == \A t \in QueryTargets : \A k \in 0..(Cardinality(Candidates) + 1) :
                  ClosestFails(Bytes, Entries(bk), now, t, k, ClosestPeers(t, k)) = {}

-----------------------------------------------------------------------------
(* Model-checking harness *)
VARIABLE hist
vars == <<now, bk, loc, prov, reg, obs, hist>>

Acts == {[op |-> "add", c |-> c, p |-> p, a |-> a, ttl |-> t] : c \in Chunks, p \in Peers, a \in Addrs, t \in Ttls}
   \cup {[op |-> "withdraw", c |-> c, p |-> p] : c \in Chunks, p \in Peers}
   \cup {[op |-> "find", c |-> c] : c \in Chunks}
   \cup {[op |-> "reg", p |-> p, a |-> a, x |-> x] : p \in Peers, a \in Addrs, x \in RegTtls}
   \cup {[op |-> "sweep"], [op |-> "adv", d |-> 1]}

Do(a) == CASE a.op = "add"      -> AddContact(a.c, a.p, a.a, a.ttl)
           [] a.op = "withdraw" -> Withdraw(a.c, a.p)
           [] a.op = "find"     -> FindProviders(a.c)
           [] a.op = "reg"      -> RegisterPeer(a.p, a.a, a.x)
           [] a.op = "sweep"    -> SweepExpired
           [] a.op = "adv"      -> Advance(a.d)

MCInit == Init /\ hist = <<>>
\* the address of a registration is fixed by its position in the history (a refresh therefore
\* always brings a new address when Addrs has two elements) -- keeps the alphabet small
MCNext == \E a \in Acts : /\ (a.op \in {"add", "reg"} => a.a = Len(hist) % Cardinality(Addrs))
                          /\ (a.op = "reg" /\ a.p = Self => \A y \in RegTtls : a.x >= y)   \* one way of registering oneself is enough
                          /\ Do(a) /\ hist' = Append(hist, a)
MCSpec == MCInit /\ [][MCNext]_vars
View   == <<now, bk, loc, prov, reg, obs>>
Bound  == now <= MaxNow /\ Len(hist) <= MaxHist

\* Exhaustive lemma for closest_peers (MC_Dht_closest*.cfg): instead of the reachable tables,
\* EVERY well-shaped table over the 4-bit id space (any <= K ids per bucket; the ids in
\* DeadIds already expired) is an initial state, and C07_Closest is evaluated for every
\* target and every limit.  No transitions.
CONSTANT DeadIds
TableOf(S) == [b \in 0..(IdBits - 1) |->
                 LET s == SortByDist({x \in S : BucketIndex(x) = b}, 0)
                 IN [j \in 1..Len(s) |-> [id |-> s[j], addr |-> 0, exp |-> IF s[j] \in DeadIds THEN 0 ELSE 2]]]
BucketIds(b) == {x \in AllIds \ {Self} : BucketIndex(x) = b}
Choices(b)   == {s \in SUBSET BucketIds(b) : Cardinality(s) <= K}
LemmaInit == /\ IdBits = 4        \* the four quantifiers below are the four buckets of the 4-bit model
             /\ now = 1 /\ loc = [c \in Chunks |-> NoLoc] /\ prov = [c \in Chunks |-> [p \in Peers |-> NoProv]]
             /\ reg = [p \in Peers |-> NoReg] /\ obs = [op |-> "init"] /\ hist = <<>>
             /\ \E s0 \in Choices(0) : \E s1 \in Choices(1) : \E s2 \in Choices(2) : \E s3 \in Choices(3) :
                   bk = TableOf(s0 \cup s1 \cup s2 \cup s3)
LemmaSpec == LemmaInit /\ [][UNCHANGED vars]_vars

\* vacuity guards: each must be VIOLATED (= the scenario is reachable), see MC_Dht_reach_*.cfg
\* a sweep while a chunk has a live provider and a provider announced later that already expired
Reach_MixedTtlSweep ==
    ~(obs.op = "sweep" /\ \E c \in Chunks : \E p \in Peers : \E q \in Peers :
        /\ p # q /\ prov[c][p] > now /\ prov[c][q] >= 0 /\ prov[c][q] <= now
        /\ \E i \in 1..Len(hist) : \E j \in 1..Len(hist) :
              i < j /\ hist[i].op = "add" /\ hist[j].op = "add" /\ hist[i].c = c /\ hist[j].c = c
                    /\ hist[i].p = p /\ hist[j].p = q)
\* an announcement that overflows the capacity with a tie among the providers expiring first
Reach_CapTie ==
    ~(obs.op = "add" /\ Cardinality(PLive(obs.G, now)) > Cap
        /\ \E x \in PLive(obs.G, now) : \E y \in PLive(obs.G, now) : x # y /\ obs.G[x] = obs.G[y]
              /\ \A z \in PLive(obs.G, now) : obs.G[z] >= obs.G[x])
\* a lookup exactly at a provider's expiry
Reach_FindAtDeadline == ~(obs.op = "find" /\ \E p \in Peers : prov[obs.c][p] = now /\ now > 0)
\* a registration that pushes a live contact out of a full bucket
Reach_EvictLive == ~(obs.op \in {"add", "reg"} /\ obs.lost # {})
\* a refresh of a live contact that is not the most recently touched entry of its bucket
Reach_RefreshMoves == ~(obs.op = "reg" /\ obs.refreshed /\ \E i \in DOMAIN bk : Len(bk[i]) = 2 /\ bk[i][2].id = obs.p
                          /\ \E j \in 1..Len(hist) - 1 : hist[j].op \in {"add", "reg"} /\ hist[j].p = bk[i][1].id
                                /\ \E h \in 1..(j - 1) : hist[h].op \in {"add", "reg"} /\ hist[h].p = obs.p)
\* a query state in which a bucket still holds an expired contact next to live ones
Reach_DeadAmongLive == ~(\E e \in Entries(bk) : e.exp <= now /\ \E f \in Entries(bk) : f.exp > now /\ f.b = e.b)
=============================================================================
