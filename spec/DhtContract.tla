---------------------------- MODULE DhtContract ----------------------------
(* What C06 (provider records) and C07 (routing table) fix about a Kademlia table, as      *)
(* pure operators.  Every operator returns the SET of failing sub-clauses (empty = holds),  *)
(* so the design model (Dht.tla, invariants "... = {}") and the trace specification          *)
(* (DhtTrace.tla, clause ids "C06.<sub>" / "C07.<sub>") share one statement.                 *)
(*                                                                                           *)
(* Ids are handles (model: small integers, traces: interned indices); Bytes(h) gives the    *)
(* big-endian byte sequence of the id (1 byte carrying 4 bits in the model, 32 bytes in     *)
(* traces).  The XOR metric and the "highest differing bit" are computed bytewise.          *)
(* Time is an integer; a record with expiry x is live at now iff now < x.                    *)
EXTENDS Integers, Sequences, FiniteSets, Bitwise

Min2(a, b) == IF a < b THEN a ELSE b
Unspec  == -2000000001      \* "the caller gave no expiry" (register_peer with a default time point)
Dropped == -2000000000      \* ghost expiry of a provider that lost its slot to the capacity rule
None    == -1               \* "no id" handle

-----------------------------------------------------------------------------
(* XOR metric on byte sequences of equal length *)
XorB(a, b)    == [i \in 1..Len(a) |-> a[i] ^^ b[i]]
\* lexicographic order = numeric order of the big-endian numbers (decided at the first differing byte)
LexLess(x, y) == LET df == {i \in 1..Len(x) : x[i] # y[i]} IN
                 df # {} /\ LET d == CHOOSE i \in df : \A j \in df : i <= j IN x[d] < y[d]
Msb8(v)       == CHOOSE k \in 0..7 : 2^k <= v /\ v < 2^(k + 1)            \* v in 1..255
\* index (0 = least significant) of the highest bit in which a and b differ; -1 when a = b
HighBit(a, b) ==
    LET d == XorB(a, b)
        n == Len(a)
    IN IF \A i \in 1..n : d[i] = 0 THEN -1
       ELSE LET i == CHOOSE i \in 1..n : d[i] # 0 /\ \A j \in 1..(i - 1) : d[j] = 0
            IN (n - i) * 8 + Msb8(d[i])

-----------------------------------------------------------------------------
(* [C06]  prov : peer -> expiry of the peer's most recent announcement for one chunk       *)
(* (withdrawn: any value <= every clock value; lost to the capacity rule: Dropped)          *)
PLive(prov, now) == {p \in DOMAIN prov : prov[p] > now}

\* a lookup returned the set res of peers
FindFails(prov, now, res) ==
    (IF PLive(prov, now) \subseteq res THEN {} ELSE {"find-missed-live"})
    \cup (IF res \subseteq PLive(prov, now) THEN {} ELSE {"find-returned-dead"})

\* holders : peer -> expiry as stored for the chunk.  The live part of what is stored is
\* exactly the live providers, carrying the expiry of their most recent announcement.
HeldFails(prov, now, holders) ==
    LET hl == {p \in DOMAIN holders : holders[p] > now}
        pl == PLive(prov, now)
    IN (IF pl \subseteq hl THEN {} ELSE {"live-provider-lost"})
       \cup (IF hl \subseteq pl THEN {} ELSE {"phantom-provider"})
       \cup (IF \A p \in hl \cap pl : holders[p] = prov[p] THEN {} ELSE {"stale-expiry"})

\* capacity rule.  G = prov right after an announcement, kept = the live providers held
\* afterwards: at most cap; nobody is dropped while there is room; whoever is dropped does
\* not expire later than anyone kept (ties are free).
CapFails(G, now, cap, kept) ==
    LET L == PLive(G, now) IN
    (IF kept \subseteq L THEN {} ELSE {"phantom-provider"})
    \cup (IF Cardinality(kept) <= cap THEN {} ELSE {"cap-exceeded"})
    \cup (IF Cardinality(kept \cap L) >= Min2(cap, Cardinality(L)) THEN {} ELSE {"live-provider-lost"})
    \cup (IF \A x \in kept \cap L : \A y \in L \ kept : G[x] >= G[y] THEN {} ELSE {"cap-dropped-later-expiring"})
\* the ghost after the capacity rule picked kept
AfterCap(G, now, kept) == [p \in DOMAIN G |-> IF G[p] > now /\ p \notin kept THEN Dropped ELSE G[p]]

-----------------------------------------------------------------------------
(* [C07]  held : set of routing entries [b, pos, id, addr, exp]  (bucket, position in the   *)
(* bucket, id handle, address, expiry);  self : the local id;  K : bucket capacity          *)
Live7(held, now) == {e \in held : e.exp > now}
Count(held, b)   == Cardinality({e \in held : e.b = b})
IdsOf(held)      == {e.id : e \in held}

\* HB(id) = HighBit(Bytes(id), Bytes(self))  (callers may cache it per id)
ShapeFails(HB(_), held, self, K) ==
    (IF self \notin IdsOf(held) THEN {} ELSE {"self-held"})
    \cup (IF \A b \in {e.b : e \in held} : Count(held, b) <= K THEN {} ELSE {"bucket-overflow"})
    \cup (IF \A e \in held : e.id = self \/ e.b = HB(e.id) THEN {} ELSE {"wrong-bucket"})
    \cup (IF Cardinality(IdsOf(held)) = Cardinality(held) THEN {} ELSE {"duplicate-entry"})

\* reg : id -> [addr, exp] of the id's newest registration (exp = Unspec: none given)
NewestFails(held, reg) ==
    (IF IdsOf(held) \subseteq DOMAIN reg THEN {} ELSE {"phantom-contact"})
    \cup (IF \A e \in held : e.id \in DOMAIN reg =>
                (e.addr = reg[e.id].addr /\ (reg[e.id].exp = Unspec \/ e.exp = reg[e.id].exp))
          THEN {} ELSE {"stale-entry"})

\* one operation at time now took the table from prev to cur; ins = the id it registered or
\* refreshed (None: a sweep, a query ...), insLive = that registration is unexpired.
\* A live contact disappears only (a) because its own newest registration is dead, or
\* (b) to make room in its bucket for the registered id, the bucket being full afterwards.
\* A live registration is held afterwards, unless it is new and its bucket is full of others.
\* (Which entry makes room, and when dead entries are purged, is free.)
FrameFails(HB(_), prev, cur, now, self, K, ins, insLive) ==
    LET bIns == IF ins = None \/ ins = self THEN -2 ELSE HB(ins)
        curIds == IdsOf(cur)
        lost == {e \in Live7(prev, now) : e.id \notin curIds}
        wasLive == ins \in IdsOf(Live7(prev, now))
    IN (IF \A e \in lost : IF e.id = ins THEN ~insLive ELSE (e.b = bIns /\ Count(cur, bIns) >= K)
        THEN {} ELSE {"live-contact-lost"})
       \cup (IF ins = None \/ ins = self \/ ~insLive \/ ins \in curIds \/ (~wasLive /\ Count(cur, bIns) >= K)
             THEN {} ELSE {"insert-lost"})

\* a closest-peer query for target tg with limit k returned the id sequence res: the
\* min(k, n) nearest of the n live held contacts, in strictly increasing distance (so all
\* of res lie nearer than its last element, and everything left out lies farther than that)
ClosestFails(Bytes(_), held, now, tg, k, res) ==
    LET live == IdsOf(Live7(held, now))
        rs   == {res[i] : i \in 1..Len(res)}
        tb   == Bytes(tg)
        D    == [x \in live \cup rs |-> XorB(Bytes(x), tb)]
        n    == Len(res)
    IN (IF n = Min2(k, Cardinality(live)) THEN {} ELSE {"closest-count"})
       \cup (IF rs \subseteq live THEN {} ELSE {"closest-not-held-live"})
       \cup (IF \A i \in 1..(n - 1) : LexLess(D[res[i]], D[res[i + 1]]) THEN {} ELSE {"closest-order"})
       \cup (IF n = 0 \/ \A x \in live \ rs : LexLess(D[res[n]], D[x]) THEN {} ELSE {"closest-not-nearest"})
=============================================================================
