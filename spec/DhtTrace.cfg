SPECIFICATION Spec
CONSTANTS
  K = 16
  Cap = 20
INVARIANT Done
CHECK_DEADLOCK FALSE
