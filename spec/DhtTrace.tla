------------------------------ MODULE DhtTrace ------------------------------
(* Trace specification: validates an ndjson trace recorded from the real KademliaTable      *)
(* (harness/dht.cpp) against the C06 / C07 contract (DhtContract.tla).                      *)
(*                                                                                           *)
(* Events (t = virtual ms; ids are interned handles, handle 1 = the local id):               *)
(*   id n bytes | reset self | add c p a ttl | withdraw c p | find c res | sweep |           *)
(*   reg p a given exp | closest tg k res | adv ms                                           *)
(* every event but "id" carries the table after the call:                                    *)
(*   loc = [[chunk, locator expiry, [[peer, expiry]..]]..]   (snapshot_locators)             *)
(*   bk  = [[bucket, position, peer, address, expiry]..]     (buckets_)                      *)
(* The two properties keep separate ghost state and separate "poisoned" flags, so a         *)
(* failure of one does not blind the other for the rest of the behaviour.                    *)
EXTENDS TraceKit, DhtContract

CONSTANTS K,      \* bucket capacity fixed by C07 (16)
          Cap     \* providers kept per chunk fixed by C06 (20)

VARIABLES l, viol,
          p6, p7,      \* poisoned flags (C06 ghost / C07 ghost unreliable until the next reset)
          idtab,       \* handle -> [bytes, hb]   hb = HighBit(bytes, bytes of handle 1)
          prov,        \* C06 ghost: set of chunks seen -> (peer -> expiry)
          reg,         \* C07 ghost: peer -> [addr, exp] newest registration
          prevBk,      \* C07: routing entries logged by the previous event
          stats
vars == <<l, viol, p6, p7, idtab, prov, reg, prevBk, stats>>

Self == 1
EmptyFn == [x \in {} |-> 0]
Stats0 == [c6 |-> 0, c7 |-> 0, finds |-> 0, capped |-> 0, sweeps |-> 0, closest |-> 0, evicted |-> 0, refreshed |-> 0]

Init == /\ l = 1 /\ viol = <<>> /\ p6 = FALSE /\ p7 = FALSE
        /\ idtab = EmptyFn /\ prov = EmptyFn /\ reg = EmptyFn /\ prevBk = {} /\ stats = Stats0

Bytes(n) == idtab[n].bytes
HB(n)    == idtab[n].hb
Upd(f, k, v) == [x \in DOMAIN f \cup {k} |-> IF x = k THEN v ELSE f[x]]
MaxOf(S) == CHOOSE x \in S : \A y \in S : x >= y

\* ---- projections logged with an event -------------------------------------------------
BkSet(e) == LET a == Arr(e.bk) IN
            {[b |-> a[i][1], pos |-> a[i][2], id |-> a[i][3], addr |-> a[i][4], exp |-> a[i][5]] : i \in DOMAIN a}
LocChunks(e) == LET a == Arr(e.loc) IN {a[i][1] : i \in DOMAIN a}
\* holders of chunk c as peer -> expiry (a peer listed twice counts with its later expiry)
Holders(e, c) ==
    LET a  == Arr(e.loc)
        hs == UNION {{<<Arr(a[i][3])[j][1], Arr(a[i][3])[j][2]>> : j \in DOMAIN Arr(a[i][3])} : i \in {i \in DOMAIN a : a[i][1] = c}}
    IN [p \in {h[1] : h \in hs} |-> MaxOf({h[2] : h \in {g \in hs : g[1] = p}})]
ProvOf(pv, c) == IF c \in DOMAIN pv THEN pv[c] ELSE EmptyFn

\* [C06] what is stored must agree with the ghost pv, for every chunk stored or announced
HeldClauses(e, pv, tag) ==
    LET sub == UNION {HeldFails(ProvOf(pv, c), e.t, Holders(e, c)) : c \in LocChunks(e) \cup DOMAIN pv}
    IN {"C06." \o s \o "/" \o tag : s \in sub}
Pfx(p, S) == {p \o s : s \in S}

ResIds(e)  == LET r == Arr(e.res) IN {r[i][1] : i \in DOMAIN r}
ResSeq(e)  == LET r == Arr(e.res) IN [i \in DOMAIN r |-> r[i][1]]

\* ---- one event ------------------------------------------------------------------------
\* returns <<failing C06 clauses, ghost afterwards, 1 if the capacity rule had to drop somebody>>
C06Step(e) ==
    IF p6 THEN <<{}, prov, 0>> ELSE
    CASE e.op = "add" ->
           LET G    == Upd(ProvOf(prov, e.c), e.p, e.t + e.ttl)
               h    == Holders(e, e.c)
               kept == {p \in DOMAIN h : h[p] > e.t}
               pv   == Upd(prov, e.c, AfterCap(G, e.t, kept))
           IN <<Pfx("C06.", CapFails(G, e.t, Cap, kept)) \cup HeldClauses(e, pv, "add"), pv,
                IF Cardinality(PLive(G, e.t)) > Cap THEN 1 ELSE 0>>
      [] e.op = "withdraw" ->
           LET pv == Upd(prov, e.c, Upd(ProvOf(prov, e.c), e.p, Dropped))
           IN <<HeldClauses(e, pv, "withdraw"), pv, 0>>
      [] e.op = "find" ->
           <<Pfx("C06.", FindFails(ProvOf(prov, e.c), e.t, ResIds(e))) \cup HeldClauses(e, prov, "find"), prov, 0>>
      [] OTHER -> <<HeldClauses(e, prov, e.op), prov, 0>>

\* cur = BkSet(e); returns <<failing C07 clauses, reg afterwards, cur, 1 if a live contact made
\* room, 1 if a live contact was refreshed>>.  A call that registers nothing and leaves the table
\* exactly as the previous event logged it cannot change the verdict of the shape / newest /
\* frame clauses (nothing is lost, reg is unchanged): only the query clauses are evaluated then.
C07Step(e, cur) ==
    IF p7 THEN <<{}, reg, prevBk, 0, 0>> ELSE
    LET ins  == IF e.op \in {"add", "reg"} THEN e.p ELSE None
        insLive == IF e.op = "add" THEN e.ttl > 0 ELSE IF e.op = "reg" THEN (e.given /\ e.exp > e.t) ELSE FALSE
        rg   == IF e.op = "add" THEN Upd(reg, e.p, [addr |-> e.a, exp |-> e.t + e.ttl])
                ELSE IF e.op = "reg" THEN Upd(reg, e.p, [addr |-> e.a, exp |-> IF e.given THEN e.exp ELSE Unspec])
                ELSE reg
        r    == IF e.op = "closest" THEN Arr(e.res) ELSE <<>>
        qry  == IF e.op # "closest" THEN {}
                ELSE ClosestFails(Bytes, cur, e.t, e.tg, e.k, ResSeq(e))
                     \cup (IF {[id |-> r[i][1], addr |-> r[i][2], exp |-> r[i][3]] : i \in DOMAIN r}
                                \subseteq {[id |-> f.id, addr |-> f.addr, exp |-> f.exp] : f \in cur}
                           THEN {} ELSE {"closest-not-held-live"})
    IN IF ins = None /\ cur = prevBk
       THEN <<Pfx("C07.", qry), reg, cur, 0, 0>>
       ELSE <<Pfx("C07.", ShapeFails(HB, cur, Self, K) \cup NewestFails(cur, rg)
                          \cup FrameFails(HB, prevBk, cur, e.t, Self, K, ins, insLive) \cup qry),
              rg, cur,
              IF ins # None /\ (IdsOf(Live7(prevBk, e.t)) \ IdsOf(cur)) \ {ins} # {} THEN 1 ELSE 0,
              IF ins # None /\ ins \in IdsOf(Live7(prevBk, e.t)) THEN 1 ELSE 0>>

Step(e) ==
  CASE e.op = "id" ->
        \* handle 1 (the local id) opens a behaviour: the table of handles starts over
        /\ idtab' = IF e.n = 1 THEN (1 :> [bytes |-> e.bytes, hb |-> -1])
                    ELSE Upd(idtab, e.n, [bytes |-> e.bytes, hb |-> HighBit(e.bytes, idtab[1].bytes)])
        /\ UNCHANGED <<viol, p6, p7, prov, reg, prevBk, stats>>
    [] e.op = "reset" ->
        /\ Assert(e.self = Self, "harness convention: the local id is handle 1")
        /\ p6' = FALSE /\ p7' = FALSE /\ prov' = EmptyFn /\ reg' = EmptyFn /\ prevBk' = {}
        /\ UNCHANGED <<viol, idtab, stats>>
    [] OTHER ->
        \* (bounded quantifiers bind each computed value once)
        \E cur \in {BkSet(e)} : \E s6 \in {C06Step(e)} : \E s7 \in {C07Step(e, cur)} :
           LET bad == s6[1] \cup s7[1]
           IN /\ viol' = IF bad = {} THEN viol ELSE Append(viol, Fail(l, bad, [op |-> e.op, t |-> e.t]))
              /\ p6' = (p6 \/ s6[1] # {}) /\ p7' = (p7 \/ s7[1] # {})
              /\ prov' = s6[2] /\ reg' = s7[2] /\ prevBk' = s7[3]
              /\ stats' = [stats EXCEPT !.c6 = @ + (IF p6 THEN 0 ELSE 1), !.c7 = @ + (IF p7 THEN 0 ELSE 1),
                                        !.finds = @ + (IF e.op = "find" THEN 1 ELSE 0),
                                        !.sweeps = @ + (IF e.op = "sweep" THEN 1 ELSE 0),
                                        !.closest = @ + (IF e.op = "closest" THEN 1 ELSE 0),
                                        !.capped = @ + s6[3], !.evicted = @ + s7[4], !.refreshed = @ + s7[5]]
              /\ UNCHANGED idtab

Next == l <= Len(T) /\ l' = l + 1 /\ Step(T[l])
Spec == Init /\ [][Next]_vars
Done == Report(l, viol, stats)
=============================================================================
