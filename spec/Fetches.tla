------------------------------ MODULE Fetches ------------------------------
(* Fetch scheduler of a node (C24): design level shaped like src/core/Node.cpp              *)
(*   handle_announce -> schedule_assigned_fetch -> process_pending_fetches                  *)
(*   process_pending_fetches: pass 1 (completed / in flight / ready), pass 2 over the ready *)
(*       fetches (global in-flight cap, can_dispatch_fetch, dispatch_pending_fetch ->       *)
(*       schedule_next_fetch_attempt, note_dispatch_start), clear_pending_fetch             *)
(*   handle_chunk -> receive_chunk -> clear_pending_fetch                                   *)
(* plus the ghost state of the contract (FetchesContract.tla): the request frames sent.     *)
(* Time is relative (count-downs and ages), so the state space is finite.                   *)
EXTENDS Integers, Sequences, FiniteSets, TLC, FetchesContract

CONSTANTS Chunks, Peers,
          Limits,        \* values tried for fetch_max_parallel_requests (0 = unlimited)
          ALimits,       \* values tried for fetch_retry_attempt_limit (0 = unlimited)
          BInit, BMax,   \* fetch_retry_initial_backoff / fetch_retry_max_backoff
          Succ,          \* fetch_retry_success_interval
          Life,          \* [Chunks -> Nat] manifest lifetime
          Flaky,         \* peers whose session may come and go (send outcome)
          AnnBy,         \* model bound: [Chunks -> SUBSET Peers] providers that announce the chunk
          BadFrom,       \* model bound: chunks for which corrupted arrivals are tried
          MaxAtt,        \* model bound: a fetch is re-announced only while it has made fewer attempts
          MaxHist,       \* model bound: longest action sequence explored (state constraint of the safety runs)
          ReannounceLeak \* BOOLEAN deviation (historical): a re-announce of an in-flight fetch resets
                         \* in_flight without note_dispatch_end

None == [peer |-> 0]
NoReq == [peer |-> 0, age |-> 0]
Quiet == [k |-> "other", bo |-> TRUE, drop |-> TRUE]

VARIABLES limit, alimit,   \* configuration
          life,            \* [Chunks -> 0..Life[c]] remaining manifest lifetime (0 = expired)
          held,            \* [Chunks -> BOOLEAN] chunk held locally
          known,           \* [Chunks -> BOOLEAN] manifest cached (some announce was accepted)
          up,              \* [Peers -> BOOLEAN] the peer has a session (a send succeeds)
          pend,            \* DESIGN pending_chunk_fetches_ : [Chunks -> None | [peer, att, wait, infl]]
                           \*        wait = time to next_attempt (0 = due, -1 = never)
          cnt,             \* DESIGN active_peer_requests_ : [Peers -> Nat]
          rs, rl,          \* GHOST latest request frame per chunk, zero side / limit side: NoReq | [peer, age]
          lf,              \* GHOST [Chunks -> Nat] consecutive failed sends of the pending fetch
          last             \* abstract of the last step
dvars == <<limit, alimit, life, held, known, up, pend, cnt, rs, rl, lf, last>>

Max(a, b) == IF a > b THEN a ELSE b
Pending(pe) == {c \in Chunks : pe[c] # None}
Dec(cn, ps) == [p \in Peers |-> Max(0, cn[p] - Cardinality({c \in DOMAIN ps : ps[c] = p}))]   \* note_dispatch_end for the fetches in DOMAIN ps

Init == /\ limit \in Limits /\ alimit \in ALimits
        /\ life = Life /\ held = [c \in Chunks |-> FALSE] /\ known = [c \in Chunks |-> FALSE]
        /\ up = [p \in Peers |-> TRUE]
        /\ pend = [c \in Chunks |-> None] /\ cnt = [p \in Peers |-> 0]
        /\ rs = [c \in Chunks |-> NoReq] /\ rl = [c \in Chunks |-> NoReq] /\ lf = [c \in Chunks |-> 0]
        /\ last = Quiet

-----------------------------------------------------------------------------
(* DESIGN                                                                                   *)
\* schedule_next_fetch_attempt after a failed send (attempt number att)
FailDelay(att) ==
    IF alimit > 0 /\ att >= alimit THEN -1
    ELSE LET e == IF att > 0 THEN att - 1 ELSE 0
             d == (IF BInit <= 0 THEN 1 ELSE BInit) * Pow2(Min2(e, 8))
             capped == IF BMax > 0 /\ d > BMax THEN BMax ELSE d
         IN IF capped <= 0 THEN 1 ELSE capped

\* pass 2: s = [pend, cnt, ic, sent, exh, bo, lf]
RECURSIVE Loop(_, _)
Loop(s, ord) ==
    IF ord = <<>> \/ (limit # 0 /\ s.ic >= limit) THEN s
    ELSE LET c == Head(ord)
             e == s.pend[c] IN
         IF ~(limit = 0 \/ s.cnt[e.peer] < limit) THEN Loop(s, Tail(ord))       \* can_dispatch_fetch
         ELSE LET ok == up[e.peer]
                  att == e.att + 1
                  f == IF ok THEN 0 ELSE s.lf[c] + 1
                  w == IF ok THEN (IF Succ <= 0 THEN 1 ELSE Succ) ELSE FailDelay(att)
              IN Loop([s EXCEPT !.pend[c] = [peer |-> e.peer, att |-> att, wait |-> w, infl |-> ok],
                                !.cnt[e.peer] = IF ok THEN @ + 1 ELSE @,
                                !.ic = IF ok THEN @ + 1 ELSE @,
                                !.sent = IF ok THEN @ \cup {c} ELSE @,
                                !.exh = IF ~ok /\ alimit > 0 /\ att >= alimit THEN @ \cup {c} ELSE @,
                                !.bo = @ /\ (ok \/ w = -1 \/ DelayOk(BInit, BMax, att, f, w)),
                                !.lf[c] = f], Tail(ord))

Perms(S) == {q \in [1..Cardinality(S) -> S] : \A i, j \in 1..Cardinality(S) : i # j => q[i] # q[j]}

\* process_pending_fetches; the order of the ready fetches (provider count, remaining ttl, attempts,
\* enqueue time) is left open: any order
Process(pe, cn, r) ==
    LET completed == {c \in Pending(pe) : held[c] \/ life[c] = 0 \/ pe[c].wait = -1}
        rest == Pending(pe) \ completed
        ended == {c \in rest : pe[c].infl /\ pe[c].wait = 0}
        pe1 == [c \in Chunks |-> IF c \in ended THEN [pe[c] EXCEPT !.infl = FALSE] ELSE pe[c]]
        cn1 == Dec(cn, [c \in ended |-> pe[c].peer])
        ic == Cardinality({c \in rest : pe1[c].infl})
        ready == {c \in rest : ~pe1[c].infl /\ pe1[c].wait = 0}
    IN \E ord \in Perms(ready) :
         LET s == Loop([pend |-> pe1, cnt |-> cn1, ic |-> ic, sent |-> {}, exh |-> {}, bo |-> TRUE, lf |-> r.lf], ord)
             gone == completed \cup s.exh
             cn2 == Dec(s.cnt, [c \in {d \in gone : s.pend[d].infl} |-> s.pend[c].peer])      \* clear_pending_fetch
             pe2 == [c \in Chunks |-> IF c \in gone THEN None ELSE s.pend[c]]
         IN /\ pend' = pe2 /\ cnt' = cn2
            /\ lf' = [c \in Chunks |-> IF c \in gone THEN 0 ELSE s.lf[c]]
            /\ rs' = [c \in Chunks |-> IF c \in gone THEN NoReq ELSE IF c \in s.sent THEN [peer |-> pe2[c].peer, age |-> 0] ELSE r.rs[c]]
            /\ rl' = [c \in Chunks |-> IF c \in gone THEN NoReq ELSE IF c \in s.sent THEN [peer |-> pe2[c].peer, age |-> 0] ELSE r.rl[c]]
            /\ last' = [k |-> r.k, bo |-> s.bo,
                        drop |-> DropOk(Pending(pe2), {c \in Pending(pend) : held[c] \/ life[c] = 0 \/ (alimit > 0 /\ pend[c].att >= alimit /\ lf[c] > 0)})]

\* handle_announce (admissible, assigned shards present) -> schedule_assigned_fetch
Announce(p, c) ==
    /\ life[c] > 0 /\ p \in AnnBy[c] /\ (IF pend[c] = None THEN TRUE ELSE pend[c].att < MaxAtt)
    /\ known' = [known EXCEPT ![c] = TRUE]
    /\ IF held[c]
         THEN /\ last' = Quiet /\ UNCHANGED <<pend, cnt, rs, rl, lf>>
         ELSE LET e == pend[c]
                  cn1 == IF ~ReannounceLeak /\ e # None /\ e.infl THEN Dec(cnt, [d \in {c} |-> e.peer]) ELSE cnt
                  att == IF e = None \/ e.peer # p THEN 0 ELSE e.att
                  pe1 == [pend EXCEPT ![c] = [peer |-> p, att |-> att, wait |-> 0, infl |-> FALSE]]
              IN Process(pe1, cn1, [k |-> "ann", rs |-> rs, rl |-> [rl EXCEPT ![c] = NoReq], lf |-> [lf EXCEPT ![c] = IF att = 0 THEN 0 ELSE @]])
    /\ UNCHANGED <<limit, alimit, life, held, up>>

Tick == /\ Process(pend, cnt, [k |-> "tick", rs |-> rs, rl |-> rl, lf |-> lf])
        /\ UNCHANGED <<limit, alimit, life, held, known, up>>

\* handle_chunk -> receive_chunk (accepted iff the manifest is cached and unexpired and the payload is good)
Arrive(p, c, good) ==
    /\ known[c] /\ p \in AnnBy[c] /\ (good \/ c \in BadFrom)
    /\ IF good /\ life[c] > 0
         THEN /\ held' = [held EXCEPT ![c] = TRUE]
              /\ pend' = [pend EXCEPT ![c] = None]
              /\ cnt' = IF pend[c] # None /\ pend[c].infl THEN Dec(cnt, [d \in {c} |-> pend[c].peer]) ELSE cnt
              /\ rs' = [rs EXCEPT ![c] = NoReq] /\ rl' = [rl EXCEPT ![c] = NoReq] /\ lf' = [lf EXCEPT ![c] = 0]
         ELSE /\ rl' = [rl EXCEPT ![c] = IF @.peer = p THEN NoReq ELSE @]
              /\ UNCHANGED <<held, pend, cnt, rs, lf>>
    /\ last' = [Quiet EXCEPT !.k = "chunk"]
    /\ UNCHANGED <<limit, alimit, life, known, up>>

\* a request older than the retry interval is no longer outstanding (limit side: >=, zero side: >)
AgeReq(r, lim) == IF r = NoReq \/ r.age + 1 > lim THEN NoReq ELSE [r EXCEPT !.age = @ + 1]
Advance ==
    /\ life' = [c \in Chunks |-> Max(0, life[c] - 1)]
    /\ pend' = [c \in Chunks |-> IF pend[c] # None /\ pend[c].wait > 0 THEN [pend[c] EXCEPT !.wait = @ - 1] ELSE pend[c]]
    /\ rs' = [c \in Chunks |-> AgeReq(rs[c], Succ)] /\ rl' = [c \in Chunks |-> AgeReq(rl[c], Succ - 1)]
    /\ last' = Quiet
    /\ UNCHANGED <<limit, alimit, held, known, up, cnt, lf>>

Link(p, b) == /\ p \in Flaky /\ up[p] # b /\ up' = [up EXCEPT ![p] = b] /\ last' = Quiet
              /\ UNCHANGED <<limit, alimit, life, held, known, pend, cnt, rs, rl, lf>>

-----------------------------------------------------------------------------
(* CONTRACT (C24) over the ghost state                                                      *)
OutLimit == {<<c, rl[c].peer>> : c \in {d \in Chunks : rl[d] # NoReq}}
OutZero  == {rs[c].peer : c \in {d \in Chunks : rs[d] # NoReq}}

C24_Limit == FetchLimitOk(OutLimit, limit)
C24_InflightZero == last.k = "tick" => ZeroOk(OutZero, cnt, Peers)
C24_Backoff == last.bo
C24_Dropped == last.k = "tick" => last.drop
\* design sanity
D_CounterIsInflight == \A p \in Peers : cnt[p] = Cardinality({c \in Pending(pend) : pend[c].infl /\ pend[c].peer = p})
TypeOK == \A c \in Chunks : pend[c] = None \/ (pend[c].peer \in Peers /\ pend[c].att \in Nat /\ pend[c].wait \in -1..Max(Succ, Max(BMax, 256 * BInit)) /\ pend[c].infl \in BOOLEAN)

\* liveness: every pending fetch is eventually dropped
C24_Live_Dropped == \A c \in Chunks : (pend[c] # None) ~> (pend[c] = None)

-----------------------------------------------------------------------------
VARIABLE hist
vars == <<limit, alimit, life, held, known, up, pend, cnt, rs, rl, lf, last, hist>>
Step(H(_)) == \/ \E p \in Peers, c \in Chunks : \/ Announce(p, c) /\ H([op |-> "ann", p |-> p, c |-> c])
                                                \/ \E g \in BOOLEAN : Arrive(p, c, g) /\ H([op |-> "chunk", p |-> p, c |-> c, good |-> g])
              \/ Tick /\ H([op |-> "tick"])
              \/ Advance /\ H([op |-> "adv"])
              \/ \E p \in Peers, b \in BOOLEAN : Link(p, b) /\ H([op |-> "link", p |-> p, up |-> b])
Log(a) == hist' = Append(hist, a)
NoLog(a) == hist' = hist
MCInit == Init /\ hist = <<[op |-> "reset", flimit |-> limit, alimit |-> alimit]>>
MCNext == Step(Log)
MCSpec == MCInit /\ [][MCNext]_vars
View == dvars
Bound == Len(hist) <= MaxHist
LInit == Init /\ hist = <<>>
LiveSpec == LInit /\ [][Step(NoLog)]_vars /\ WF_vars(Tick /\ hist' = hist) /\ WF_vars(Advance /\ hist' = hist)

\* lifetimes used by the model configurations
Life86 == (1 :> 8) @@ (2 :> 6)
Life64 == (1 :> 6) @@ (2 :> 4)
Life9 == (1 :> 9)
Life6 == (1 :> 6)
Life53 == (1 :> 5) @@ (2 :> 3)
AnnAll == [c \in Chunks |-> Peers]
AnnSkew == (1 :> {1, 2}) @@ (2 :> {1})

\* vacuity guards (invariants that must be VIOLATED)
Reach_ReannounceInFlight == ~(last.k = "ann" /\ \E c \in Chunks : pend[c] # None /\ pend[c].att >= 2 /\ pend[c].infl /\ rs[c].age = 0)
Reach_Exhausted == ~(last.k = "tick" /\ \E c \in Chunks : known[c] /\ ~held[c] /\ life[c] > 0 /\ pend[c] = None /\ alimit = 3)
Reach_Doubled == ~(\E c \in Chunks : pend[c] # None /\ ~pend[c].infl /\ pend[c].att = 2 /\ pend[c].wait = 2 * BInit)
Reach_PeerAtLimit == ~(limit = 1 /\ \E c, d \in Chunks : c # d /\ pend[c] # None /\ pend[d] # None /\ pend[c].infl /\ ~pend[d].infl /\ pend[d].wait = 0 /\ pend[c].peer = pend[d].peer)
=============================================================================
