-------------------------- MODULE FetchesContract --------------------------
(* What C24 fixes about the fetch scheduler, as pure operators, shared by the design model *)
(* (Fetches.tla) and the trace specification (FetchesTrace.tla).                           *)
(*                                                                                         *)
(* A chunk request is evidenced by a request frame sent to the provider.  For chunk c only *)
(* the latest request counts (a newer request for c supersedes the older one).  Where the  *)
(* statement leaves open when a request stops being outstanding, the contract is           *)
(* permissive in both directions:                                                          *)
(*  - LIMIT side (smallest set): a request is no longer outstanding once the fetch is      *)
(*    dropped, the chunk arrived from that provider (even a rejected payload), the fetch   *)
(*    was re-announced, or the retry interval after a successful send has elapsed;         *)
(*  - ZERO side (largest set): a request is outstanding until the fetch is dropped or the  *)
(*    retry interval has strictly passed.  Only when that set is empty for a provider is   *)
(*    its in-flight count required to be zero, and only right after a scheduler run        *)
(*    (the scheduler cannot notice the passing of time before it runs).                    *)
EXTENDS Integers, FiniteSets

Min2(a, b) == IF a < b THEN a ELSE b
Pow2(n) == 2 ^ n

\* [C24] per-provider limit: out = set of <<chunk, peer>> requests outstanding (limit side); 0 = unlimited
FetchLimitOk(out, limit) == limit = 0 \/ \A r \in out : Cardinality({s \in out : s[2] = r[2]}) <= limit

\* [C24] the in-flight count of a provider with nothing outstanding (zero side) is zero
Stuck(outPeers, cnt, peers) == {p \in peers : p \notin outPeers /\ cnt[p] # 0}
ZeroOk(outPeers, cnt, peers) == Stuck(outPeers, cnt, peers) = {}

\* [C24] retry delays start at the initial back-off and double up to the maximum (max <= 0: no cap;
\* init <= 0 is read as 1).  k = number of the attempt that just failed.
Cap(d, max) == IF max > 0 /\ d > max THEN max ELSE d
Delay(init, max, k) == Cap((IF init <= 0 THEN 1 ELSE init) * Pow2(IF k <= 1 THEN 0 ELSE Min2(k - 1, 20)), max)
\* the statement does not say whether attempts whose send succeeded (and then went unanswered) take part
\* in the doubling: k = all attempts so far, f = consecutive failed sends; either reading is accepted.
\* (An implementation may also stop doubling at some large factor: accepted from 2^8 on.)
DelayOk(init, max, k, f, d) ==
    \/ d = Delay(init, max, k) \/ d = Delay(init, max, f)
    \/ (k > 9 /\ d = Delay(init, max, 9))

\* [C24] a scheduler run (tick) that starts with a pending fetch whose chunk is held locally, whose manifest
\* has expired or whose attempt limit is exhausted (limit > 0 reached and the last send failed) ends
\* without it
DropOk(pendingAfter, mustDrop) == pendingAfter \cap mustDrop = {}
=============================================================================
