---------------------------- MODULE FetchesTrace ----------------------------
(* Trace specification for C24: validates an ndjson trace recorded by harness/sched.cpp     *)
(* from a real Node against FetchesContract.  Ghost state: the request frames seen on the   *)
(* wire, the manifest expiry given at the announce, the clock; the in-flight counts and the *)
(* pending fetches (attempts, next attempt) are the friend view of active_peer_requests_ /  *)
(* pending_chunk_fetches_.  Times are milliseconds, configuration values seconds.           *)
EXTENDS TraceKit, FetchesContract

PeerIds == 1..8
ChunkIds == 1..8
NoReq == [peer |-> 0, t |-> 0]

VARIABLES l, viol, poisoned,
          flimit, alimit, binit, bmax, succ,   \* configuration of the behaviour
          exp,      \* [ChunkIds -> ms] manifest expiry (-1: unknown)
          ppf,      \* friend view of the pending fetches after the previous event (rows <<c, p, attempts, next, infl, exp>>)
          pheld,    \* chunks held after the previous event
          rs, rl,   \* [ChunkIds -> NoReq | [peer, t]] latest request frame per chunk (zero side / limit side)
          lf,       \* [ChunkIds -> Nat] consecutive failed sends of the pending fetch
          due,      \* [ChunkIds -> ms] no retry may be made by a tick before this time
          seen,     \* providers that were sent a request in this behaviour (statistics only)
          stats
vars == <<l, viol, poisoned, flimit, alimit, binit, bmax, succ, exp, ppf, pheld, rs, rl, lf, due, seen, stats>>

Stats0 == [requests |-> 0, failedsends |-> 0, reannounce_inflight |-> 0, arrivals |-> 0, dropdue |-> 0, zerochecks |-> 0,
           zerodue |-> 0, atlimit |-> 0, doubled |-> 0, capped |-> 0]
Init == /\ l = 1 /\ viol = <<>> /\ poisoned = FALSE
        /\ flimit = 0 /\ alimit = 0 /\ binit = 0 /\ bmax = 0 /\ succ = 0
        /\ exp = [c \in ChunkIds |-> -1] /\ ppf = <<>> /\ pheld = {}
        /\ rs = [c \in ChunkIds |-> NoReq] /\ rl = [c \in ChunkIds |-> NoReq]
        /\ lf = [c \in ChunkIds |-> 0] /\ due = [c \in ChunkIds |-> 0] /\ seen = {}
        /\ stats = Stats0

HasRow(rows, c) == \E i \in DOMAIN rows : rows[i][1] = c
RowOf(rows, c) == rows[CHOOSE i \in DOMAIN rows : rows[i][1] = c]
Chs(rows) == {rows[i][1] : i \in DOMAIN rows}
ReqSent(e, c) == \E i \in DOMAIN Arr(e.fr) : e.fr[i][2] = 3 /\ e.fr[i][3] = c
ReqPeer(e, c) == e.fr[CHOOSE i \in DOMAIN Arr(e.fr) : e.fr[i][2] = 3 /\ e.fr[i][3] = c][1]
Cnt(e) == [p \in PeerIds |-> IF \E i \in DOMAIN Arr(e.apr) : e.apr[i][1] = p /\ e.apr[i][2] # 0 THEN 1 ELSE 0]
SuccMs == 1000 * (IF succ <= 0 THEN 1 ELSE succ)
\* the delays (ms) the contract accepts after failed attempt number k with f consecutive failures
Delays(k, f) == {1000 * Delay(binit, bmax, k), 1000 * Delay(binit, bmax, f)} \cup (IF k > 9 THEN {1000 * Delay(binit, bmax, 9)} ELSE {})
MinOf(S) == CHOOSE x \in S : \A y \in S : x <= y

Step(e) ==
  CASE e.op = "reset" ->
        /\ flimit' = e.flimit /\ alimit' = e.alimit /\ binit' = e.binit /\ bmax' = e.bmax /\ succ' = e.succ
        /\ exp' = [c \in ChunkIds |-> -1] /\ ppf' = <<>> /\ pheld' = {}
        /\ rs' = [c \in ChunkIds |-> NoReq] /\ rl' = [c \in ChunkIds |-> NoReq]
        /\ lf' = [c \in ChunkIds |-> 0] /\ due' = [c \in ChunkIds |-> 0] /\ seen' = {}
        /\ poisoned' = FALSE /\ UNCHANGED <<viol, stats>>
    [] poisoned -> UNCHANGED <<viol, poisoned, flimit, alimit, binit, bmax, succ, exp, ppf, pheld, rs, rl, lf, due, seen, stats>>
    [] ~Has(e, "pf") -> UNCHANGED <<viol, poisoned, flimit, alimit, binit, bmax, succ, exp, ppf, pheld, rs, rl, lf, due, seen, stats>>
    [] OTHER ->
        LET now == e.t
            pf == Arr(e.pf)
            after == Chs(pf) \cap ChunkIds
            before == Chs(ppf) \cap ChunkIds
            isAnn == e.op = "ann" /\ e.c \in ChunkIds
            isTick == e.op = "tick"
            isChunk == e.op = "chunk" /\ e.c \in ChunkIds
            exp1 == IF e.op \in {"src", "ann"} /\ e.c \in ChunkIds THEN [exp EXCEPT ![e.c] = e.exp] ELSE exp
            \* attempts made in this event
            sent == {c \in ChunkIds : ReqSent(e, c)}
            \* the announce re-assigned the pending fetch to another provider (a refused announce changes nothing)
            reassigned == IF isAnn /\ e.c \in before /\ RowOf(ppf, e.c)[2] # e.p /\ (e.c \in after => RowOf(pf, e.c)[2] = e.p) THEN {e.c} ELSE {}
            attBefore(c) == IF c \in before /\ c \notin reassigned THEN RowOf(ppf, c)[3] ELSE 0
            failed == {c \in after : RowOf(pf, c)[3] > attBefore(c) /\ c \notin sent}
            lf1 == [c \in ChunkIds |-> IF c \notin after \/ c \in sent THEN 0
                                       ELSE IF c \in failed THEN (IF c \in reassigned THEN 0 ELSE lf[c]) + 1
                                       ELSE IF c \in reassigned THEN 0 ELSE lf[c]]
            badDelay == {c \in failed : LET r == RowOf(pf, c) IN
                            IF r[4] = -1 THEN ~(alimit > 0 /\ r[3] >= alimit)
                            ELSE (r[4] - now) \notin Delays(r[3], lf1[c])}
            early == IF isTick THEN {c \in sent \cup failed : now < due[c]} ELSE {}
            due1 == [c \in ChunkIds |-> IF c \in failed /\ RowOf(pf, c)[4] # -1 THEN now + MinOf(Delays(RowOf(pf, c)[3], lf1[c]))
                                        ELSE IF c \in sent \/ c \notin after \/ (isAnn /\ c = e.c) THEN 0 ELSE due[c]]
            \* ghost requests
            rs1 == [c \in ChunkIds |-> IF c \notin after THEN NoReq
                                       ELSE IF c \in sent THEN [peer |-> ReqPeer(e, c), t |-> now] ELSE rs[c]]
            rl1 == [c \in ChunkIds |-> IF c \notin after THEN NoReq
                                       ELSE IF c \in sent THEN [peer |-> ReqPeer(e, c), t |-> now]
                                       ELSE IF isAnn /\ c = e.c THEN NoReq
                                       ELSE IF isChunk /\ c = e.c /\ rl[c].peer = e.p THEN NoReq ELSE rl[c]]
            outLimit == {<<c, rl1[c].peer>> : c \in {d \in ChunkIds : rl1[d] # NoReq /\ now - rl1[d].t < SuccMs}}
            outZero == {rs1[c].peer : c \in {d \in ChunkIds : rs1[d] # NoReq /\ now - rs1[d].t <= SuccMs}}
            stuck == IF isTick THEN Stuck(outZero, Cnt(e), PeerIds) ELSE {}
            \* fetches that had to be gone after this scheduler run
            dHeld == IF isTick THEN before \cap pheld ELSE {}
            dExp  == IF isTick THEN {c \in before : exp[c] >= 0 /\ now >= exp[c]} ELSE {}
            dExh  == IF isTick THEN {c \in before : alimit > 0 /\ RowOf(ppf, c)[3] >= alimit /\ lf[c] > 0} ELSE {}
            bad == (IF sent = {} \/ FetchLimitOk(outLimit, flimit) THEN {} ELSE {"C24.limit-exceeded"})
                   \cup (IF stuck = {} THEN {} ELSE {"C24.inflight-leak"})
                   \cup (IF badDelay = {} THEN {} ELSE {"C24.backoff-delay"})
                   \cup (IF early = {} THEN {} ELSE {"C24.retry-early"})
                   \cup (IF DropOk(after, dHeld) THEN {} ELSE {"C24.not-dropped/held"})
                   \cup (IF DropOk(after, dExp) THEN {} ELSE {"C24.not-dropped/expired"})
                   \cup (IF DropOk(after, dExh) THEN {} ELSE {"C24.not-dropped/exhausted"})
        IN /\ exp' = exp1 /\ ppf' = pf /\ pheld' = ArrSet(Arr(e.held))
           /\ rs' = rs1 /\ rl' = rl1 /\ lf' = lf1 /\ due' = due1
           /\ seen' = seen \cup {ReqPeer(e, c) : c \in sent}
           /\ viol' = IF bad = {} THEN viol ELSE Append(viol, Fail(l, bad, e))
           /\ poisoned' = (bad # {})
           /\ stats' = [stats EXCEPT !.requests = @ + Cardinality(sent),
                                     !.failedsends = @ + Cardinality(failed),
                                     !.reannounce_inflight = @ + (IF isAnn /\ e.c \in before /\ RowOf(ppf, e.c)[5] = 1 THEN 1 ELSE 0),
                                     !.arrivals = @ + (IF isChunk THEN 1 ELSE 0),
                                     !.dropdue = @ + Cardinality(dHeld \cup dExp \cup dExh),
                                     !.zerochecks = @ + (IF isTick THEN 1 ELSE 0),
                                     !.zerodue = @ + (IF isTick /\ \E p \in seen : p \notin outZero THEN 1 ELSE 0),
                                     !.atlimit = @ + (IF sent # {} /\ flimit # 0 /\ \E r \in outLimit : Cardinality({s \in outLimit : s[2] = r[2]}) = flimit THEN 1 ELSE 0),
                                     !.doubled = @ + Cardinality({c \in failed : RowOf(pf, c)[3] >= 2 /\ RowOf(pf, c)[4] # -1 /\ Delay(binit, bmax, 2) > Delay(binit, bmax, 1)}),
                                     !.capped = @ + Cardinality({c \in failed : RowOf(pf, c)[4] # -1 /\ bmax > 0
                                                                   /\ (IF binit <= 0 THEN 1 ELSE binit) * Pow2(Min2(RowOf(pf, c)[3] - 1, 20)) > bmax})]
           /\ UNCHANGED <<flimit, alimit, binit, bmax, succ>>

Next == l <= Len(T) /\ l' = l + 1 /\ Step(T[l])
Spec == Init /\ [][Next]_vars
Done == Report(l, viol, stats)
=============================================================================
