------------------------------- MODULE GF256 -------------------------------
(* Executable reference of the arithmetic of GF(2)[x] / (poly), independent of the log/exp   *)
(* tables of src/crypto/Shamir.cpp: elements are the integers 0 .. 2^bits - 1 read as         *)
(* polynomials over GF(2); addition is XOR; multiplication is the carry-less (polynomial)     *)
(* product reduced modulo `poly` (shift-and-add, reducing whenever bit `bits` appears).       *)
(* The code uses kFieldPolynomial = 0x11D = x^8+x^4+x^3+x^2+1 (src/crypto/Shamir.cpp:10).     *)
(*                                                                                            *)
(* Why the lemmas of GF256Lemmas.tla make this "a genuine field": GF(2)[x]/(poly) is a        *)
(* commutative ring with 1 for ANY poly (quotient of a polynomial ring).  A finite            *)
(* commutative ring with 1 and without zero divisors is a field.  TLC checks "no zero         *)
(* divisors" over all 65 025 non-zero pairs, plus (redundantly) inverses, commutativity,      *)
(* associativity and distributivity computed by this very definition.                         *)
EXTENDS Integers, Sequences, Bitwise, SequencesExt, TLC

Poly256 == 285            \* 0x11D
Bits256 == 8

Add(a, b) == a ^^ b       \* characteristic 2: addition = subtraction = XOR

\* multiply by x and reduce
XTime(a, bits, poly) == LET d == 2 * a IN IF d >= 2 ^ bits THEN d ^^ poly ELSE d

\* Definition (shift-and-add): st = <<acc, a * x^i>>; bit i of b decides whether a * x^i is added.
MulP(a, b, bits, poly) ==
    FoldLeft(LAMBDA st, i : << IF (b \div (2 ^ i)) % 2 = 1 THEN st[1] ^^ st[2] ELSE st[1], XTime(st[2], bits, poly) >>,
             <<0, a>>, [i \in 1..bits |-> i - 1])[1]

Mul(a, b) == MulP(a, b, Bits256, Poly256)

\* ---- tables ---------------------------------------------------------------------------------
\* TLC evaluates a zero-arity constant definition once, so a module that needs many products
\* defines  MT == MulTableP(bits, poly)  and looks products up:  MT[a + 1][b + 1] = a * b.
\* The rows are built from earlier rows with  (2a') * b = x * (a' * b)  and  (a' + 1) * b =
\* a' * b + b  for even a'  (cheap for TLC: 65 536 one-step entries instead of 65 536 folds).
\* That the table equals the shift-and-add definition MulP on EVERY pair is not assumed: it is
\* lemma L_TableIsProduct of GF256Lemmas.tla, checked exhaustively.
MulTableP(bits, poly) ==
    LET n == 2 ^ bits IN
    FoldLeft(LAMBDA t, a : Append(t, IF a % 2 = 0 THEN TLCEval([b \in 1 .. n |-> XTime(t[a \div 2 + 1][b], bits, poly)])
                                                   ELSE TLCEval([b \in 1 .. n |-> t[a][b] ^^ (b - 1)])),
             << TLCEval([b \in 1 .. n |-> 0]) >>, [a \in 1 .. n - 1 |-> a])
\* InvTableP(bits, mt)[a] = the b with a * b = 1  (a in 1 .. 2^bits - 1; exists iff poly is irreducible)
InvTableP(bits, mt) ==
    LET n == 2 ^ bits IN TLCEval([a \in 1 .. n - 1 |-> CHOOSE b \in 1 .. n - 1 : mt[a + 1][b + 1] = 1])
=============================================================================
