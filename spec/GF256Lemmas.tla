---------------------------- MODULE GF256Lemmas ----------------------------
(* Field lemmas about GF256!MulP, checked exhaustively by TLC.  One state per element el;   *)
(* every invariant quantifies over all partners b (and c \in Sample), so a complete run       *)
(* covers all pairs (and all a x Sample x Sample triples).                                    *)
(*   MC_GF256.cfg            bits 8, poly 0x11D (the code's), Sample = 24 spread elements     *)
(*   MC_GF256_full.cfg       same, Sample = 0..255 (all 16.7 M triples; thorough tier)        *)
(*   MC_GF8.cfg              bits 3, poly 0xB (x^3+x+1): the field of the small Shamir model  *)
(*   MC_GF256_dev_reducible.cfg  poly 0x11B... is irreducible too, so the vacuity guard uses  *)
(*                           0x101 = (x+1)^8: L_NoZeroDivisors MUST be violated               *)
(* NB: the state variable must not share its name with a bound parameter of the extended     *)
(* module (a, b, ...): TLC then silently stops caching the constant table MT (measured:       *)
(* 5 s per state instead of 10 ms).                                                          *)
EXTENDS GF256, FiniteSets
CONSTANTS Bits, Poly, Sample
VARIABLE el

N == 2 ^ Bits
E == 0 .. (N - 1)
NZ == 1 .. (N - 1)
MT == MulTableP(Bits, Poly)
M(x, y) == MT[x + 1][y + 1]

Init == el = 0
Next == el < N - 1 /\ el' = el + 1
Spec == Init /\ [][Next]_el

\* the table is the shift-and-add product itself (row el recomputed by MulP, not looked up)
L_TableIsProduct == \A b \in E : M(el, b) = MulP(el, b, Bits, Poly)
L_Closed         == \A b \in E : M(el, b) \in E
L_NoZeroDivisors == el # 0 => \A b \in NZ : M(el, b) # 0
L_Inverse        == el # 0 => Cardinality({b \in NZ : M(el, b) = 1}) = 1
L_Commutative    == \A b \in E : M(el, b) = M(b, el)
L_OneZero        == M(el, 1) = el /\ M(1, el) = el /\ M(el, 0) = 0 /\ M(0, el) = 0
L_Distributive   == \A b \in Sample, c \in Sample : M(el, b ^^ c) = M(el, b) ^^ M(el, c)
L_Associative    == \A b \in Sample, c \in Sample : M(M(el, b), c) = M(el, M(b, c))
\* multiplication by a non-zero element permutes the field (what perfect secrecy rests on)
L_RowPermutation == el # 0 => {M(el, b) : b \in E} = E
=============================================================================
