------------------------------ MODULE Handshake ------------------------------
(* Inbound transport handshakes of one node (C20): contract level (HandshakeContract) and   *)
(* design level, shaped like Node::handle_transport_handshake + Node::perform_handshake     *)
(* (src/core/Node.cpp):                                                                      *)
(*                                                                                           *)
(*   handle_transport_handshake(p, {pub, nonce}):                                            *)
(*       if !validate_public(pub)            -> refuse              [E]                      *)
(*       if !perform_handshake(p, pub, nonce) -> refuse                                      *)
(*       key = session_shared_key(p); none -> refuse ; else ACK signed with key              *)
(*   perform_handshake(p, pub, nonce):                                                       *)
(*       rec = handshake_state_[p]                                                           *)
(*       if rec.success && now - rec.last_attempt < cooldown [&& same pub, same nonce]       *)
(*                                           -> true (nothing touched)   [S]                 *)
(*       !validate_public(pub)  -> rec := (now, fail), rep -= penalty,   false               *)
(*       !pow_valid             -> rec := (now, fail), rep -= 2*penalty, false               *)
(*       else key[p] := KDF(pub), sessions.register(p), rep += reward, rec := (now, ok), true*)
(*                                                                                           *)
(* Two deviations this tree had are switchable (MC_Handshake_dev_*.cfg must violate):        *)
(*   CooldownSkipsChecks  [S] short-circuits on ANY handshake of a peer that succeeded less  *)
(*                        than a cooldown ago (a different key / a bad nonce is accepted)    *)
(*   InvalidKeyNoPenalty  [E] refuses an invalid key without lowering the reputation         *)
(*                                                                                           *)
(* A public key is abstracted to its identity (1..NPub per peer, Bad = the invalid key); the *)
(* session key derived from pub k is written k.  powOK says whether the nonce is valid for   *)
(* (p, self, offered key); the driver realises TRUE by the nonce the peer's own solver finds *)
(* and FALSE by solved+1 (re-checked invalid).  Hence "same nonce as recorded" == same pub   *)
(* and powOK (a recorded success always had a valid nonce).                                  *)
EXTENDS Integers, Sequences, FiniteSets, TLC, HandshakeContract

CONSTANTS Peers, Pubs, Bad,      \* claimed peers; valid key identities; the invalid key
          Cooldown, MaxNow,
          RepFloor, RepMax, Reward, Penalty, \* reputation scale -RepFloor..RepMax (scaled down for the model)
          CooldownSkipsChecks, InvalidKeyNoPenalty,
          Versions,            \* protocol versions a handshake may request: subset of {"cur", "old"} ("old": below the version that introduced announce PoW)
          OldVersionSkipsPow,  \* deviation: the nonce of a handshake that requests an old version is checked at difficulty 0
          MaxLen   \* bound on the length of the action history (model bound)

None == 0     \* no key / no session (Pubs are positive)
RepMin == 0 - RepFloor

VARIABLES now,
          rec,      \* DESIGN handshake_state_: rec[p] = [has, ok, last, pub]
          key,      \* key_manager_: key[p] \in {None} \cup Pubs
          session,  \* sessions_.register_peer_key: session[p]
          rep,      \* reputation score
          obs       \* last call: what the contract looks at

NoRec == [has |-> FALSE, ok |-> FALSE, last |-> 0, pub |-> None]
Clamp(x) == IF x < RepMin THEN RepMin ELSE IF x > RepMax THEN RepMax ELSE x
Fail1(r) == Clamp(r - Penalty)

Init == /\ now = 0 /\ rec = [p \in Peers |-> NoRec]
        /\ key = [p \in Peers |-> None] /\ session = [p \in Peers |-> None]
        /\ rep = [p \in Peers |-> 0] /\ obs = [kind |-> "init"]

InCooldown(p) == rec[p].has /\ rec[p].ok /\ now - rec[p].last < Cooldown

Obs(p, pub, powOK, acc) ==
    [kind |-> "in", p |-> p, acc |-> acc, validPub |-> (pub # Bad), powOK |-> powOK,
     keyB |-> key, sesB |-> session, repB |-> rep,
     cd |-> InCooldown(p), same |-> (rec[p].pub = pub),
     edge |-> (rec[p].has /\ rec[p].ok /\ now - rec[p].last = Cooldown)]

Inbound(p, pub, nonceOK, ver) ==
    LET powOK == nonceOK \/ (OldVersionSkipsPow /\ ver = "old") IN      \* what the node's check says; the contract looks at nonceOK
    IF pub = Bad
      THEN \* [E] early refusal in handle_transport_handshake; handshake_state_ not touched
           /\ rep' = IF InvalidKeyNoPenalty THEN rep ELSE [rep EXCEPT ![p] = Fail1(@)]
           /\ obs' = Obs(p, pub, nonceOK, FALSE)
           /\ UNCHANGED <<now, rec, key, session>>
    ELSE IF InCooldown(p) /\ (CooldownSkipsChecks \/ (rec[p].pub = pub /\ powOK))
      THEN \* [S] repeat inside the cooldown: acknowledged under the existing key
           /\ obs' = Obs(p, pub, nonceOK, key[p] # None)
           /\ UNCHANGED <<now, rec, key, session, rep>>
    ELSE IF ~powOK
      THEN /\ rec' = [rec EXCEPT ![p] = [has |-> TRUE, ok |-> FALSE, last |-> now, pub |-> pub]]
           /\ rep' = [rep EXCEPT ![p] = Fail1(Fail1(@))]
           /\ obs' = Obs(p, pub, nonceOK, FALSE)
           /\ UNCHANGED <<now, key, session>>
    ELSE   /\ rec' = [rec EXCEPT ![p] = [has |-> TRUE, ok |-> TRUE, last |-> now, pub |-> pub]]
           /\ key' = [key EXCEPT ![p] = pub] /\ session' = [session EXCEPT ![p] = pub]
           /\ rep' = [rep EXCEPT ![p] = Clamp(@ + Reward)]
           /\ obs' = Obs(p, pub, nonceOK, TRUE)
           /\ UNCHANGED now

Advance(d) == /\ now' = now + d /\ obs' = [kind |-> "adv"]
              /\ UNCHANGED <<rec, key, session, rep>>

-----------------------------------------------------------------------------
(* CONTRACT (C20) over the last call *)
IsIn == obs.kind = "in"
C20_AcceptNeedsValidKey == IsIn => AcceptNeedsValidKey(obs.acc, obs.validPub)
C20_AcceptNeedsValidPow == IsIn => AcceptNeedsValidPow(obs.acc, obs.validPub, obs.powOK)
C20_AcceptRegisters     == IsIn => AcceptRegisters(obs.acc, key, obs.p, None) /\ AcceptRegisters(obs.acc, session, obs.p, None)
C20_RejectKeepsKeys     == IsIn => RejectKeepsKeys(obs.acc, obs.keyB, key) /\ RejectKeepsKeys(obs.acc, obs.sesB, session)
C20_RejectLowersRep     == IsIn => RejectLowersRep(obs.acc, obs.repB, rep, obs.p, RepMin)
\* design sanity: the session table follows the key manager
D_SessionIsKey == session = key

-----------------------------------------------------------------------------
VARIABLE hist
vars == <<now, rec, key, session, rep, obs, hist>>

Acts == {[op |-> "in", p |-> p, pub |-> k, pow |-> w, ver |-> v] : p \in Peers, k \in Pubs \cup {Bad}, w \in BOOLEAN, v \in Versions}
   \cup {[op |-> "adv", d |-> 1]}
Do(a) == CASE a.op = "in"  -> Inbound(a.p, a.pub, a.pow, a.ver)
           [] a.op = "adv" -> Advance(a.d)
MCInit == Init /\ hist = <<>>
MCNext == \E a \in Acts : Do(a) /\ hist' = Append(hist, a)
MCSpec == MCInit /\ [][MCNext]_vars
View == <<now, rec, key, session, rep, obs>>
Bound == now <= MaxNow /\ Len(hist) <= MaxLen

\* vacuity guards (each must be VIOLATED: the scenario is reachable)
Reach_OtherKeyInCooldown == ~(IsIn /\ obs.cd /\ ~obs.same /\ obs.validPub /\ obs.powOK /\ obs.acc)
Reach_BadNonceInCooldown == ~(IsIn /\ obs.cd /\ obs.same /\ ~obs.powOK /\ ~obs.acc)
Reach_RepeatInCooldown   == ~(IsIn /\ obs.cd /\ obs.same /\ obs.powOK /\ obs.acc /\ rep = obs.repB)
Reach_AtCooldownEnd      == ~(IsIn /\ obs.edge /\ ~obs.same /\ obs.acc)
Reach_RejectAtFloor      == ~(IsIn /\ ~obs.acc /\ obs.repB[obs.p] = RepMin)
Reach_BadKeyWithSession  == ~(IsIn /\ ~obs.validPub /\ obs.keyB[obs.p] # None /\ obs.cd)
=============================================================================
