-------------------------- MODULE HandshakeContract --------------------------
(* What C20 fixes about an inbound transport handshake, as pure operators.  Used by the   *)
(* design model (Handshake.tla, as invariants) and by the trace specification              *)
(* (HandshakeTrace.tla, on the observations logged from the real Node).                    *)
(*                                                                                         *)
(*   acc       the node acknowledged the handshake (an acceptance came back)               *)
(*   validPub  the offered public key is a valid group element (1 < pub < 2^31-1)          *)
(*   powOK     the offered nonce is valid for (claimed peer, this node, OFFERED key) at    *)
(*             the configured difficulty                                                   *)
(*   keyB/keyA the session key registered for every peer before / after the call          *)
(*   repB/repA reputation of every peer before / after the call                            *)
(*                                                                                         *)
(* The statement is an "only if" for acceptance, so nothing here ever demands acceptance;  *)
(* it does not say under which key an accepted handshake is registered either (that is    *)
(* C12), nor anything about time: the handshake cooldown is a design notion only.          *)
EXTENDS Integers, Sequences

\* [C20] accepted only with a valid key and a nonce valid for that key
AcceptNeedsValidKey(acc, validPub) == acc => validPub
AcceptNeedsValidPow(acc, validPub, powOK) == (acc /\ validPub) => powOK

\* [C20] accepting = acknowledging AND registering a session for the claimed peer
AcceptRegisters(acc, keyA, p, none) == acc => keyA[p] # none

\* [C20] a rejected handshake leaves every existing key / session as it was
RejectKeepsKeys(acc, keyB, keyA) == ~acc => keyA = keyB

\* [C20] ... and lowers the claimed peer's reputation (a score already at the floor of the
\* scale cannot go lower: the score is a clamped integer)
RejectLowersRep(acc, repB, repA, p, floor) == ~acc => (repA[p] < repB[p] \/ repB[p] <= floor)

\* the offered key as logged (4 bytes, big endian; TLC integers are 32-bit signed)
ValidPubBytes(b) ==
    /\ Len(b) = 4
    /\ b[1] < 128
    /\ LET v == ((b[1] * 256 + b[2]) * 256 + b[3]) * 256 + b[4] IN v > 1 /\ v < 2147483647
=============================================================================
