--------------------------- MODULE HandshakeTrace ---------------------------
(* Trace specification for C20: validates an ndjson trace recorded from a real Node        *)
(* (harness/admit.cpp, friend call of Node::handle_transport_handshake under the virtual    *)
(* clock) against HandshakeContract.  One "hs" event per inbound handshake:                 *)
(*   p      claimed peer (1-based index)                                                    *)
(*   pub    offered public key, 4 bytes big endian                                          *)
(*   pow    verdict of the node's own verifier on (claimed peer, this node, OFFERED key,    *)
(*          offered nonce) at the configured difficulty (what C19 is about)                 *)
(*   acc    an acceptance (ACK + session key) came back                                     *)
(*   keyB / keyA   Node::session_key(q) of every peer q before / after ([] = none)          *)
(*   repB / repA   Node::reputation_score(q) before / after                                 *)
(* The contract is time-free (the cooldown is a design notion), so "adv" events only move   *)
(* the clock of the real node.                                                              *)
EXTENDS TraceKit, HandshakeContract

RepFloor == -100     \* ReputationManager::kMinScore: the scale's floor

VARIABLES l, viol, poisoned, nacc, nrej,
          seen     \* clause ids already reported (one example per new clause keeps the report small)
vars == <<l, viol, poisoned, nacc, nrej, seen>>

Init == l = 1 /\ viol = <<>> /\ poisoned = FALSE /\ nacc = 0 /\ nrej = 0 /\ seen = {}

Keys(x) == [i \in DOMAIN Arr(x) |-> Arr(x[i])]

HsClauses(e) ==
    LET validPub == ValidPubBytes(Arr(e.pub))
        kB == Keys(e.keyB)  kA == Keys(e.keyA)
        rB == Arr(e.repB)   rA == Arr(e.repA)
    IN (IF AcceptNeedsValidKey(e.acc, validPub) THEN {} ELSE {"C20.accepted-invalid-key"})
       \cup (IF AcceptNeedsValidPow(e.acc, validPub, e.pow) THEN {} ELSE {"C20.accepted-bad-pow"})
       \cup (IF AcceptRegisters(e.acc, kA, e.p, <<>>) THEN {} ELSE {"C20.accept-without-session"})
       \cup (IF RejectKeepsKeys(e.acc, kB, kA) THEN {} ELSE {"C20.reject-touches-keys"})
       \cup (IF RejectLowersRep(e.acc, rB, rA, e.p, RepFloor) THEN {}
             ELSE {IF validPub THEN "C20.reject-no-penalty" ELSE "C20.reject-no-penalty/invalid-key"})

Step(e) ==
  CASE e.op = "reset" -> /\ poisoned' = FALSE /\ UNCHANGED <<viol, nacc, nrej, seen>>
    [] poisoned -> UNCHANGED <<viol, poisoned, nacc, nrej, seen>>
    [] e.op = "hs" ->
        LET bad == HsClauses(e)
        IN /\ viol' = IF bad \subseteq seen THEN viol ELSE Append(viol, Fail(l, bad, [p |-> e.p, k |-> Fld(e, "k", -1), pow |-> e.pow, acc |-> e.acc, src |-> Fld(e, "src", ""), t |-> e.t]))
           /\ seen' = seen \cup bad
           /\ poisoned' = FALSE     \* every event carries its own before/after: no need to suspend
           /\ nacc' = nacc + (IF e.acc THEN 1 ELSE 0) /\ nrej' = nrej + (IF e.acc THEN 0 ELSE 1)
    [] OTHER -> UNCHANGED <<viol, poisoned, nacc, nrej, seen>>

Next == l <= Len(T) /\ l' = l + 1 /\ Step(T[l])
Spec == Init /\ [][Next]_vars
Done == Report(l, viol, [accepted |-> nacc, rejected |-> nrej])
=============================================================================
