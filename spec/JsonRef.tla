------------------------------ MODULE JsonRef ------------------------------
(* Executable reference for RFC 8259 JSON texts given as byte sequences (shared by C37 and  *)
(* C38): a lexer (one FoldLeft over the bytes) that decodes strings -- all escapes, \uXXXX  *)
(* with surrogate pairs combined into one 4-byte UTF-8 sequence -- and a grammar check     *)
(* (one FoldLeft over the tokens, explicit stack) that also lists every member/element     *)
(* with its path, in document order.  No recursion, so nesting depth costs nothing.         *)
EXTENDS Integers, Sequences, FiniteSets, SequencesExt

IsWs(c) == c \in {32, 9, 10, 13}
IsDigit(c) == c >= 48 /\ c <= 57
HexVal(c) == IF IsDigit(c) THEN c - 48 ELSE IF c >= 97 /\ c <= 102 THEN c - 87 ELSE IF c >= 65 /\ c <= 70 THEN c - 55 ELSE -1
Utf8(cp) == IF cp < 128 THEN <<cp>>
            ELSE IF cp < 2048 THEN <<192 + (cp \div 64), 128 + (cp % 64)>>
            ELSE IF cp < 65536 THEN <<224 + (cp \div 4096), 128 + ((cp \div 64) % 64), 128 + (cp % 64)>>
            ELSE <<240 + (cp \div 262144), 128 + ((cp \div 4096) % 64), 128 + ((cp \div 64) % 64), 128 + (cp % 64)>>
IsHigh(u) == u >= 55296 /\ u <= 56319      \* D800..DBFF
IsLow(u) == u >= 56320 /\ u <= 57343       \* DC00..DFFF

(* ---- lexer -------------------------------------------------------------------------------- *)
(* SplitSurrogates = TRUE gives the historical decoding of src/core/UpdateCheck.cpp (every   *)
(* \uXXXX unit encoded on its own, a pair becomes two 3-byte sequences) -- used only by the   *)
(* design model of C38; the reference is Lex(s, FALSE).                                       *)
Tok(k, v) == [k |-> k, v |-> v]
L0 == [m |-> "ws", toks |-> <<>>, cur |-> <<>>, hex |-> 0, hn |-> 0, hi |-> 0, lone |-> FALSE, lit |-> <<>>, lp |-> 0, lk |-> "", err |-> ""]
Emit(st, k, v) == [st EXCEPT !.toks = Append(st.toks, Tok(k, v)), !.m = "ws", !.cur = <<>>]
Fail(st, why) == [st EXCEPT !.err = why]
LitTrue == <<116, 114, 117, 101>>
LitFalse == <<102, 97, 108, 115, 101>>
LitNull == <<110, 117, 108, 108>>

WsChar(st, c) ==
    IF IsWs(c) THEN st
    ELSE IF c = 123 THEN Emit(st, "{", <<>>) ELSE IF c = 125 THEN Emit(st, "}", <<>>)
    ELSE IF c = 91 THEN Emit(st, "[", <<>>) ELSE IF c = 93 THEN Emit(st, "]", <<>>)
    ELSE IF c = 58 THEN Emit(st, ":", <<>>) ELSE IF c = 44 THEN Emit(st, ",", <<>>)
    ELSE IF c = 34 THEN [st EXCEPT !.m = "str", !.cur = <<>>]
    ELSE IF c = 45 THEN [st EXCEPT !.m = "n-"] ELSE IF c = 48 THEN [st EXCEPT !.m = "n0"]
    ELSE IF c >= 49 /\ c <= 57 THEN [st EXCEPT !.m = "ni"]
    ELSE IF c = 116 THEN [st EXCEPT !.m = "lit", !.lit = LitTrue, !.lp = 1, !.lk = "t"]
    ELSE IF c = 102 THEN [st EXCEPT !.m = "lit", !.lit = LitFalse, !.lp = 1, !.lk = "f"]
    ELSE IF c = 110 THEN [st EXCEPT !.m = "lit", !.lit = LitNull, !.lp = 1, !.lk = "z"]
    ELSE Fail(st, "unexpected character")

\* number grammar of RFC 8259 section 6: optional minus, int (0 or non-zero digit then digits), optional frac,
\* optional exp;  "" = c cannot continue the number
NumNext(m, c) ==
    LET e == c = 101 \/ c = 69 IN
    CASE m = "n-" -> IF c = 48 THEN "n0" ELSE IF IsDigit(c) THEN "ni" ELSE ""
      [] m = "n0" -> IF c = 46 THEN "n." ELSE IF e THEN "ne" ELSE ""
      [] m = "ni" -> IF IsDigit(c) THEN "ni" ELSE IF c = 46 THEN "n." ELSE IF e THEN "ne" ELSE ""
      [] m = "n." -> IF IsDigit(c) THEN "nf" ELSE ""
      [] m = "nf" -> IF IsDigit(c) THEN "nf" ELSE IF e THEN "ne" ELSE ""
      [] m = "ne" -> IF c = 43 \/ c = 45 THEN "ns" ELSE IF IsDigit(c) THEN "nx" ELSE ""
      [] m = "ns" -> IF IsDigit(c) THEN "nx" ELSE ""
      [] m = "nx" -> IF IsDigit(c) THEN "nx" ELSE ""
NumModes == {"n-", "n0", "ni", "n.", "nf", "ne", "ns", "nx"}
NumAccepting == {"n0", "ni", "nf", "nx"}

EscMap(c) == CASE c = 34 -> 34 [] c = 92 -> 92 [] c = 47 -> 47 [] c = 98 -> 8 [] c = 102 -> 12 [] c = 110 -> 10 [] c = 114 -> 13 [] c = 116 -> 9
               [] OTHER -> -1
\* one complete \uXXXX unit u has been read
Unit(st, u, split) ==
    IF split THEN [st EXCEPT !.cur = st.cur \o Utf8(u), !.m = "str", !.hi = 0]
    ELSE IF st.hi # 0
      THEN IF IsLow(u) THEN [st EXCEPT !.cur = st.cur \o Utf8(65536 + (st.hi - 55296) * 1024 + (u - 56320)), !.m = "str", !.hi = 0]
           ELSE IF IsHigh(u) THEN [st EXCEPT !.lone = TRUE, !.hi = u, !.m = "hs"]
           ELSE [st EXCEPT !.lone = TRUE, !.hi = 0, !.cur = st.cur \o Utf8(u), !.m = "str"]
    ELSE IF IsHigh(u) THEN [st EXCEPT !.hi = u, !.m = "hs"]
    ELSE IF IsLow(u) THEN [st EXCEPT !.lone = TRUE, !.m = "str"]
    ELSE [st EXCEPT !.cur = st.cur \o Utf8(u), !.m = "str"]
StrChar(st, c) ==
    IF c = 34 THEN Emit(st, "s", st.cur)
    ELSE IF c = 92 THEN [st EXCEPT !.m = "esc"]
    ELSE IF c < 32 THEN Fail(st, "control character in string")
    ELSE [st EXCEPT !.cur = Append(st.cur, c)]
EscChar(st, c) ==
    IF c = 117 THEN [st EXCEPT !.m = "u", !.hex = 0, !.hn = 0]
    ELSE IF EscMap(c) >= 0 THEN [st EXCEPT !.cur = Append(st.cur, EscMap(c)), !.m = "str"]
    ELSE Fail(st, "invalid escape")

LexStep(st, c, split) ==
    IF st.err # "" THEN st
    ELSE IF st.m = "ws" THEN WsChar(st, c)
    ELSE IF st.m = "str" THEN StrChar(st, c)
    ELSE IF st.m = "esc" THEN EscChar(st, c)
    ELSE IF st.m = "u" THEN
        IF HexVal(c) < 0 THEN Fail(st, "invalid unicode escape")
        ELSE IF st.hn < 3 THEN [st EXCEPT !.hex = st.hex * 16 + HexVal(c), !.hn = st.hn + 1]
        ELSE Unit(st, st.hex * 16 + HexVal(c), split)
    ELSE IF st.m = "hs" THEN        \* a high surrogate is pending: only \uDC00..\uDFFF completes it
        IF c = 92 THEN [st EXCEPT !.m = "hsesc"] ELSE StrChar([st EXCEPT !.lone = TRUE, !.hi = 0, !.m = "str"], c)
    ELSE IF st.m = "hsesc" THEN
        IF c = 117 THEN [st EXCEPT !.m = "u", !.hex = 0, !.hn = 0] ELSE EscChar([st EXCEPT !.lone = TRUE, !.hi = 0], c)
    ELSE IF st.m = "lit" THEN
        IF c # st.lit[st.lp + 1] THEN Fail(st, "invalid literal")
        ELSE IF st.lp + 1 = Len(st.lit) THEN Emit(st, st.lk, <<>>)
        ELSE [st EXCEPT !.lp = st.lp + 1]
    ELSE \* a number is in progress
        LET nx == NumNext(st.m, c) IN
        IF nx # "" THEN [st EXCEPT !.m = nx]
        ELSE IF st.m \in NumAccepting THEN WsChar(Emit(st, "n", <<>>), c)
        ELSE Fail(st, "invalid number")
LexEnd(st) ==
    IF st.err # "" THEN st
    ELSE IF st.m = "ws" THEN st
    ELSE IF st.m \in NumAccepting THEN Emit(st, "n", <<>>)
    ELSE Fail(st, "unexpected end of input")
Lex(s, split) == LexEnd(FoldLeft(LAMBDA st, c : LexStep(st, c, split), L0, s))

(* ---- grammar + member listing ------------------------------------------------------------- *)
(* members: [path, k, v]; path = keys from the root (an array level contributes <<-1>>), k =   *)
(* token kind of the value ("s" string, "n", "t", "f", "z" null, "{" object, "[" array).        *)
ArrayMark == <<-1>>
P0 == [stack |-> <<>>, ex |-> "val", mem |-> <<>>, err |-> ""]
PathOf(stack) == [i \in 1..Len(stack) |-> IF stack[i].c = "{" THEN stack[i].key ELSE ArrayMark]
AfterValue(stack) == IF stack = <<>> THEN "end" ELSE ",|close"
Pop(stack) == SubSeq(stack, 1, Len(stack) - 1)
Top(stack) == stack[Len(stack)]
ParseStep(st, t) ==
    IF st.err # "" THEN st
    ELSE IF st.ex \in {"val", "val|]"} /\ t.k \in {"s", "n", "t", "f", "z"}
      THEN [st EXCEPT !.mem = Append(st.mem, [path |-> PathOf(st.stack), k |-> t.k, v |-> t.v]), !.ex = AfterValue(st.stack)]
    ELSE IF st.ex \in {"val", "val|]"} /\ t.k \in {"{", "["}
      THEN [st EXCEPT !.mem = Append(st.mem, [path |-> PathOf(st.stack), k |-> t.k, v |-> <<>>]),
                      !.stack = Append(st.stack, [c |-> t.k, key |-> <<>>]),
                      !.ex = IF t.k = "{" THEN "key|}" ELSE "val|]"]
    ELSE IF st.ex \in {"key|}", "key"} /\ t.k = "s"
      THEN [st EXCEPT !.stack = [st.stack EXCEPT ![Len(st.stack)].key = t.v], !.ex = ":"]
    ELSE IF st.ex = ":" /\ t.k = ":" THEN [st EXCEPT !.ex = "val"]
    ELSE IF st.ex = ",|close" /\ t.k = "," THEN [st EXCEPT !.ex = IF Top(st.stack).c = "{" THEN "key" ELSE "val"]
    ELSE IF st.ex \in {"key|}", ",|close"} /\ t.k = "}" /\ Top(st.stack).c = "{"
      THEN [st EXCEPT !.stack = Pop(st.stack), !.ex = AfterValue(Pop(st.stack))]
    ELSE IF st.ex \in {"val|]", ",|close"} /\ t.k = "]" /\ Top(st.stack).c = "["
      THEN [st EXCEPT !.stack = Pop(st.stack), !.ex = AfterValue(Pop(st.stack))]
    ELSE [st EXCEPT !.err = "unexpected token"]

\* result: ok (a valid RFC 8259 text), lone (some \u escape is an unpaired surrogate: the decoded
\* strings are then not defined by the RFC), mem (members in document order)
ParseWith(s, split) ==
    LET lx == Lex(s, split)
        ps == IF lx.err # "" THEN [P0 EXCEPT !.err = lx.err] ELSE FoldLeft(ParseStep, P0, lx.toks)
    IN [ok |-> ps.err = "" /\ ps.ex = "end", lone |-> lx.lone, mem |-> ps.mem,
        err |-> IF ps.err # "" THEN ps.err ELSE IF ps.ex # "end" THEN "unexpected end of input" ELSE ""]
Parse(s) == ParseWith(s, FALSE)

\* first string member at exactly this path (<<>> when there is none; use HasStr to tell)
StrIdx(mem, path) == {i \in DOMAIN mem : mem[i].path = path /\ mem[i].k = "s"}
HasStr(mem, path) == StrIdx(mem, path) # {}
StrAt(mem, path) == LET I == StrIdx(mem, path) IN mem[CHOOSE i \in I : \A j \in I : i <= j].v
\* no path occurs twice (duplicate keys make "the corresponding member" ambiguous)
Unambiguous(mem) == \A i, j \in DOMAIN mem : (i # j /\ mem[i].path = mem[j].path) => \E k \in DOMAIN mem[i].path : mem[i].path[k] = ArrayMark

---------------------------------------------------------------------------
\* sanity vectors
ASSUME Utf8(233) = <<195, 169>> /\ Utf8(8364) = <<226, 130, 172>> /\ Utf8(128512) = <<240, 159, 152, 128>>
\* U+1F600 (escaped as the surrogate pair D83D DE00) -> F0 9F 98 80
ASSUME Lex(<<34, 92, 117, 100, 56, 51, 100, 92, 117, 100, 101, 48, 48, 34>>, FALSE).toks = <<Tok("s", <<240, 159, 152, 128>>)>>
ASSUME Lex(<<34, 92, 117, 100, 56, 51, 100, 92, 117, 100, 101, 48, 48, 34>>, TRUE).toks = <<Tok("s", <<237, 160, 189, 237, 184, 128>>)>>
\* {"a":[1,-2.5e+3,true,null,{"b":"x\n"}]}
ASSUME LET p == Parse(<<123,34,97,34,58,91,49,44,45,50,46,53,101,43,51,44,116,114,117,101,44,110,117,108,108,44,123,34,98,34,58,34,120,92,110,34,125,93,125>>)
       IN p.ok /\ ~p.lone /\ Len(p.mem) = 8 /\ StrAt(p.mem, <<<<97>>, ArrayMark, <<98>>>>) = <<120, 10>>
ASSUME ~Parse(<<123>>).ok /\ ~Parse(<<45>>).ok /\ ~Parse(<<48, 49>>).ok /\ ~Parse(<<91, 49, 44, 93>>).ok /\ ~Parse(<<>>).ok
ASSUME Parse(<<32, 91, 93, 10>>).ok /\ Parse(<<48>>).ok /\ ~Parse(<<34, 10, 34>>).ok /\ ~Parse(<<123, 125, 125>>).ok
ASSUME Parse(<<34, 92, 117, 100, 56, 51, 100, 34>>).lone
=============================================================================
