----------------------------- MODULE KeyRotation -----------------------------
(* [C39] Session-key rotation between two connected nodes A and B.                         *)
(* Design level = what src/network/KeyManager.cpp + Node::rotate_session_keys do: each     *)
(* node, on its own tick, rotates when its local interval has elapsed since ITS last        *)
(* rotation; the new key is KDF(secret, counter, local time of rotation); the live          *)
(* session's key is replaced in place; nothing is sent to the peer.                         *)
(* The constants select the two ingredients of a repair the statement allows:               *)
(*   KdfUsesTime = FALSE : the KDF ratchets on the counter only;                            *)
(*   Coordinated = TRUE  : a rotation is applied at both ends in one step (rekey message)   *)
(*   TearDown    = TRUE  : a unilateral rotation closes the session instead.                *)
(* The code is KdfUsesTime = TRUE, Coordinated = FALSE, TearDown = FALSE.                   *)
EXTENDS Integers, Sequences, FiniteSets, TLC
CONSTANTS IntA, IntB,        \* rotation intervals of the two nodes
          Skew,              \* B registers the handshake Skew time units after A
          MaxNow, KdfUsesTime, Coordinated, TearDown,
          ReHandshakes,      \* how many re-handshakes over the open connection a behaviour may contain (request_chunk does one before a fetch)
          IgnoreReHandshakeWhileOpen, \* deviation: a handshake for a peer whose session is open is answered "fine" without being processed
          SplitTicks,        \* BOOLEAN: a tick takes its "now" in one step and decides about rotation in a later one (Node::tick reads the clock at
                             \* its top and rotates at its end; handshakes are registered by other threads in between)
          NegativeElapsedIsDue  \* deviation: key material younger than the tick's "now" counts as due for rotation
VARIABLES now, ctr, last, key, open, hist,
          tstart,   \* tstart[n]: the "now" an in-flight tick of n has taken (-1: no tick in flight)
          earlyrot  \* ghost: some rotation happened before its end's interval had elapsed since that end registered / rotated the key
vars == <<now, ctr, last, key, open, hist, tstart, earlyrot>>
Nodes == {"a", "b"}
Ival(n) == IF n = "a" THEN IntA ELSE IntB
Other(n) == IF n = "a" THEN "b" ELSE "a"
\* abstract KDF: the key is determined by (counter, stamp); stamp = 0 when time-free
Kdf(c, t) == <<c, IF KdfUsesTime THEN t ELSE 0>>
Init == /\ now = Skew /\ ctr = [n \in Nodes |-> 0]
        /\ last = [n \in Nodes |-> IF n = "a" THEN 0 ELSE Skew]
        /\ key = [n \in Nodes |-> <<0, 0>>]      \* the handshake key (same material on both sides: C12)
        /\ open = TRUE /\ hist = <<>> /\ tstart = [n \in Nodes |-> -1] /\ earlyrot = FALSE
Due(n) == now - last[n] >= Ival(n)
DueAt(n, t) == t - last[n] >= Ival(n) \/ (NegativeElapsedIsDue /\ t - last[n] < 0)
\* the two halves of a tick that is overtaken by other threads
TickBegin(n) == /\ SplitTicks /\ tstart[n] = -1 /\ tstart' = [tstart EXCEPT ![n] = now]
                /\ hist' = Append(hist, [op |-> "tickbegin", n |-> n]) /\ UNCHANGED <<now, ctr, last, key, open, earlyrot>>
TickEnd(n) ==
    /\ SplitTicks /\ tstart[n] # -1 /\ tstart' = [tstart EXCEPT ![n] = -1]
    /\ hist' = Append(hist, [op |-> "tickend", n |-> n])
    /\ IF ~DueAt(n, tstart[n]) \/ ~open THEN UNCHANGED <<now, ctr, last, key, open, earlyrot>>
       ELSE /\ ctr' = [ctr EXCEPT ![n] = @ + 1] /\ last' = [last EXCEPT ![n] = tstart[n]]
            /\ key' = [key EXCEPT ![n] = Kdf(ctr[n] + 1, tstart[n])]
            /\ earlyrot' = (earlyrot \/ tstart[n] - last[n] < Ival(n))
            /\ UNCHANGED <<now, open>>
Tick(n) ==
    /\ tstart[n] = -1 /\ UNCHANGED <<tstart, earlyrot>>
    /\ hist' = Append(hist, [op |-> "tick", n |-> n])
    /\ IF ~Due(n) \/ ~open THEN UNCHANGED <<now, ctr, last, key, open>>
       ELSE IF Coordinated
         THEN /\ ctr' = [m \in Nodes |-> ctr[n] + 1] /\ last' = [m \in Nodes |-> now]
              /\ key' = [m \in Nodes |-> Kdf(ctr[n] + 1, now)] /\ UNCHANGED <<now, open>>
         ELSE /\ ctr' = [ctr EXCEPT ![n] = @ + 1] /\ last' = [last EXCEPT ![n] = now]
              /\ key' = [key EXCEPT ![n] = Kdf(ctr[n] + 1, now)]
              /\ open' = IF TearDown THEN FALSE ELSE open
              /\ UNCHANGED now
\* one end handshakes again and reconnects while the old connection is still up (Node::request_chunk: perform_handshake, connect_peer):
\* both ends derive the handshake key again and register it -- the session is re-established on one key, whatever drift came before
NRehs == Cardinality({i \in 1..Len(hist) : hist[i].op = "rehs"})
ReHandshake(n) ==
    /\ open /\ NRehs < ReHandshakes
    /\ hist' = Append(hist, [op |-> "rehs", n |-> n])
    /\ UNCHANGED <<tstart, earlyrot>>
    /\ IF IgnoreReHandshakeWhileOpen THEN UNCHANGED <<now, ctr, last, key, open>>
       ELSE /\ key' = [m \in Nodes |-> <<0, 0>>] /\ ctr' = [m \in Nodes |-> 0] /\ last' = [m \in Nodes |-> now] /\ UNCHANGED <<now, open>>
Advance == /\ now' = now + 1 /\ hist' = Append(hist, [op |-> "adv"]) /\ UNCHANGED <<ctr, last, key, open, tstart, earlyrot>>
Next == Advance \/ \E n \in Nodes : (Tick(n) \/ ReHandshake(n) \/ TickBegin(n) \/ TickEnd(n))
Spec == Init /\ [][Next]_vars
View == <<now, ctr, last, key, open, IF hist = <<>> THEN "none" ELSE hist[Len(hist)].op, NRehs, tstart, earlyrot>>
Bound == now <= MaxNow
\* [C39] a session never stays open while its two ends hold different keys
C39_SameKeyWhileOpen == open => key["a"] = key["b"]
\* [C39] "... or the session is torn down and re-established": a re-handshake over the open connection leaves both ends on one key
C39_ReHandshakeConverges == (hist # <<>> /\ hist[Len(hist)].op = "rehs" /\ open) => key["a"] = key["b"]
\* a rotation happens only when the interval has elapsed since that end registered / last rotated the key, whatever overtakes the tick
C39_NoEarlyRotation == ~earlyrot
Reach_HandshakeInsideTick == ~(\E n \in Nodes : tstart[n] # -1 /\ last[n] > tstart[n])
Reach_ReHandshakeAfterDrift == ~(open /\ key["a"] # key["b"] /\ NRehs < ReHandshakes)    \* a re-handshake is possible in a drifted state
Reach_BothRotatedEqually == ~(ctr["a"] = ctr["b"] /\ ctr["a"] > 0)
Reach_Unilateral == ~(ctr["a"] # ctr["b"])
=============================================================================
