-------------------------- MODULE KeyRotationTrace --------------------------
(* [C39] Trace specification: two real nodes, events logged by harness/keyrot.cpp.         *)
(* ka / kb = identity (small integer) of the session key A holds for B / B holds for A;    *)
(* ca / cb = the session is open at A / at B.  The contract: whenever both ends consider   *)
(* the session open they hold the same key.  A divergence is classified by how it arose    *)
(* (ghost rotation counters inferred from key changes at the node's own tick), so that the  *)
(* two recorded findings are recognised and any other way of diverging is reported.         *)
EXTENDS TraceKit
VARIABLES l, viol, ra, rb, pka, pkb, nchecked
vars == <<l, viol, ra, rb, pka, pkb, nchecked>>
Init == l = 1 /\ viol = <<>> /\ ra = 0 /\ rb = 0 /\ pka = -1 /\ pkb = -1 /\ nchecked = 0
Step(e) ==
  IF e.op = "reset" THEN
     LET bad == IF e.connected /\ e.ca /\ e.cb /\ e.ka # e.kb THEN {"C39.keys-differ-after-handshake"} ELSE {} IN
     /\ ra' = 0 /\ rb' = 0 /\ pka' = e.ka /\ pkb' = e.kb /\ nchecked' = nchecked + 1
     /\ viol' = IF bad = {} THEN viol ELSE Append(viol, Fail(l, bad, e))
  ELSE IF e.op = "rehs" THEN
     \* one end handshook again and reconnected while the old connection was up; when that end's handshake went through, the session is
     \* re-established: both ends that still consider it open must hold one key (the ghost rotation counters start again)
     LET bad == IF e.hs /\ e.ca /\ e.cb /\ e.ka # e.kb THEN {"C39.keys-differ-after-rehandshake"} ELSE {}
         fresh == e.hs /\ e.ka = e.kb IN
     /\ ra' = (IF fresh THEN 0 ELSE ra) /\ rb' = (IF fresh THEN 0 ELSE rb) /\ pka' = e.ka /\ pkb' = e.kb /\ nchecked' = nchecked + 1
     /\ viol' = IF bad = {} THEN viol ELSE Append(viol, Fail(l, bad, e))
  ELSE
     LET ra2 == IF e.op = "tick" /\ e.n = "a" /\ e.ka # pka THEN ra + 1 ELSE ra
         rb2 == IF e.op = "tick" /\ e.n = "b" /\ e.kb # pkb THEN rb + 1 ELSE rb
         outside == (e.ka # pka /\ ~(e.op = "tick" /\ e.n = "a")) \/ (e.kb # pkb /\ ~(e.op = "tick" /\ e.n = "b"))
         diverged == e.ca /\ e.cb /\ e.ka # e.kb
         bad == (IF diverged THEN {IF ra2 # rb2 THEN "C39.keys-diverged/unilateral-rotation"
                                    ELSE IF ra2 > 0 THEN "C39.keys-diverged/kdf-uses-local-timestamp"
                                    ELSE "C39.keys-diverged/without-rotation"} ELSE {})
                \cup (IF outside THEN {"C39.key-changed-outside-own-tick"} ELSE {})
     IN /\ ra' = ra2 /\ rb' = rb2 /\ pka' = e.ka /\ pkb' = e.kb /\ nchecked' = nchecked + 1
        /\ viol' = IF bad = {} THEN viol ELSE Append(viol, Fail(l, bad, e))
Next == l <= Len(T) /\ l' = l + 1 /\ Step(T[l])
Spec == Init /\ [][Next]_vars
Done == Report(l, viol, [checked |-> nchecked])
=============================================================================
