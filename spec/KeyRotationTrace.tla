-------------------------- MODULE KeyRotationTrace --------------------------
(* [C39] Trace specification: two real nodes, events logged by harness/keyrot.cpp.         *)
(* ka / kb = identity (small integer) of the session key A holds for B / B holds for A;    *)
(* ca / cb = the session is open at A / at B.  The contract: whenever both ends consider   *)
(* the session open they hold the same key.  A divergence is classified by how it arose    *)
(* (ghost rotation counters inferred from key changes at the node's own tick), so that the  *)
(* two recorded findings are recognised and any other way of diverging is reported.         *)
EXTENDS TraceKit
VARIABLES l, viol, ra, rb, pka, pkb, nchecked,
          la, lb,      \* ghost: instant at which the end last registered key material for the session (handshake) or rotated it
          iva, ivb,    \* the two ends' rotation intervals (ms), from the reset event
          early        \* ghost: some rotation since the session was (re-)established came before that end's interval had elapsed
vars == <<l, viol, ra, rb, pka, pkb, nchecked, la, lb, iva, ivb, early>>
Init == l = 1 /\ viol = <<>> /\ ra = 0 /\ rb = 0 /\ pka = -1 /\ pkb = -1 /\ nchecked = 0
        /\ la = 0 /\ lb = 0 /\ iva = 0 /\ ivb = 0 /\ early = FALSE
Step(e) ==
  IF e.op = "reset" THEN
     LET bad == IF e.connected /\ e.ca /\ e.cb /\ e.ka # e.kb THEN {"C39.keys-differ-after-handshake"} ELSE {} IN
     /\ ra' = 0 /\ rb' = 0 /\ pka' = e.ka /\ pkb' = e.kb /\ nchecked' = nchecked + 1
     \* A registers the handshake key, `skew` ms later B does (the event is logged after both)
     /\ la' = e.t - e.skew /\ lb' = e.t /\ iva' = e.ia /\ ivb' = e.ib /\ early' = FALSE
     /\ viol' = IF bad = {} THEN viol ELSE Append(viol, Fail(l, bad, e))
  ELSE IF e.op = "rehs" THEN
     \* one end handshook again and reconnected while the old connection was up; when that end's handshake went through, the session is
     \* re-established: both ends that still consider it open must hold one key (the ghost rotation counters start again)
     LET bad == IF e.hs /\ e.ca /\ e.cb /\ e.ka # e.kb THEN {"C39.keys-differ-after-rehandshake"} ELSE {}
         fresh == e.hs /\ e.ka = e.kb IN
     /\ ra' = (IF fresh THEN 0 ELSE ra) /\ rb' = (IF fresh THEN 0 ELSE rb) /\ pka' = e.ka /\ pkb' = e.kb /\ nchecked' = nchecked + 1
     /\ la' = (IF e.ka # pka \/ fresh THEN e.t ELSE la) /\ lb' = (IF e.kb # pkb \/ fresh THEN e.t ELSE lb)
     /\ early' = (IF fresh THEN FALSE ELSE early) /\ UNCHANGED <<iva, ivb>>
     /\ viol' = IF bad = {} THEN viol ELSE Append(viol, Fail(l, bad, e))
  ELSE
     LET ra2 == IF e.op \in {"tick", "tickrace"} /\ e.n = "a" /\ e.ka # pka THEN ra + 1 ELSE ra
         rb2 == IF e.op \in {"tick", "tickrace"} /\ e.n = "b" /\ e.kb # pkb THEN rb + 1 ELSE rb
         \* (a tickrace event also contains the other end's handshake: both keys may change in it)
         outside == e.op # "tickrace" /\ ((e.ka # pka /\ ~(e.op = "tick" /\ e.n = "a")) \/ (e.kb # pkb /\ ~(e.op = "tick" /\ e.n = "b")))
         diverged == e.ca /\ e.cb /\ e.ka # e.kb
         \* a rotation at the node's own tick is due only once that end's interval has elapsed since it registered / last rotated the key
         \* (KeyRotation.tla: Due).  tbase: the instant the racing tick of a tickrace event took as "now"
         tnow == IF Has(e, "tbase") THEN e.tbase ELSE e.t
         rotA == e.op \in {"tick", "tickrace"} /\ e.n = "a" /\ e.ka # pka
         rotB == e.op \in {"tick", "tickrace"} /\ e.n = "b" /\ e.kb # pkb
         early2 == early \/ (rotA /\ tnow - la < iva) \/ (rotB /\ tnow - lb < ivb)
         bad == (IF diverged THEN {IF early2 THEN "C39.keys-diverged/rotation-before-interval"
                                    ELSE IF ra2 # rb2 THEN "C39.keys-diverged/unilateral-rotation"
                                    ELSE IF ra2 > 0 THEN "C39.keys-diverged/kdf-uses-local-timestamp"
                                    ELSE "C39.keys-diverged/without-rotation"} ELSE {})
                \cup (IF outside THEN {"C39.key-changed-outside-own-tick"} ELSE {})
     IN /\ ra' = ra2 /\ rb' = rb2 /\ pka' = e.ka /\ pkb' = e.kb /\ nchecked' = nchecked + 1
        /\ la' = (IF rotA THEN tnow ELSE IF e.op = "tickrace" THEN e.t ELSE la) /\ lb' = (IF rotB THEN tnow ELSE IF e.op = "tickrace" THEN e.t ELSE lb)
        /\ early' = early2 /\ UNCHANGED <<iva, ivb>>
        /\ viol' = IF bad = {} THEN viol ELSE Append(viol, Fail(l, bad, e))
Next == l <= Len(T) /\ l' = l + 1 /\ Step(T[l])
Spec == Init /\ [][Next]_vars
Done == Report(l, viol, [checked |-> nchecked])
=============================================================================
