------------------------------ MODULE LogJson ------------------------------
(* C37 -- Escape per character class as src/daemon/StructuredLogger.cpp does it, the record  *)
(* layout of StructuredLogger::log, and the lemma checked by TLC over every string of at     *)
(* most MaxLen symbols from a class-representative alphabet: the rendered record is one line, *)
(* valid JSON, and decodes back (event, field name and field value all set to the string).    *)
(* One state = one string; `hist` is exported with -dump and logged through the real logger.  *)
EXTENDS LogJsonContract, TLC

CONSTANTS MaxLen,
          DevRawControl,   \* TRUE: control bytes without a short escape are written raw (a deviation that must violate the lemma)
          DevRawQuote      \* TRUE: '"' is written raw

\* alphabet: symbol name -> bytes
Alphabet == {"quote", "backslash", "slash", "bs", "ff", "nl", "cr", "tab", "c01", "c1f", "a", "del", "e-acute", "euro", "grin"}
Sym(x) == CASE x = "quote" -> <<34>> [] x = "backslash" -> <<92>> [] x = "slash" -> <<47>> [] x = "bs" -> <<8>> [] x = "ff" -> <<12>>
            [] x = "nl" -> <<10>> [] x = "cr" -> <<13>> [] x = "tab" -> <<9>> [] x = "c01" -> <<1>> [] x = "c1f" -> <<31>> [] x = "a" -> <<97>>
            [] x = "del" -> <<127>> [] x = "e-acute" -> <<195, 169>> [] x = "euro" -> <<226, 130, 172>> [] x = "grin" -> <<240, 159, 152, 128>>
Bytes(syms) == FoldLeft(LAMBDA acc, x : acc \o Sym(x), <<>>, syms)

HexDigit(v) == IF v < 10 THEN 48 + v ELSE 55 + v          \* upper case, as std::uppercase
EscapeByte(c) ==
    IF c = 34 THEN (IF DevRawQuote THEN <<34>> ELSE <<92, 34>>)
    ELSE IF c = 92 THEN <<92, 92>>
    ELSE IF c = 8 THEN <<92, 98>> ELSE IF c = 12 THEN <<92, 102>> ELSE IF c = 10 THEN <<92, 110>>
    ELSE IF c = 13 THEN <<92, 114>> ELSE IF c = 9 THEN <<92, 116>>
    ELSE IF c < 32 THEN (IF DevRawControl THEN <<c>> ELSE <<92, 117, 48, 48, HexDigit(c \div 16), HexDigit(c % 16)>>)
    ELSE <<c>>
Escape(s) == FoldLeft(LAMBDA acc, c : acc \o EscapeByte(c), <<>>, s)
Q(s) == <<34>> \o Escape(s) \o <<34>>
\* {"ts":"<ts>","level":"info","event":"<e>","fields":{"<k>":"<v>",...}}\n
KTs == <<116, 115>>  KLevel == <<108, 101, 118, 101, 108>>  VInfo == <<105, 110, 102, 111>>
Ts == <<50, 48, 50, 54, 45, 48, 57, 45, 50, 50, 84, 48, 48, 58, 48, 48, 58, 48, 48, 46, 48, 48, 48, 90>>
Render(event, fields) ==
    <<123>> \o Q(KTs) \o <<58>> \o Q(Ts) \o <<44>> \o Q(KLevel) \o <<58>> \o Q(VInfo) \o <<44>> \o Q(KEvent) \o <<58>> \o Q(event)
    \o (IF fields = <<>> THEN <<>>
        ELSE <<44>> \o Q(KFields) \o <<58, 123>>
             \o FoldLeft(LAMBDA acc, i : acc \o (IF i > 1 THEN <<44>> ELSE <<>>) \o Q(fields[i][1]) \o <<58>> \o Q(fields[i][2]),
                         <<>>, [i \in 1..Len(fields) |-> i])
             \o <<125>>)
    \o <<125, 10>>

VARIABLE hist
Init == hist = [syms |-> <<>>, bytes |-> <<>>]
Add(x) == Len(hist.syms) < MaxLen /\ hist' = [syms |-> Append(hist.syms, x), bytes |-> Bytes(Append(hist.syms, x))]
Next == \E x \in Alphabet : Add(x)
Spec == Init /\ [][Next]_hist

\* the lemma: the string as event name, as a field name and as a field value, next to a plain field
C37_EscapeLemma ==
    LET s == hist.bytes IN
    /\ RecordClauses(Render(s, <<<<s, s>>, <<<<107>>, s>>>>), s, <<<<s, s>>, <<<<107>>, s>>>>) = {}
    /\ RecordClauses(Render(s, <<>>), s, <<>>) = {}
\* escaping adds no raw control byte and no raw quote/backslash inside the string body
C37_EscapedIsClean == \A i \in 1..Len(Escape(hist.bytes)) : Escape(hist.bytes)[i] >= 32
Reach_FullLength == ~(Len(hist.syms) = MaxLen /\ "grin" \in {hist.syms[i] : i \in 1..Len(hist.syms)})
=============================================================================
