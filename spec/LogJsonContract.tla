-------------------------- MODULE LogJsonContract --------------------------
(* C37 -- a structured log record is exactly one line of valid JSON whose event name and    *)
(* field names / values decode back to the logged strings.  Strings are byte sequences       *)
(* (valid UTF-8); the judge is the RFC 8259 reference of JsonRef.                             *)
EXTENDS JsonRef

KEvent == <<101, 118, 101, 110, 116>>            \* "event"
KFields == <<102, 105, 101, 108, 100, 115>>      \* "fields"

\* out = the bytes written for one log call; event = logged event name; fields = sequence of <<name, value>>
OneLine(out) == Len(out) >= 1 /\ out[Len(out)] = 10 /\ \A i \in 1..(Len(out) - 1) : out[i] # 10
Body(out) == SubSeq(out, 1, Len(out) - 1)
\* name/value pairs directly inside the top-level "fields" object, in document order (duplicates kept)
FieldPairs(mem) ==
    LET idx == SelectSeq([i \in 1..Len(mem) |-> i], LAMBDA i : Len(mem[i].path) = 2 /\ mem[i].path[1] = KFields)
    IN [j \in 1..Len(idx) |-> <<mem[idx[j]].path[2], mem[idx[j]].k, mem[idx[j]].v>>]
RecordClauses(out, event, fields) ==
    IF ~OneLine(out) THEN {"C37.not-one-line"} ELSE
    LET p == Parse(Body(out)) IN
    IF ~p.ok THEN {"C37.invalid-json"} ELSE
    LET topIsObject == Len(p.mem) >= 1 /\ p.mem[1].path = <<>> /\ p.mem[1].k = "{"
        fp == FieldPairs(p.mem)
    IN (IF topIsObject /\ ~p.lone /\ HasStr(p.mem, <<KEvent>>) /\ StrAt(p.mem, <<KEvent>>) = event THEN {} ELSE {"C37.event-mismatch"})
       \cup (IF topIsObject /\ ~p.lone /\ Len(fp) = Len(fields)
                /\ \A j \in 1..Len(fields) : fp[j][2] = "s" /\ fp[j][1] = fields[j][1] /\ fp[j][3] = fields[j][2]
             THEN {} ELSE {"C37.fields-mismatch"})
=============================================================================
