---------------------------- MODULE LogJsonTrace ----------------------------
(* Trace specification for C37: every event is one call of the real StructuredLogger::log   *)
(* (event name, field list, the bytes that reached std::clog); the JSON reference decodes    *)
(* the line and compares.                                                                     *)
EXTENDS TraceKit, LogJsonContract

VARIABLES l, viol, nchecked
vars == <<l, viol, nchecked>>
Init == l = 1 /\ viol = <<>> /\ nchecked = 0
FieldsOf(e) == LET f == Arr(e.fields) IN [i \in DOMAIN f |-> <<Arr(f[i][1]), Arr(f[i][2])>>]
Step(e) ==
  CASE e.op = "log" ->
        LET bad == RecordClauses(Arr(e.out), Arr(e.event), FieldsOf(e))
        IN /\ viol' = IF bad = {} THEN viol ELSE Append(viol, Fail(l, bad, [event |-> Arr(e.event), fields |-> FieldsOf(e), out |-> Arr(e.out)]))
           /\ nchecked' = nchecked + 1
    [] OTHER -> UNCHANGED <<viol, nchecked>>
Next == l <= Len(T) /\ l' = l + 1 /\ Step(T[l])
Spec == Init /\ [][Next]_vars
Done == Report(l, viol, [checked |-> nchecked])
=============================================================================
