SPECIFICATION Spec
CONSTANTS
  DevMappedPass = FALSE
  DevBench19Pass = FALSE
  DevSelfUnfiltered = FALSE
  DevWarnLeak = FALSE
  DevStaleSurvivesOff = FALSE
  Prevs = {"none", "pub", "priv"}
  Modes = {"on", "warn", "off"}
  Allows = {TRUE, FALSE}
  Ctls = {"any", "loopback", "private", "public"}
INVARIANT C34_DesignMeetsContract
INVARIANT C34_ClassifierMeetsContract
CHECK_DEADLOCK FALSE
