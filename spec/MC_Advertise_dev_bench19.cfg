SPECIFICATION Spec
CONSTANTS
  DevMappedPass = FALSE
  DevBench19Pass = TRUE
  DevSelfUnfiltered = FALSE
  DevWarnLeak = FALSE
  Modes = {"on", "warn", "off"}
  Allows = {TRUE, FALSE}
  Ctls = {"any", "loopback", "private", "public"}
INVARIANT C34_ClassifierMeetsContract
CHECK_DEADLOCK FALSE
