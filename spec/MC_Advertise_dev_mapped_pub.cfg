SPECIFICATION Spec
CONSTANTS
  DevMappedPass = TRUE
  DevBench19Pass = FALSE
  DevSelfUnfiltered = FALSE
  DevWarnLeak = FALSE
  DevStaleSurvivesOff = FALSE
  Prevs = {"none"}
  Modes = {"on", "warn", "off"}
  Allows = {TRUE, FALSE}
  Ctls = {"any", "loopback", "private", "public"}
INVARIANT C34_DesignMeetsContract
CHECK_DEADLOCK FALSE
