SPECIFICATION Spec
CONSTANTS
  DevMappedPass = FALSE
  DevBench19Pass = FALSE
  DevSelfUnfiltered = FALSE
  DevWarnLeak = FALSE
  DevStaleSurvivesOff = TRUE
  Prevs = {"none", "pub", "priv"}
  Modes = {"on", "warn", "off"}
  Allows = {TRUE, FALSE}
  Ctls = {"any", "loopback", "private", "public"}
INVARIANT C34_DesignMeetsContract
CHECK_DEADLOCK FALSE
