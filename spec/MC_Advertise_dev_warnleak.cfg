SPECIFICATION Spec
CONSTANTS
  DevMappedPass = FALSE
  DevBench19Pass = FALSE
  DevSelfUnfiltered = FALSE
  DevWarnLeak = TRUE
  DevStaleSurvivesOff = FALSE
  Prevs = {"none"}
  Modes = {"on", "warn", "off"}
  Allows = {TRUE, FALSE}
  Ctls = {"any", "loopback", "private", "public"}
INVARIANT C34_DesignMeetsContract
CHECK_DEADLOCK FALSE
