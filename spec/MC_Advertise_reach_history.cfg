SPECIFICATION Spec
CONSTANTS
  DevMappedPass = FALSE
  DevBench19Pass = FALSE
  DevSelfUnfiltered = FALSE
  DevWarnLeak = FALSE
  DevStaleSurvivesOff = FALSE
  Prevs = {"none", "pub", "priv"}
  Modes = {"on", "warn", "off"}
  Allows = {TRUE, FALSE}
  Ctls = {"any", "loopback", "private", "public"}
INVARIANT Reach_OffAfterHistory
CHECK_DEADLOCK FALSE
