SPECIFICATION Spec
CONSTANTS
  DevMappedPass = FALSE
  DevBench19Pass = FALSE
  DevSelfUnfiltered = FALSE
  DevWarnLeak = FALSE
  DevStaleSurvivesOff = FALSE
  Prevs = {"none"}
  Modes = {"on", "warn", "off"}
  Allows = {TRUE, FALSE}
  Ctls = {"any", "loopback", "private", "public"}
INVARIANT Reach_PublicPublished
CHECK_DEADLOCK FALSE
