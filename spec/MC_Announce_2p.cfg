SPECIFICATION MCSpec
CONSTANTS
  Peers = {1, 2}
  Interval = 1
  Window = 2
  Burst = 2
  FailWindow = 2
  LockDur = 3
  Threshold = 3
  PowRequired = TRUE
  MaxNow = 4
  MaxLen = 6
  Kinds = {"ok", "self", "assigned"}
  Dev = "none"
INVARIANTS C21_StateChangeOnlyIfAdmissible C21_LockedMeansNoChange C21_SpacingOK C21_BurstOK D_CodeIsAReading
VIEW View
CONSTRAINT Bound
CHECK_DEADLOCK FALSE
