SPECIFICATION MCSpec
CONSTANTS
  Peers = {1, 2}
  Interval = 2
  Window = 4
  Burst = 2
  FailWindow = 5
  LockDur = 6
  Threshold = 3
  PowRequired = TRUE
  MaxNow = 12
  MaxLen = 6
  Kinds = {"ok", "self", "assigned"}
  Dev = "none"
INVARIANTS Reach_OtherPeerLocked
VIEW View
CONSTRAINT Bound
CHECK_DEADLOCK FALSE
