SPECIFICATION MCSpec
CONSTANTS
  Peers = {1}
  Interval = 2
  Window = 4
  Burst = 2
  FailWindow = 4
  LockDur = 6
  Threshold = 3
  PowRequired = TRUE
  MaxNow = 12
  MaxLen = 40
  Kinds = {"ok", "self", "assigned"}
  Dev = "none"
INVARIANTS C21_StateChangeOnlyIfAdmissible C21_LockedMeansNoChange C21_SpacingOK C21_BurstOK D_CodeIsAReading
VIEW View
CONSTRAINT Bound
CHECK_DEADLOCK FALSE
