SPECIFICATION MCSpec
CONSTANTS
  Ids = {1, 2}
  Payloads = {0, 1}
  Ttls = {1, 2}
  MaxNow = 3
  Persistent = TRUE
  StartupScrub = TRUE
  EraseOnLookup = TRUE
  CleanFailedWrite = TRUE
  ListRaw = FALSE
INVARIANTS C04_FileImpliesLive C04_NoDeadFileAfterSweep
VIEW View
CONSTRAINT Bound
CHECK_DEADLOCK FALSE
