SPECIFICATION MCSpec
CONSTANTS
  Ids = {1, 2}
  Payloads = {0, 1}
  Ttls = {1, 2}
  MaxNow = 3
  Persistent = TRUE
  StartupScrub = TRUE
  EraseOnLookup = FALSE
  CleanFailedWrite = FALSE
  ListRaw = FALSE
INVARIANTS C01_ReadExact C01_NoEarlyLoss C04_FileImpliesLive C04_NoDeadFileAfterSweep C04_WipeBeforeUnlink
VIEW View
CONSTRAINT Bound
CHECK_DEADLOCK FALSE
