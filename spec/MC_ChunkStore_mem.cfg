SPECIFICATION MCSpec
CONSTANTS
  Ids = {1, 2, 3}
  Payloads = {0, 1}
  Ttls = {1, 2}
  MaxNow = 3
  Persistent = FALSE
  StartupScrub = TRUE
  EraseOnLookup = FALSE
  CleanFailedWrite = TRUE
  ListRaw = FALSE
INVARIANTS C01_ReadExact C01_NoEarlyLoss
VIEW View
CONSTRAINT Bound
CHECK_DEADLOCK FALSE
