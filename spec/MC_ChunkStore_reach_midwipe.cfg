SPECIFICATION MCSpec
CONSTANTS
  Ids = {1, 2}
  Payloads = {0, 1}
  Ttls = {1, 2}
  MaxNow = 3
  Persistent = TRUE
  StartupScrub = FALSE
  EraseOnLookup = FALSE
  CleanFailedWrite = TRUE
  ListRaw = FALSE
INVARIANTS Reach_CrashMidWipe
VIEW View
CONSTRAINT Bound
CHECK_DEADLOCK FALSE
