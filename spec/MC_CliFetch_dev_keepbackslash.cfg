SPECIFICATION Spec
CONSTANTS
  Mode = "names"
  Resps = {"absent", "correct", "substituted", "error"}
  FlagSet = {"-"}
  VerifyOn = {"transport", "relay", "control", "fallback", "local"}
  MaxNameLen = 3
  Trunc = 255
  TakeFilename = TRUE
  MapSeparators = FALSE
  DotsAfterStrip = TRUE
  NodeStrips = TRUE
INVARIANTS C31_FetchName
VIEW View
CHECK_DEADLOCK FALSE
