SPECIFICATION Spec
CONSTANTS
  Mode = "names"
  Resps = {"absent", "correct", "substituted", "error"}
  FlagSet = {"-"}
  VerifyOn = {"transport", "relay", "control", "fallback", "local"}
  MaxNameLen = 3
  Trunc = 255
  TakeFilename = TRUE
  MapSeparators = TRUE
  DotsAfterStrip = TRUE
  NodeStrips = FALSE
INVARIANTS C31_NodeName
VIEW View
CHECK_DEADLOCK FALSE
