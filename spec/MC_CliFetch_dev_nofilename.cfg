SPECIFICATION Spec
CONSTANTS
  Mode = "names"
  Resps = {"absent", "correct", "substituted", "error"}
  FlagSet = {"-"}
  VerifyOn = {"transport", "relay", "control", "fallback", "local"}
  MaxNameLen = 3
  Trunc = 255
  TakeFilename = FALSE
  MapSeparators = FALSE
  DotsAfterStrip = TRUE
  NodeStrips = TRUE
INVARIANTS C31_FetchInsideDir
VIEW View
CHECK_DEADLOCK FALSE
