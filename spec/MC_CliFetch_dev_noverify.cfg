SPECIFICATION Spec
CONSTANTS
  Mode = "paths"
  Resps = {"absent", "correct", "substituted", "error"}
  FlagSet = {"-"}
  VerifyOn = {"transport", "relay"}
  MaxNameLen = 0
  Trunc = 255
  TakeFilename = TRUE
  MapSeparators = TRUE
  DotsAfterStrip = TRUE
  NodeStrips = TRUE
INVARIANTS C30_OnlyMatchingBytes
VIEW View
CHECK_DEADLOCK FALSE
