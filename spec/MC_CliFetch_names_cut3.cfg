SPECIFICATION Spec
CONSTANTS
  Mode = "names"
  Resps = {"absent", "correct", "substituted", "error"}
  FlagSet = {"-"}
  VerifyOn = {"transport", "relay", "control", "fallback", "local"}
  MaxNameLen = 4
  Trunc = 3
  TakeFilename = TRUE
  MapSeparators = TRUE
  DotsAfterStrip = TRUE
  NodeStrips = TRUE
INVARIANTS TypeOK C30_OnlyMatchingBytes C30_Contract C31_FetchName C31_FetchInsideDir C31_NodeName C31_PipeName
VIEW View
CHECK_DEADLOCK FALSE
