SPECIFICATION Spec
CONSTANTS
  Mode = "paths"
  Resps = {"absent", "correct", "substituted", "empty", "error"}
  FlagSet = {"-", "direct", "transport", "ctl"}
  VerifyOn = {"transport", "relay", "control", "fallback", "local"}
  MaxNameLen = 0
  Trunc = 255
  TakeFilename = TRUE
  MapSeparators = TRUE
  DotsAfterStrip = TRUE
  NodeStrips = TRUE
INVARIANTS TypeOK C30_OnlyMatchingBytes C30_Contract C31_FetchName C31_FetchInsideDir C31_NodeName C31_PipeName
VIEW View
CHECK_DEADLOCK FALSE
