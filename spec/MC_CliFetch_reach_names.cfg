SPECIFICATION Spec
CONSTANTS
  Mode = "names"
  Resps = {"absent", "correct", "substituted", "error"}
  FlagSet = {"-"}
  VerifyOn = {"transport", "relay", "control", "fallback", "local"}
  MaxNameLen = 3
  Trunc = 255
  TakeFilename = TRUE
  MapSeparators = TRUE
  DotsAfterStrip = TRUE
  NodeStrips = TRUE
INVARIANTS Reach_NameRejected Reach_NameRewritten
VIEW View
CHECK_DEADLOCK FALSE
