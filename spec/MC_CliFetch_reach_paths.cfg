SPECIFICATION Spec
CONSTANTS
  Mode = "paths"
  Resps = {"absent", "correct", "substituted", "error"}
  FlagSet = {"-"}
  VerifyOn = {"transport", "relay", "control", "fallback", "local"}
  MaxNameLen = 0
  Trunc = 255
  TakeFilename = TRUE
  MapSeparators = TRUE
  DotsAfterStrip = TRUE
  NodeStrips = TRUE
INVARIANTS Reach_LaterPathAfterHostile Reach_AllFiveFail
VIEW View
CHECK_DEADLOCK FALSE
