SPECIFICATION Spec
CONSTANTS
  Repaired = {}
INVARIANTS RF_handshake_state RF_manifest_cache RF_dht RF_fetch_table
CHECK_DEADLOCK FALSE
