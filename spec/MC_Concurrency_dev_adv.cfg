SPECIFICATION Spec
CONSTANTS
  Repaired = {}
INVARIANTS RF_advertised_endpoints
CHECK_DEADLOCK FALSE
