SPECIFICATION Spec
CONSTANTS
  Repaired = {}
INVARIANTS RF_key_contexts
CHECK_DEADLOCK FALSE
