SPECIFICATION Spec
CONSTANTS
  Repaired = {}
INVARIANTS RF_session_key
CHECK_DEADLOCK FALSE
