SPECIFICATION Spec
CONSTANTS
  Repaired = {"key_contexts", "session_key", "advertised_endpoints"}
INVARIANTS C36_RaceFree
CHECK_DEADLOCK FALSE
