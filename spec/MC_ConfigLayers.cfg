SPECIFICATION MCSpec
CONSTANTS
  ShapeNames = {"chain0","chain1","chain2","chain3","selfcyc","cyc2","tailcyc","missparent","missgrand","nosel","sidecyc"}
  ModeNames = {"nocfg","none","flag","flagenv","env","envnoprof"}
  GroupNames = {"A","B","C","D"}
  PairCap = 6
  ShallowMerge = FALSE
  NoCycleCheck = FALSE
  MissingParentIgnored = FALSE
  ProfileBeatsFlag = FALSE
  EnvProfileBeatsFlag = FALSE
  WindowAsUnit = FALSE
INVARIANTS C32_Contract C32_Winner C32_CycleReported C32_MissingReported C32_NoHang
CHECK_DEADLOCK FALSE
