SPECIFICATION MCSpec
CONSTANTS
  ShapeNames = {"chain0"}
  ModeNames = {"flagenv"}
  GroupNames = {"C"}
  PairCap = 6
  ShallowMerge = FALSE
  NoCycleCheck = FALSE
  MissingParentIgnored = FALSE
  ProfileBeatsFlag = FALSE
  EnvProfileBeatsFlag = TRUE
  WindowAsUnit = FALSE
INVARIANTS C32_Winner
CHECK_DEADLOCK FALSE
