SPECIFICATION MCSpec
CONSTANTS
  ShapeNames = {"missgrand"}
  ModeNames = {"env"}
  GroupNames = {"C"}
  PairCap = 6
  ShallowMerge = FALSE
  NoCycleCheck = FALSE
  MissingParentIgnored = TRUE
  ProfileBeatsFlag = FALSE
  EnvProfileBeatsFlag = FALSE
  WindowAsUnit = FALSE
INVARIANTS C32_MissingReported
CHECK_DEADLOCK FALSE
