SPECIFICATION MCSpec
CONSTANTS
  ShapeNames = {"cyc2"}
  ModeNames = {"flag"}
  GroupNames = {"C"}
  PairCap = 6
  ShallowMerge = FALSE
  NoCycleCheck = TRUE
  MissingParentIgnored = FALSE
  ProfileBeatsFlag = FALSE
  EnvProfileBeatsFlag = FALSE
  WindowAsUnit = FALSE
INVARIANTS C32_NoHang
CHECK_DEADLOCK FALSE
