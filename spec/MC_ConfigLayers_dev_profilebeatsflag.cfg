SPECIFICATION MCSpec
CONSTANTS
  ShapeNames = {"chain0"}
  ModeNames = {"flag"}
  GroupNames = {"C"}
  PairCap = 6
  ShallowMerge = FALSE
  NoCycleCheck = FALSE
  MissingParentIgnored = FALSE
  ProfileBeatsFlag = TRUE
  EnvProfileBeatsFlag = TRUE
INVARIANTS C32_Winner
CHECK_DEADLOCK FALSE
