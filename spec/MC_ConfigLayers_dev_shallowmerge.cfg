SPECIFICATION MCSpec
CONSTANTS
  ShapeNames = {"chain1"}
  ModeNames = {"flag"}
  GroupNames = {"A"}
  PairCap = 6
  ShallowMerge = TRUE
  NoCycleCheck = FALSE
  MissingParentIgnored = FALSE
  ProfileBeatsFlag = FALSE
  EnvProfileBeatsFlag = FALSE
  WindowAsUnit = FALSE
INVARIANTS C32_Winner
CHECK_DEADLOCK FALSE
