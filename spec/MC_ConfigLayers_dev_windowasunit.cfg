SPECIFICATION MCSpec
CONSTANTS
  ShapeNames = {"chain0"}
  ModeNames = {"flag"}
  GroupNames = {"D"}
  PairCap = 6
  ShallowMerge = FALSE
  NoCycleCheck = FALSE
  MissingParentIgnored = FALSE
  ProfileBeatsFlag = FALSE
  EnvProfileBeatsFlag = FALSE
  WindowAsUnit = TRUE
INVARIANTS C32_Winner
CHECK_DEADLOCK FALSE
