SPECIFICATION MCSpec
CONSTANTS
  ShapeNames = {"chain0","chain3","tailcyc","missgrand"}
  ModeNames = {"none","flag","flagenv","env"}
  GroupNames = {"A"}
  PairCap = 3
  ShallowMerge = FALSE
  NoCycleCheck = FALSE
  MissingParentIgnored = FALSE
  ProfileBeatsFlag = FALSE
  EnvProfileBeatsFlag = FALSE
  WindowAsUnit = FALSE
INVARIANTS Reach_EnvSelectedDeepChain Reach_CycleError Reach_MissingError Reach_FlagOverEnvProfile
CHECK_DEADLOCK FALSE
