SPECIFICATION Spec
CONSTANTS
  GridS <- DefGridS
  GridPow <- DefGridPow
  ReqS <- DefReqS
INVARIANTS C02_Window C02_Lifetimes
CHECK_DEADLOCK FALSE
