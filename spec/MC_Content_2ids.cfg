SPECIFICATION MSpec
CONSTANTS
  Hash <- ToyHash
  Cipher <- ToyCipher
  KeyOf <- ToyKeyOf
  CtrOf <- ToyCtr
  Ids = {1, 2}
  PayloadIx = {3}
  KeyVals = {0, 1}
  NonceVals = {0}
  Thresholds = {1}
  Kinds = {"none", "flipfirst", "flipmid", "fliplast", "trunc", "extend", "swapnonce", "althash", "shardfirst", "shardlast", "foreignmanifest", "foreignct"}
  MKinds = {"none", "swapnonce", "althash", "shardfirst", "shardlast"}
  DevFetchUnverified = FALSE
  DevImportUnverified = FALSE
  DevStoreBeforeVerify = FALSE
INVARIANTS C11_FetchAllowed C11_FetchNothingUnknown C11_TamperedNeverAccepted C11_RejectedChangesNothing C11_GenuineAccepted C11_HeldIsSealed
VIEW MView
CHECK_DEADLOCK FALSE
