SPECIFICATION MSpec
CONSTANTS
  Hash <- ToyHash
  Cipher <- ToyCipher
  KeyOf <- ToyKeyOf
  CtrOf <- ToyCtr
  Ids = {1}
  PayloadIx = {1, 3}
  KeyVals = {0, 1}
  NonceVals = {0}
  Thresholds = {1, 2}
  Kinds = {"none", "flipfirst", "flipmid", "fliplast", "trunc", "extend", "swapnonce", "althash", "shardfirst", "shardlast", "foreignmanifest", "foreignct"}
  MKinds = {"none", "swapnonce", "althash", "shardfirst", "shardlast"}
  DevFetchUnverified = FALSE
  DevImportUnverified = FALSE
  DevStoreBeforeVerify = TRUE
INVARIANTS C11_RejectedChangesNothing
VIEW MView
CHECK_DEADLOCK FALSE
