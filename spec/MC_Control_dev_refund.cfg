SPECIFICATION MCSpec
CONSTANTS
  Chunks = {1}
  Addrs = {1}
  Hdrs = {"none"}
  MaxNow = 5
  Window = 3
  Limit = 2
  FLimit = 2
  TokenCfg = FALSE
  PowOn = TRUE
  Families = {"rate"}
  RateCmds = {"STORE"}
  MaxHist = 99
  CheckLemma = FALSE
  DevStopUnchecked = FALSE
  DevFetchOutUnchecked = FALSE
  DevFetchLateAuth = FALSE
  DevRateKeyHeader = FALSE
  DevRefundOnRefusal = TRUE
  RateBad = TRUE
  DevTrimValues = FALSE
  DevRawNewlines = FALSE
INVARIANTS C28_Rate
VIEW View
CONSTRAINT Bound
CHECK_DEADLOCK FALSE
