SPECIFICATION MCSpec
CONSTANTS
  Chunks = {1, 2}
  Addrs = {1}
  Hdrs = {"none"}
  MaxNow = 0
  Window = 3
  Limit = 1
  FLimit = 1
  TokenCfg = TRUE
  PowOn = FALSE
  Families = {"auth"}
  RateCmds = {}
  MaxHist = 99
  CheckLemma = FALSE
  DevStopUnchecked = TRUE
  DevFetchOutUnchecked = FALSE
  DevFetchLateAuth = FALSE
  DevRateKeyHeader = FALSE
  DevRefundOnRefusal = FALSE
  RateBad = FALSE
  DevTrimValues = FALSE
  DevRawNewlines = FALSE
INVARIANTS C27_Refused
VIEW View
CONSTRAINT Bound
CHECK_DEADLOCK FALSE
