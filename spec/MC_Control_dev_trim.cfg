SPECIFICATION MCSpec
CONSTANTS
  Chunks = {1, 2, 3}
  Addrs = {1}
  Hdrs = {"none"}
  MaxNow = 0
  Window = 3
  Limit = 3
  FLimit = 3
  TokenCfg = FALSE
  PowOn = FALSE
  Families = {"frame"}
  RateCmds = {}
  MaxHist = 99
  CheckLemma = FALSE
  DevStopUnchecked = FALSE
  DevFetchOutUnchecked = FALSE
  DevFetchLateAuth = FALSE
  DevRateKeyHeader = FALSE
  DevRefundOnRefusal = FALSE
  RateBad = FALSE
  DevTrimValues = TRUE
  DevRawNewlines = FALSE
INVARIANTS C29_RoundTrip
VIEW View
CONSTRAINT Bound
CHECK_DEADLOCK FALSE
