SPECIFICATION MCSpec
CONSTANTS
  Chunks = {1, 2, 3}
  Addrs = {1}
  Hdrs = {"none"}
  MaxNow = 0
  Window = 3
  Limit = 3
  FLimit = 3
  TokenCfg = FALSE
  PowOn = FALSE
  Families = {"frame"}
  RateCmds = {}
  MaxHist = 99
  CheckLemma = TRUE
  DevStopUnchecked = FALSE
  DevFetchOutUnchecked = FALSE
  DevFetchLateAuth = FALSE
  DevRateKeyHeader = FALSE
  DevRefundOnRefusal = FALSE
  RateBad = FALSE
  DevTrimValues = FALSE
  DevRawNewlines = FALSE
INVARIANTS C27_Refused C27_NoEffect C28_Admission C28_BeforeBody C28_Rate C29_RoundTrip C29_ListComplete
VIEW View
CONSTRAINT Bound
CHECK_DEADLOCK FALSE
