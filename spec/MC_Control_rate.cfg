SPECIFICATION MCSpec
CONSTANTS
  Chunks = {1}
  Addrs = {1}
  Hdrs = {"none", "a", "b"}
  MaxNow = 5
  Window = 3
  Limit = 2
  FLimit = 2
  TokenCfg = FALSE
  PowOn = FALSE
  Families = {"rate"}
  RateCmds = {"STORE"}
  MaxHist = 99
  CheckLemma = FALSE
  DevStopUnchecked = FALSE
  DevFetchOutUnchecked = FALSE
  DevFetchLateAuth = FALSE
  DevRateKeyHeader = FALSE
  DevRefundOnRefusal = FALSE
  RateBad = FALSE
  DevTrimValues = FALSE
  DevRawNewlines = FALSE
INVARIANTS C27_Refused C27_NoEffect C28_Admission C28_BeforeBody C28_Rate C29_RoundTrip C29_ListComplete
VIEW View
CONSTRAINT Bound
CHECK_DEADLOCK FALSE
