SPECIFICATION MCSpec
CONSTANTS
  Chunks = {1}
  Addrs = {1}
  Hdrs = {"none"}
  MaxNow = 0
  Window = 3
  Limit = 3
  FLimit = 3
  TokenCfg = FALSE
  PowOn = TRUE
  Families = {"admit"}
  RateCmds = {}
  MaxHist = 99
  CheckLemma = FALSE
  DevStopUnchecked = FALSE
  DevFetchOutUnchecked = FALSE
  DevFetchLateAuth = FALSE
  DevRateKeyHeader = FALSE
  DevRefundOnRefusal = FALSE
  RateBad = FALSE
  DevTrimValues = FALSE
  DevRawNewlines = FALSE
INVARIANTS Reach_PowRefused
VIEW View
CONSTRAINT Bound
CHECK_DEADLOCK FALSE
