SPECIFICATION Spec
CONSTANT Group = "C09"
INVARIANTS L_Pad L_Stream L_LongKey L_Involution L_Advance L_Envelope
CHECK_DEADLOCK FALSE
