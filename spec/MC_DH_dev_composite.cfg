SPECIFICATION Spec
CONSTANTS
  Pm = 33
  Gm = 3
  Exps = {1, 2, 3, 4, 5}
  Native = TRUE
INVARIANTS L_Fermat
CHECK_DEADLOCK FALSE
