SPECIFICATION Spec
CONSTANTS
  Pm = 2147483647
  Gm = 5
  Exps = {2, 3, 65535, 65536, 1073741823, 1073741824, 123456789, 2147483644, 2147483645}
  Native = FALSE
INVARIANTS L_Agreement L_ExpProduct L_Fermat L_Range
CHECK_DEADLOCK FALSE
