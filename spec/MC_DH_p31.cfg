SPECIFICATION Spec
CONSTANTS
  Pm = 31
  Gm = 3
  Exps = {0,1,2,3,4,5,6,7,8,9,10,11,12,13,14,15,16,17,18,19,20,21,22,23,24,25,26,27,28,29,30}
  Native = TRUE
INVARIANTS L_Agreement L_ExpProduct L_Fermat L_Range L_NativeMul L_NativePow
CHECK_DEADLOCK FALSE
