SPECIFICATION Spec
CONSTANTS
  Pm = 46337
  Gm = 5
  Exps = {0, 1, 2, 3, 64, 255, 256, 4097, 23168, 23169, 32768, 46335, 46336}
  Native = TRUE
INVARIANTS L_Agreement L_ExpProduct L_Fermat L_Range L_NativeMul L_NativePow
CHECK_DEADLOCK FALSE
