SPECIFICATION LemmaSpec
CONSTANTS
  Self = 5
  Peers = {}
  Chunks = {}
  Ttls = {}
  RegTtls = {}
  Addrs = {0}
  K = 1
  Cap = 2
  IdBits = 4
  MaxNow = 2
  MaxHist = 6
  Routing = TRUE
  QueryTargets = {0, 1, 2, 3, 4, 5, 6, 7, 8, 9, 10, 11, 12, 13, 14, 15}
  DeadIds = {4, 7, 13}
  LocatorExpiryOverwrite = FALSE
INVARIANTS C07_Closest C07_Shape
CHECK_DEADLOCK FALSE
