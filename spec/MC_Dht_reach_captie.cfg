SPECIFICATION MCSpec
CONSTANTS
  Self = 0
  Peers = {1, 2, 3}
  Chunks = {1}
  Ttls = {1, 2}
  RegTtls = {}
  Addrs = {0}
  K = 2
  Cap = 2
  IdBits = 4
  MaxNow = 2
  MaxHist = 6
  Routing = FALSE
  QueryTargets = {}
  DeadIds = {}
  LocatorExpiryOverwrite = FALSE
INVARIANTS Reach_CapTie
VIEW View
CONSTRAINT Bound
CHECK_DEADLOCK FALSE
