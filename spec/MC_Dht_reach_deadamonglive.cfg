SPECIFICATION MCSpec
CONSTANTS
  Self = 5
  Peers = {5, 1, 2, 3}
  Chunks = {}
  Ttls = {}
  RegTtls = {0, 1, 2}
  Addrs = {0, 1}
  K = 2
  Cap = 2
  IdBits = 4
  MaxNow = 2
  MaxHist = 4
  Routing = TRUE
  QueryTargets = {9}
  DeadIds = {}
  LocatorExpiryOverwrite = FALSE
INVARIANTS Reach_DeadAmongLive
VIEW View
CONSTRAINT Bound
CHECK_DEADLOCK FALSE
