SPECIFICATION MCSpec
CONSTANTS
  Chunks = {1, 2}
  Peers = {1, 2}
  Limits = {0, 1, 2}
  ALimits = {1, 3}
  BInit = 1
  BMax = 4
  Succ = 2
  Life <- Life86
  Flaky = {1}
  AnnBy <- AnnAll
  BadFrom = {1}
  MaxAtt = 4
  MaxHist = 10
  ReannounceLeak = FALSE
INVARIANTS TypeOK C24_Limit C24_InflightZero C24_Backoff C24_Dropped D_CounterIsInflight
VIEW View
CONSTRAINT Bound
CHECK_DEADLOCK FALSE
