SPECIFICATION LiveSpec
CONSTANTS
  Chunks = {1, 2}
  Peers = {1, 2}
  Limits = {1}
  ALimits = {3}
  BInit = 1
  BMax = 4
  Succ = 2
  Life <- Life53
  Flaky = {1}
  AnnBy <- AnnSkew
  BadFrom = {}
  MaxHist = 8
  ReannounceLeak = FALSE
PROPERTIES C24_Live_Dropped
CHECK_DEADLOCK FALSE
