SPECIFICATION LiveSpec
CONSTANTS
  Chunks = {1}
  Peers = {1, 2}
  Limits = {0, 1}
  ALimits = {1, 3}
  BInit = 1
  BMax = 4
  Succ = 2
  Life <- Life6
  Flaky = {1, 2}
  AnnBy <- AnnAll
  BadFrom = {1}
  MaxAtt = 4
  MaxHist = 8
  ReannounceLeak = FALSE
PROPERTIES C24_Live_Dropped
CHECK_DEADLOCK FALSE
