SPECIFICATION MCSpec
CONSTANTS
  Chunks = {1, 2}
  Peers = {1, 2}
  Limits = {0, 1, 2}
  ALimits = {1, 3}
  BInit = 1
  BMax = 4
  Succ = 2
  Life <- Life64
  Flaky = {1}
  AnnBy <- AnnSkew
  BadFrom = {1}
  MaxAtt = 4
  MaxHist = 8
  ReannounceLeak = FALSE
INVARIANTS Reach_Exhausted
VIEW View
CONSTRAINT Bound
CHECK_DEADLOCK FALSE
