SPECIFICATION Spec
CONSTANTS
  Bits = 8
  Poly = 285
  Sample = {0, 1, 2, 3, 5, 7, 16, 29, 58, 76, 127, 128, 129, 142, 143, 170, 200, 232, 240, 251, 252, 253, 254, 255}
INVARIANTS L_TableIsProduct L_Closed L_NoZeroDivisors L_Inverse L_Commutative L_OneZero L_Distributive L_Associative L_RowPermutation
CHECK_DEADLOCK FALSE
