SPECIFICATION Spec
CONSTANTS
  Bits = 8
  Poly = 257
  Sample = {0, 1}
INVARIANTS L_NoZeroDivisors
CHECK_DEADLOCK FALSE
