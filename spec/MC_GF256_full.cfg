SPECIFICATION Spec
CONSTANTS
  Bits = 8
  Poly = 285
  Sample <- E
INVARIANTS L_TableIsProduct L_Closed L_NoZeroDivisors L_Inverse L_Commutative L_OneZero L_Distributive L_Associative L_RowPermutation
CHECK_DEADLOCK FALSE
