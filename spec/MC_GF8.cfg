SPECIFICATION Spec
CONSTANTS
  Bits = 3
  Poly = 11
  Sample = {0, 1, 2, 3, 4, 5, 6, 7}
INVARIANTS L_TableIsProduct L_Closed L_NoZeroDivisors L_Inverse L_Commutative L_OneZero L_Distributive L_Associative L_RowPermutation
CHECK_DEADLOCK FALSE
