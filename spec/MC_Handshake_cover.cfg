SPECIFICATION MCSpec
CONSTANTS
  Peers = {1, 2}
  Pubs = {1, 2}
  Bad = 99
  Cooldown = 2
  MaxNow = 4
  MaxLen = 8
  RepFloor = 4
  RepMax = 1
  Reward = 1
  Penalty = 2
  CooldownSkipsChecks = FALSE
  InvalidKeyNoPenalty = FALSE
  Versions = {"cur"}
  OldVersionSkipsPow = FALSE
INVARIANTS C20_AcceptNeedsValidKey C20_AcceptNeedsValidPow C20_AcceptRegisters C20_RejectKeepsKeys C20_RejectLowersRep D_SessionIsKey
VIEW View
CONSTRAINT Bound
CHECK_DEADLOCK FALSE
