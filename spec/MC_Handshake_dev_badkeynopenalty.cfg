SPECIFICATION MCSpec
CONSTANTS
  Peers = {1, 2}
  Pubs = {1, 2}
  Bad = 99
  Cooldown = 2
  MaxNow = 4
  MaxLen = 8
  RepFloor = 6
  RepMax = 2
  Reward = 1
  Penalty = 2
  CooldownSkipsChecks = FALSE
  InvalidKeyNoPenalty = TRUE
  Versions = {"cur"}
  OldVersionSkipsPow = FALSE
INVARIANTS C20_RejectLowersRep
VIEW View
CONSTRAINT Bound
CHECK_DEADLOCK FALSE
