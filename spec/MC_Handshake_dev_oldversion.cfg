SPECIFICATION MCSpec
CONSTANTS
  Peers = {1, 2}
  Pubs = {1, 2}
  Bad = 99
  Cooldown = 2
  MaxNow = 4
  MaxLen = 4
  RepFloor = 4
  RepMax = 1
  Reward = 1
  Penalty = 2
  CooldownSkipsChecks = FALSE
  InvalidKeyNoPenalty = FALSE
  Versions = {"cur", "old"}
  OldVersionSkipsPow = TRUE
INVARIANTS C20_AcceptNeedsValidPow
VIEW View
CONSTRAINT Bound
CHECK_DEADLOCK FALSE
