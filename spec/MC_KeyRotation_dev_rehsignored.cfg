SPECIFICATION Spec
CONSTANTS
  IntA = 2
  IntB = 2
  Skew = 0
  MaxNow = 6
  KdfUsesTime = TRUE
  Coordinated = FALSE
  TearDown = FALSE
  ReHandshakes = 1
  IgnoreReHandshakeWhileOpen = TRUE
  SplitTicks = FALSE
  NegativeElapsedIsDue = FALSE
INVARIANTS C39_ReHandshakeConverges
VIEW View
CONSTRAINT Bound
CHECK_DEADLOCK FALSE
