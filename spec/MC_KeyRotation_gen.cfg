SPECIFICATION Spec
CONSTANTS
  IntA = 2
  IntB = 3
  Skew = 1
  MaxNow = 6
  KdfUsesTime = TRUE
  Coordinated = FALSE
  TearDown = FALSE
  ReHandshakes = 1
  IgnoreReHandshakeWhileOpen = FALSE
  SplitTicks = FALSE
  NegativeElapsedIsDue = FALSE

VIEW View
CONSTRAINT Bound
CHECK_DEADLOCK FALSE
