SPECIFICATION Spec
CONSTANTS
  IntA = 2
  IntB = 3
  Skew = 1
  MaxNow = 6
  KdfUsesTime = TRUE
  Coordinated = TRUE
  TearDown = FALSE
  ReHandshakes = 0
  IgnoreReHandshakeWhileOpen = FALSE
  SplitTicks = FALSE
  NegativeElapsedIsDue = FALSE
INVARIANTS C39_SameKeyWhileOpen
VIEW View
CONSTRAINT Bound
CHECK_DEADLOCK FALSE
