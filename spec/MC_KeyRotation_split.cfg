SPECIFICATION Spec
CONSTANTS
  IntA = 2
  IntB = 2
  Skew = 0
  MaxNow = 4
  KdfUsesTime = TRUE
  Coordinated = FALSE
  TearDown = FALSE
  ReHandshakes = 1
  IgnoreReHandshakeWhileOpen = FALSE
  SplitTicks = TRUE
  NegativeElapsedIsDue = FALSE
INVARIANTS C39_ReHandshakeConverges C39_NoEarlyRotation
VIEW View
CONSTRAINT Bound
CHECK_DEADLOCK FALSE
