SPECIFICATION Spec
CONSTANTS MaxLen = 1
  DevRawControl = TRUE
  DevRawQuote = FALSE
INVARIANT C37_EscapeLemma
CHECK_DEADLOCK FALSE
