SPECIFICATION Spec
CONSTANTS MaxLen = 1
  DevRawControl = FALSE
  DevRawQuote = TRUE
INVARIANT C37_EscapeLemma
CHECK_DEADLOCK FALSE
