SPECIFICATION Spec
CONSTANTS MaxLen = 2
  DevRawControl = FALSE
  DevRawQuote = FALSE
INVARIANT C37_EscapeLemma
INVARIANT C37_EscapedIsClean
CHECK_DEADLOCK FALSE
