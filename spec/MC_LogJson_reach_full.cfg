SPECIFICATION Spec
CONSTANTS MaxLen = 2
  DevRawControl = FALSE
  DevRawQuote = FALSE
INVARIANT Reach_FullLength
CHECK_DEADLOCK FALSE
