--------------------------- MODULE MC_ManifestWire ---------------------------
(* Lemma and generator models over ManifestWire.  One state per case (x); the invariants   *)
(* are the lemmas.  Family selects the case set:                                            *)
(*   "shards" "meta" "disc" "fb" "lens"   small shapes, exhaustive (lists 0..2, strings<=2)  *)
(*   "bounds"    one field at a boundary size (255/256/300 entries, 255/256/65535/65536      *)
(*               bytes), full Encode/Decode in the specification                             *)
(*   "shapes"    boundary shape descriptors for the driver (one or two fields off base)      *)
(*   "mut"       C18 inputs derived from valid layouts (truncations, count bytes maximised,  *)
(*               expiry fields, prefix/base64 damage)                                        *)
EXTENDS ManifestWire
\* (the case families take a dummy argument: TLC evaluates nullary constant definitions at start-up,
\* every family would be built for every configuration)
CONSTANTS Family, A1, A2, ShardCheck, Quick     \* Quick: the smaller case sets of the quick tier
VARIABLES x, ph      \* ph = "part": x is a partition number; ph = "case": x is a case

Pat(seed, n) == [i \in 1..n |-> (seed * 37 + i * 11) % 256]
Sec(n) == <<0, 0, 0, 0, (n \div 16777216) % 256, (n \div 65536) % 256, (n \div 256) % 256, n % 256>>
Base == [id |-> Pat(1, 32), hash |-> Pat(2, 32), nonce |-> Pat(3, 12), thr |-> 2, tot |-> 3,
         exp |-> [s |-> Sec(1790000000), f |-> 0], shards |-> <<>>, meta |-> <<>>, disc |-> <<>>,
         tcb |-> 0, adv |-> <<>>, hasdig |-> FALSE, dig |-> Zero32, fb |-> <<>>]
Strs(A, n) == UNION {[1..k -> A] : k \in 0..n}
\* lists of 0, 1 (entries from A) and 2 (entries from B) elements
Lists(S, A, B) == {<<>>} \cup {<<a>> : a \in A} \cup {<<a, b>> : a \in B, b \in B}

Expiries == { [s |-> Rep(0, 8), f |-> 0], [s |-> Rep(255, 8), f |-> 0], [s |-> Rep(255, 8), f |-> 500000000],
              [s |-> <<255, 255, 255, 255, 255, 255, 255, 254>>, f |-> 1],
              [s |-> Sec(1790000000), f |-> 123456789], [s |-> <<0, 0, 0, 0, 128, 0, 0, 0>>, f |-> 0],
              [s |-> <<0, 0, 0, 0, 255, 255, 255, 255>>, f |-> 999999999],
              [s |-> MaxSec, f |-> 854775807],
              [s |-> <<255, 255, 255, 253, 218, 62, 130, 251>>, f |-> 145224192] }   \* time_point::min()

Shard1 == {[i |-> a, v |-> Pat(b, 32)] : a \in {0, 255}, b \in IF Quick THEN {5} ELSE {5, 6}}
FamShards(u_) == {[Base EXCEPT !.shards = sh, !.thr = t[1], !.tot = t[2], !.exp = e, !.hasdig = d[1], !.dig = d[2]] :
                 sh \in Lists(0, Shard1, Shard1), t \in IF Quick THEN {<<0, 255>>} ELSE {<<0, 255>>, <<255, 0>>}, e \in Expiries,
                 d \in {<<TRUE, Zero32>>, <<TRUE, Pat(9, 32)>>, <<FALSE, Zero32>>, <<FALSE, Pat(9, 32)>>}}

Meta1(A) == {[k |-> k, v |-> v] : k \in Strs(A, 2), v \in Strs(A, 2)}
FamMeta(u_) == {[Base EXCEPT !.meta = ml] :
              ml \in {<<>>} \cup {<<a>> : a \in Meta1(A1)}
                     \cup {ab \in {<<a, b>> : a \in Meta1(IF Quick THEN A2 ELSE A1), b \in Meta1(IF Quick THEN A2 ELSE A1)} : LexLess(ab[1].k, ab[2].k)}}

Disc1(A) == {[sch |-> s, tr |-> t, ep |-> e, pr |-> p] : s \in Strs(A, 2), t \in Strs(A, 2), e \in Strs(A, 2), p \in IF Quick THEN {255} ELSE {0, 255}}
FamDisc(u_) == {[Base EXCEPT !.disc = dl] : dl \in Lists(0, Disc1(A1), Disc1(A2))}

Fb1(A) == {[uri |-> u, pr |-> p] : u \in Strs(A, 2), p \in {0, 255}}
FamFb(u_) == {[Base EXCEPT !.fb = fl, !.adv = a, !.tcb = t] : fl \in Lists(0, Fb1(A1), Fb1(IF Quick THEN A2 ELSE A1)), a \in Strs(IF Quick THEN A2 ELSE A1, 2), t \in {0, 255}}

LensParams == {q \in (0..2) \X (0..2) \X BOOLEAN : ~Quick \/ (q[2] = (q[1] + 1) % 3 /\ q[3] = (q[1] = 1))}
\* all four lists at sizes 0..2 together; string lengths 0..2 by field group
FamLens(u_) == {[Base EXCEPT !.shards = [i \in 1..c[1] |-> [i |-> i, v |-> Pat(i, 32)]],
                         !.meta = [i \in 1..c[2] |-> [k |-> Rep(96 + i, q[1] + i - 1), v |-> Rep(48 + i, q[2])]],
                         !.disc = [i \in 1..c[3] |-> [sch |-> Rep(115, q[1]), tr |-> Rep(116, q[2]), ep |-> Rep(101, IF i = 1 THEN q[1] ELSE q[2]), pr |-> i]],
                         !.fb = [i \in 1..c[4] |-> [uri |-> Rep(117, IF i = 1 THEN q[1] ELSE q[2]), pr |-> 255 - i]],
                         !.adv = Rep(97, q[2]), !.hasdig = q[3], !.dig = Pat(7, 32)] :
               c \in (0..2) \X (0..2) \X (0..2) \X (0..2), q \in LensParams}

\* ---- boundary manifests (full content, one field at a boundary) --------------------------
Key2(i) == <<107, i \div 256, i % 256>>
BoundCases == { <<f, n>> : f \in {"shards", "meta", "disc", "fb"}, n \in {255, 256, 300} }
         \cup { <<f, n>> : f \in {"k", "sch", "tr"}, n \in {255, 256} }
         \cup { <<f, n>> : f \in {"v", "ep", "uri", "adv"}, n \in {255, 256, 65535, 65536} }
BoundManifest(c) ==
    LET f == c[1]  n == c[2] IN
    [Base EXCEPT !.shards = [i \in 1..(IF f = "shards" THEN n ELSE 1) |-> [i |-> i % 256, v |-> Pat(i, 32)]],
                 !.meta = [i \in 1..(IF f = "meta" THEN n ELSE 1) |->
                             [k |-> IF f = "k" THEN Rep(107, n) ELSE Key2(i), v |-> IF f = "v" THEN Pat(4, n) ELSE <<118>>]],
                 !.disc = [i \in 1..(IF f = "disc" THEN n ELSE 1) |->
                             [sch |-> IF f = "sch" THEN Rep(115, n) ELSE <<>>, tr |-> IF f = "tr" THEN Rep(116, n) ELSE <<116, 99, 112>>,
                              ep |-> IF f = "ep" THEN Pat(5, n) ELSE <<49, 58, 50>>, pr |-> i % 256]],
                 !.fb = [i \in 1..(IF f = "fb" THEN n ELSE 1) |-> [uri |-> IF f = "uri" THEN Pat(6, n) ELSE <<104>>, pr |-> i % 256]],
                 !.adv = IF f = "adv" THEN Pat(7, n) ELSE <<97>>]
FamBounds(u_) == {[c |-> c, m |-> BoundManifest(c)] : c \in BoundCases}

\* ---- boundary shape descriptors for the driver -------------------------------------------
ListSizes == {0, 1, 255, 256, 300}
S8 == {0, 255, 256}
S16 == {0, 255, 256, 65535, 65536}
ShapeBase == [shards |-> 1, meta |-> 1, disc |-> 1, fb |-> 1, k |-> 1, v |-> 1, sch |-> 1, tr |-> 1, ep |-> 1, uri |-> 1, adv |-> 1, exp |-> 2, hasdig |-> 1]
ShapeDom == [shards |-> ListSizes, meta |-> ListSizes, disc |-> ListSizes, fb |-> ListSizes, k |-> S8, sch |-> S8, tr |-> S8,
             v |-> S16, ep |-> S16, uri |-> S16, adv |-> S16, exp |-> 0..7, hasdig |-> {0, 1}]
Fields == DOMAIN ShapeBase
Shapes1(u_) == UNION {{[ShapeBase EXCEPT ![f] = a] : a \in ShapeDom[f]} : f \in Fields}
Shapes2(u_) == UNION {UNION {{[ShapeBase EXCEPT ![f] = a, ![g] = b] : a \in ShapeDom[f], b \in ShapeDom[g]} : g \in Fields \ {f}} : f \in Fields}
ShapeRepresentable(s) == s.shards <= 255 /\ s.meta <= 255 /\ s.disc <= 255 /\ s.fb <= 255
                         /\ (s.meta > 0 => s.k <= 255 /\ s.v <= 65535)
                         /\ (s.disc > 0 => s.sch <= 255 /\ s.tr <= 255 /\ s.ep <= 65535)
                         /\ (s.fb > 0 => s.uri <= 65535) /\ s.adv <= 65535

\* ---- C18 inputs ----------------------------------------------------------------------------
MutBases == { [Base EXCEPT !.shards = [i \in 1..2 |-> [i |-> i, v |-> Pat(i, 32)]],
                           !.meta = <<[k |-> <<97>>, v |-> <<49, 50>>], [k |-> <<98, 99>>, v |-> <<>>]>>,
                           !.disc = <<[sch |-> <<>>, tr |-> <<116, 99, 112>>, ep |-> <<49, 58, 50>>, pr |-> 7],
                                      [sch |-> <<99>>, tr |-> <<117>>, ep |-> <<>>, pr |-> 0]>>,
                           !.tcb = 12, !.adv = <<111, 107>>, !.hasdig = TRUE, !.dig = Pat(8, 32),
                           !.fb = <<[uri |-> <<104, 58>>, pr |-> 1], [uri |-> <<>>, pr |-> 2]>>],
              [Base EXCEPT !.shards = <<[i |-> 1, v |-> Pat(1, 32)]>>, !.meta = <<[k |-> <<107>>, v |-> <<118>>]>>,
                           !.disc = <<[sch |-> <<115>>, tr |-> <<116>>, ep |-> <<101>>, pr |-> 3]>>,
                           !.fb = <<[uri |-> <<117>>, pr |-> 9]>>],
              Base }
ExtremeSecs == { Rep(255, 8), Rep(0, 8), <<127, 255, 255, 255, 255, 255, 255, 255>>, <<128, 0, 0, 0, 0, 0, 0, 0>>,
                 <<0, 0, 0, 0, 128, 0, 0, 0>>, MaxSec, Inc8(MaxSec), MinSec, <<255, 255, 255, 253, 218, 62, 130, 251>>,
                 <<0, 0, 0, 2, 37, 193, 125, 5>>, <<0, 0, 0, 3, 0, 0, 0, 0>>, <<64, 0, 0, 0, 0, 0, 0, 0>>, <<255, 255, 255, 253, 0, 0, 0, 0>>,
                 <<0, 0, 0, 4, 74, 131, 250, 8>>, <<0, 0, 0, 4, 74, 131, 250, 9>> }
SetAt(b, i, val) == [b EXCEPT ![i] = val]
\* offsets (1-based) of the count / length bytes of a layout: every byte is tried at 255
BadChars == {0, 10, 32, 45, 95, 61, 128, 255, 64, 91}
MutOfV(m, v) ==
          ( LET b == Layout(m, v, "trunc")
                u == Uri(b)
            IN {[kind |-> "trunc", v |-> v, k |-> k, full |-> Len(b), chars |-> Uri(SubSeq(b, 1, k))] : k \in 0..Len(b)}
               \cup {[kind |-> "max", v |-> v, k |-> k, full |-> Len(b), chars |-> Uri(SetAt(b, k, 255))] : k \in 86..Len(b)}
               \cup {[kind |-> "zero", v |-> v, k |-> k, full |-> Len(b), chars |-> Uri(SetAt(b, k, 0))] : k \in 86..Len(b)}
               \cup {[kind |-> "expiry", v |-> v, k |-> 0, full |-> Len(b), chars |-> Uri(SubSeq(b, 1, 77) \o e \o SubSeq(b, 86, Len(b)))] : e \in ExtremeSecs}
               \cup {[kind |-> "version", v |-> v, k |-> w, full |-> Len(b), chars |-> Uri(SetAt(b, 1, w))] : w \in {0, 5, 255}}
               \cup {[kind |-> "trail", v |-> v, k |-> 1, full |-> Len(b), chars |-> Uri(b \o <<0>>)]}
               \cup {[kind |-> "b64len", v |-> v, k |-> d, full |-> Len(b), chars |-> SubSeq(u, 1, Len(u) - d)] : d \in 1..3}
               \cup {[kind |-> "b64pad", v |-> v, k |-> j, full |-> Len(b), chars |-> SetAt(u, j, 61)] : j \in (7..18) \cup ((Len(u) - 9)..Len(u))}
               \cup {[kind |-> "b64char", v |-> v, k |-> j * 1000 + c, full |-> Len(b), chars |-> SetAt(u, j, c)] : j \in {7, 8, 9, 10, Len(u) - 1, Len(u)}, c \in BadChars}
               \cup {[kind |-> "prefix", v |-> v, k |-> j, full |-> Len(b), chars |-> SetAt(u, j, 88)] : j \in 1..6}
               \cup {[kind |-> "prefix", v |-> v, k |-> 10 + j, full |-> Len(b), chars |-> SubSeq(u, 1 + j, Len(u))] : j \in 1..6}
               \cup {[kind |-> "prefix", v |-> v, k |-> 20 + j, full |-> Len(b), chars |-> SubSeq(u, 1, j)] : j \in 0..6} )
MutBaseSeq == SetToSeq(MutBases)
FamMut(u_) == UNION {MutOfV(m, v) : m \in MutBases, v \in 1..4}

Cases == CASE Family = "shards" -> FamShards(0) [] Family = "meta" -> FamMeta(0) [] Family = "disc" -> FamDisc(0)
           [] Family = "fb" -> FamFb(0) [] Family = "lens" -> FamLens(0) [] Family = "bounds" -> FamBounds(0)
           [] Family = "shapes1" -> Shapes1(0) [] Family = "shapes2" -> Shapes1(0) \cup Shapes2(0) [] Family = "mut" -> {}   \* (built per partition in Next)

\* Init states are evaluated by one thread; the cases are therefore the successors of NParts
\* partition states so that the workers share the lemma evaluations.
NParts == IF Family = "mut" THEN 4 * Len(MutBaseSeq) ELSE 32
CaseSeq == IF Family = "mut" THEN <<>> ELSE SetToSeq(Cases)
Init == ph = "part" /\ x \in 1..NParts
Next == /\ ph = "part" /\ ph' = "case"
        /\ IF Family = "mut"       \* one partition per (base manifest, version): built by the worker
           THEN x' \in MutOfV(MutBaseSeq[((x - 1) \div 4) + 1], ((x - 1) % 4) + 1)
           ELSE \E j \in {j \in 1..Len(CaseSeq) : j % NParts = x % NParts} : x' = CaseSeq[j]
Spec == Init /\ [][Next]_<<x, ph>>

\* ---- invariants ------------------------------------------------------------------------------
Small == ph = "case" /\ Family \in {"shards", "meta", "disc", "fb", "lens"}
C17_Roundtrip == Small => RoundtripLemma(x)
C17_Versions == Small => VersionLemma(x)
C18_Truncation == Small => TruncationLemma(x)
\* boundary manifests: accepted iff representable, and the accepted ones come back
C17_Bounds == (ph = "case" /\ Family = "bounds") =>
    LET e == EncodeX(x.m, "trunc", ShardCheck)
        limit == IF x.c[1] \in {"shards", "meta", "disc", "fb", "k", "sch", "tr"} THEN 255 ELSE 65535
    IN /\ Representable(x.m) = (x.c[2] <= limit)
       /\ e.ok => LET d == Decode(e.uri) IN d.ok /\ Same(d.m, x.m)
C17_Shapes == (ph = "case" /\ Family \in {"shapes1", "shapes2"}) => (ShapeRepresentable(x) \in BOOLEAN)
\* the decoder is total on the damaged inputs, and refuses the classes that must be refused
C18_Mut == (ph = "case" /\ Family = "mut") =>
    LET d == Decode(x.chars) IN
    /\ d.ok \in BOOLEAN
    /\ (x.kind = "trunc" /\ x.k < x.full) => ~d.ok
    /\ x.kind \in {"b64len", "prefix", "version"} => ~d.ok
    /\ (x.kind = "b64char" /\ x.k % 1000 # 61) => ~d.ok
    /\ (x.kind = "trunc" /\ x.k = x.full) => d.ok
    /\ x.kind = "trail" => d.ok
=============================================================================
