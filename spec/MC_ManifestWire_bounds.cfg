SPECIFICATION Spec
CONSTANTS
  Family = "bounds"
  A1 = {0, 255}
  A2 = {97}
  ShardCheck = TRUE
  Quick = TRUE
INVARIANTS C17_Bounds
CHECK_DEADLOCK FALSE
