SPECIFICATION Spec
CONSTANTS
  Family = "bounds"
  A1 = {0, 255}
  A2 = {97}
  ShardCheck = FALSE
  Quick = TRUE
INVARIANTS C17_Bounds
CHECK_DEADLOCK FALSE
