SPECIFICATION Spec
CONSTANTS
  Family = "disc"
  A1 = {0, 255}
  A2 = {97}
  ShardCheck = TRUE
  Quick = TRUE
INVARIANTS C17_Roundtrip C17_Versions
CHECK_DEADLOCK FALSE
