SPECIFICATION Spec
CONSTANTS
  Family = "mut"
  A1 = {0, 255}
  A2 = {97}
  ShardCheck = TRUE
  Quick = TRUE
INVARIANTS C18_Mut
CHECK_DEADLOCK FALSE
