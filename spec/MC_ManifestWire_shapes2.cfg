SPECIFICATION Spec
CONSTANTS
  Family = "shapes2"
  A1 = {0, 255}
  A2 = {97}
  ShardCheck = TRUE
  Quick = TRUE
INVARIANTS C17_Shapes
CHECK_DEADLOCK FALSE
