SPECIFICATION Spec
CONSTANTS
  Family = "shards"
  A1 = {0, 255}
  A2 = {97}
  ShardCheck = TRUE
  Quick = FALSE
INVARIANTS C17_Roundtrip C17_Versions
CHECK_DEADLOCK FALSE
