SPECIFICATION Spec
CONSTANTS
  Chunks = {1}
  ValidateIndices = TRUE
  GuardCombine = TRUE
  GuardControl = FALSE
  SafeDecode = TRUE
  GuardEndpoint = TRUE
  RelayClientChecked = TRUE
  NoSigpipe = TRUE
  MaxHist = 4
INVARIANTS C35_NoThrow
VIEW View
CONSTRAINT Bound
CHECK_DEADLOCK FALSE
