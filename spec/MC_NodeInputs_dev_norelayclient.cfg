SPECIFICATION Spec
CONSTANTS
  Chunks = {1}
  ValidateIndices = TRUE
  GuardCombine = TRUE
  GuardControl = TRUE
  SafeDecode = TRUE
  GuardEndpoint = TRUE
  RelayClientChecked = FALSE
  NoSigpipe = TRUE
  MaxHist = 4
INVARIANTS C35_NoThrow
VIEW View
CONSTRAINT Bound
CHECK_DEADLOCK FALSE
