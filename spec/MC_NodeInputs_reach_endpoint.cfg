SPECIFICATION Spec
CONSTANTS
  Chunks = {1}
  ValidateIndices = TRUE
  GuardCombine = TRUE
  GuardControl = TRUE
  SafeDecode = TRUE
  GuardEndpoint = TRUE
  NoSigpipe = TRUE
  MaxHist = 4
INVARIANTS Reach_HostileEndpointParsed
VIEW View
CONSTRAINT Bound
CHECK_DEADLOCK FALSE
