SPECIFICATION Spec
CONSTANTS
  Chunks = {1}
  ValidateIndices = TRUE
  GuardCombine = TRUE
  GuardControl = TRUE
  SafeDecode = TRUE
  GuardEndpoint = TRUE
  RelayClientChecked = TRUE
  NoSigpipe = TRUE
  MaxHist = 4
INVARIANTS Reach_RelayHintWalked
VIEW View
CONSTRAINT Bound
CHECK_DEADLOCK FALSE
