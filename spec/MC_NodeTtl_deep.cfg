SPECIFICATION MCSpec
CONSTANTS
  Chunks = {1}
  Peers = {1}
  MinT = 2
  MaxT = 4
  DefT = 3
  CleanInt = 1
  TtlReqs = {0, 9}
  Exps = {0, 1, 2, 3, 9}
  AdvTtls = {0, 9}
  MaxNow = 5
  PruneCache = TRUE
  CapPending = TRUE
  MaxHist = 9
  WithdrawOnExpiry = TRUE
  KeepLaterDeadline = FALSE
  EraseOnLookup = FALSE
INVARIANTS C01_Reads C02_StoreWindow C03_Derived C03_ArrivalWrites C05_Clean C05_Once
VIEW View
CONSTRAINT Bound
CHECK_DEADLOCK FALSE
