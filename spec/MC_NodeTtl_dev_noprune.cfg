SPECIFICATION MCSpec
CONSTANTS
  Chunks = {1}
  Peers = {1}
  MinT = 2
  MaxT = 4
  DefT = 3
  CleanInt = 1
  TtlReqs = {0, 9}
  Exps = {0, 1, 3, 9}
  AdvTtls = {0, 9}
  MaxNow = 5
  PruneCache = FALSE
  CapPending = TRUE
  MaxHist = 7
  WithdrawOnExpiry = TRUE
  KeepLaterDeadline = FALSE
  EraseOnLookup = FALSE
INVARIANTS C05_Clean
VIEW View
CONSTRAINT Bound
CHECK_DEADLOCK FALSE
