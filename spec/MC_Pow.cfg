SPECIFICATION Spec
INVARIANTS L_LZ L_Accept L_Monotone L_Prefix
CHECK_DEADLOCK FALSE
