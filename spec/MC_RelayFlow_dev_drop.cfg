SPECIFICATION Spec
CONSTANTS
  N = 5
  KS = 1
  KR = 1
  Cap = 2
  LogOn = TRUE
  Mode = "drop"
INVARIANTS C25_Conservation
VIEW View
CHECK_DEADLOCK FALSE
