SPECIFICATION FairSpec
CONSTANTS
  N = 5
  KS = 1
  KR = 1
  Cap = 2
  LogOn = FALSE
  Mode = "hold-noresume"
PROPERTIES C25_Live_AllDelivered
CHECK_DEADLOCK FALSE
