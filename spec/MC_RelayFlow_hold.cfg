SPECIFICATION Spec
CONSTANTS
  N = 5
  KS = 1
  KR = 1
  Cap = 2
  LogOn = TRUE
  Mode = "hold"
INVARIANTS C25_Conservation C25_InOrder D_Bounded
VIEW View
CHECK_DEADLOCK FALSE
