SPECIFICATION Spec
CONSTANTS
  N = 5
  KS = 1
  KR = 1
  Cap = 2
  LogOn = TRUE
  Mode = "unbounded"
INVARIANTS Reach_StalledBacklog
VIEW View
CHECK_DEADLOCK FALSE
