SPECIFICATION Spec
CONSTANTS
  N = 5
  KS = 1
  KR = 1
  Cap = 2
  LogOn = TRUE
  Mode = "hold"
INVARIANTS Reach_Paused
VIEW View
CHECK_DEADLOCK FALSE
