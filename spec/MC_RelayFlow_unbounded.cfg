SPECIFICATION Spec
CONSTANTS
  N = 5
  KS = 1
  KR = 1
  Cap = 2
  LogOn = TRUE
  Mode = "unbounded"
INVARIANTS C25_Conservation C25_InOrder
VIEW View
CHECK_DEADLOCK FALSE
