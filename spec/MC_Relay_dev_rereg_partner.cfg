SPECIFICATION MCSpec
CONSTANTS
  Clients = {1, 2, 3}
  Ids = {1, 2}
  MaxData = 1
  MaxHist = 0
  RegWhileClaimed = "accept"
  AltSpelling = "off"
INVARIANTS C25_PartnerDisconnected
VIEW View
CONSTRAINT Bound
CHECK_DEADLOCK FALSE
