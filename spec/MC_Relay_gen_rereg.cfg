SPECIFICATION MCSpec
CONSTANTS
  Clients = {1, 2, 3}
  Ids = {1, 2}
  MaxData = 1
  MaxHist = 9
  RegWhileClaimed = "accept"
  AltSpelling = "off"
VIEW View
CONSTRAINT Bound
CHECK_DEADLOCK FALSE
