SPECIFICATION MCSpec
CONSTANTS
  Clients = {1, 2, 3}
  Ids = {1, 2}
  MaxData = 1
  MaxHist = 6
  RegWhileClaimed = "refuse"
  AltSpelling = "off"
INVARIANTS ReachAll
VIEW ViewObs
CONSTRAINT Bound
CHECK_DEADLOCK FALSE
