SPECIFICATION MCSpec
CONSTANTS
  Clients = {1, 2, 3}
  Ids = {1, 2}
  MaxData = 1
  MaxHist = 0
  RegWhileClaimed = "refuse"
  AltSpelling = "off"
INVARIANTS Reach_BridgeDataBothWays
VIEW ViewObs
CONSTRAINT Bound
CHECK_DEADLOCK FALSE
