SPECIFICATION MCSpec
CONSTANTS
  Clients = {1, 2, 3}
  Ids = {1, 2}
  MaxData = 1
  MaxHist = 8
  RegWhileClaimed = "refuse"
  AltSpelling = "refuse"
INVARIANTS C25_OnlyPartner C25_NoRelayBeforeBridge C25_InOrderNoLoss C25_SingleClaim C25_Symmetric C25_PartnerDisconnected C26_Released C26_NeverHangs D_RegistryConsistent
VIEW View
CONSTRAINT Bound
CHECK_DEADLOCK FALSE
