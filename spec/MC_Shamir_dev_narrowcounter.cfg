SPECIFICATION Spec
CONSTANTS
  FBits = 3
  FPoly = 11
  Idx = {1, 2, 3, 4, 5, 6, 7}
  MaxT = 1
  TFull = 3
  KFull = 3
  Secrets = {0, 1, 2, 3, 4, 5, 6, 7}
  BadVals = {0, 1, 2, 3, 4, 5, 6, 7}
  DevSkipZeroShares = FALSE
  DevNarrowCounter = TRUE
INVARIANTS Inv_SplitTerminates
CHECK_DEADLOCK FALSE
