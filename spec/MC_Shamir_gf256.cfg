SPECIFICATION Spec
CONSTANTS
  FBits = 8
  FPoly = 285
  Idx = {1, 2, 255}
  MaxT = 3
  TFull = 2
  KFull = 2
  Secrets = {0, 165}
  BadVals = {0, 1, 165, 255}
  DevSkipZeroShares = FALSE
  DevNarrowCounter = FALSE
INVARIANTS Inv_ReconstructBasis Inv_ReconstructAll Inv_Secrecy Inv_BadSetsRejected Inv_SplitTerminates
CHECK_DEADLOCK FALSE
