SPECIFICATION Spec
CONSTANTS
  FBits = 3
  FPoly = 11
  Idx = {1, 2, 3, 4, 5, 6, 7}
  MaxT = 7
  TFull = 4
  KFull = 4
  Secrets = {0, 1, 2, 3, 4, 5, 6, 7}
  BadVals = {0, 1, 2, 3, 4, 5, 6, 7}
  DevSkipZeroShares = FALSE
  DevNarrowCounter = FALSE
INVARIANTS Inv_ReconstructBasis Inv_ReconstructAll Inv_Secrecy Inv_SecrecyProjection Inv_BadSetsRejected Inv_SplitTerminates
CHECK_DEADLOCK FALSE
