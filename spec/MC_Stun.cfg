SPECIFICATION Spec
CONSTANTS MaxAttrs = 2
          HeaderlessBound = FALSE
          Types = {257, 273}
          Deltas <- DeltasQuick
          TidModes = {"match", "last"}
          Trails = {"none", "addr"}
INVARIANT C33_DesignMeetsContract
INVARIANT DesignReportsWhenReportable
CHECK_DEADLOCK FALSE
