SPECIFICATION Spec
CONSTANTS MaxAttrs = 1
          HeaderlessBound = TRUE
          Types = {257, 273}
          Deltas <- DeltasQuick
          TidModes = {"match", "last"}
          Trails = {"none", "addr"}
INVARIANT C33_DesignMeetsContract
CHECK_DEADLOCK FALSE
