SPECIFICATION Spec
CONSTANTS MaxAttrs = 2
          HeaderlessBound = FALSE
          Types = {257, 273, 1}
          Deltas <- DeltasFull
          TidModes = {"match", "last", "first"}
          Trails = {"none", "addr", "junk"}
INVARIANT C33_DesignMeetsContract
INVARIANT DesignReportsWhenReportable
CHECK_DEADLOCK FALSE
