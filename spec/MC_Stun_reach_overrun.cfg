SPECIFICATION Spec
CONSTANTS MaxAttrs = 1
          HeaderlessBound = FALSE
          Types = {257, 273}
          Deltas <- DeltasQuick
          TidModes = {"match", "last"}
          Trails = {"none", "addr"}
INVARIANT Reach_OverrunInsideDatagram
CHECK_DEADLOCK FALSE
