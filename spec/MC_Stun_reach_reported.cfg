SPECIFICATION Spec
CONSTANTS MaxAttrs = 2
          HeaderlessBound = FALSE
          Types = {257, 273}
          Deltas <- DeltasQuick
          TidModes = {"match", "last"}
          Trails = {"none", "addr"}
INVARIANT Reach_Reported
CHECK_DEADLOCK FALSE
