SPECIFICATION MCSpec
CONSTANTS
  LiveCounts = {0, 1, 2, 3, 4, 5, 6}
  ShortCounts = {0}
  SelfModes = {"none"}
  ShortNear = {FALSE}
  Samples = {8}
  Orders = {"busy"}
  ShardCounts = {0, 1, 2, 3, 4, 5, 6, 7}
  Thrs = {0, 1, 2, 3, 4, 5}
  Targets = {0, 1, 2, 3, 4, 5}
  Mins = {0, 1, 2, 3, 4, 5}
  MaxNow = 0
  DevKeepSelf = FALSE
  DevKeepExpired = FALSE
  DevBlockAssign = FALSE
INVARIANTS C22_EveryShardOnce C22_ProvidersEligible C22_EvenShare C22_ProviderCount C22_PlanOk
VIEW View
CHECK_DEADLOCK FALSE
