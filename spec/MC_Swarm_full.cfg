SPECIFICATION MCSpec
CONSTANTS
  LiveCounts = {0, 1, 2, 3, 4, 5, 6}
  ShortCounts = {0, 2}
  SelfModes = {"none", "near", "far"}
  ShortNear = {TRUE, FALSE}
  Samples = {0, 1, 3, 8}
  Orders = {"flat-asc", "busy"}
  ShardCounts = {0, 1, 2, 3, 4, 5, 6, 7}
  Thrs = {0, 1, 2, 3, 4, 5}
  Targets = {0, 1, 2, 3, 4, 5}
  Mins = {0, 1, 2, 3, 4, 5}
  MaxNow = 2
  DevKeepSelf = FALSE
  DevKeepExpired = FALSE
  DevBlockAssign = FALSE
INVARIANTS C22_EveryShardOnce C22_ProvidersEligible C22_EvenShare C22_ProviderCount C22_PlanOk
VIEW View
CHECK_DEADLOCK FALSE
