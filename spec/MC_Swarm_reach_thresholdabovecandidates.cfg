SPECIFICATION MCSpec
CONSTANTS
  LiveCounts = {0, 2, 4}
  ShortCounts = {0, 2}
  SelfModes = {"none", "near", "far"}
  ShortNear = {TRUE}
  Samples = {0, 2, 8}
  Orders = {"busy"}
  ShardCounts = {0, 3, 7}
  Thrs = {0, 5}
  Targets = {0, 2, 5}
  Mins = {0, 2}
  MaxNow = 2
  DevKeepSelf = FALSE
  DevKeepExpired = FALSE
  DevBlockAssign = FALSE
INVARIANTS Reach_ThresholdAboveCandidates
VIEW View
CHECK_DEADLOCK FALSE
