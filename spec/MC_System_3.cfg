SPECIFICATION Spec
CONSTANTS
  Nodes = {1, 2, 3}
  MinT = 2
  MaxT = 3
  DefT = 2
  CleanInt = 1
  TtlReqs = {0, 9}
  MaxNow = 4
  MaxMsgs = 3
  MaxHist = 6
  CheckOnArrival = TRUE
INVARIANTS E2E_NothingOutlivesManifest E2E_ServedOnlyWhileLive E2E_GoneAfterExpiry
VIEW View
CONSTRAINT Bound
CHECK_DEADLOCK FALSE
