SPECIFICATION Spec
CONSTANTS
  Nodes = {1, 2}
  MinT = 2
  MaxT = 3
  DefT = 2
  CleanInt = 1
  TtlReqs = {0, 9}
  MaxNow = 4
  MaxMsgs = 3
  MaxHist = 8
  CheckOnArrival = TRUE
INVARIANTS Reach_Replicated
VIEW View
CONSTRAINT Bound
CHECK_DEADLOCK FALSE
