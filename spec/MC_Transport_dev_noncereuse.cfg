SPECIFICATION MCSpec
CONSTANTS
  MAX = 2
  Payloads <- Pay2
  RawValid <- RawValid2
  RawOversized <- RawBig2
  MaxFrames = 3
  BufferOversized = FALSE
  NonceReuse = TRUE
  AllowReconnect = FALSE
  NoncePerSession = FALSE
  DupDeliver = FALSE
INVARIANTS C14_FreshNonce

VIEW View
CHECK_DEADLOCK FALSE
