SPECIFICATION MCSpec
CONSTANTS
  MAX = 2
  Payloads <- Pay2
  RawValid <- RawValid2
  RawOversized <- RawBig2
  MaxFrames = 4
  BufferOversized = FALSE
  NonceReuse = FALSE
  AllowReconnect = TRUE
  NoncePerSession = TRUE
  DupDeliver = FALSE
INVARIANTS C14_FreshNonce
VIEW View
CHECK_DEADLOCK FALSE
