SPECIFICATION MCSpec
CONSTANTS
  MAX = 3
  Payloads <- Pay3
  RawValid <- RawValid3
  RawOversized <- RawBig3
  MaxFrames = 2
  BufferOversized = FALSE
  NonceReuse = FALSE
  DupDeliver = FALSE
INVARIANTS C14_InOrderExactlyOnce C14_NothingLost C14_FreshNonce C14_Encrypted C14_OversizedNotSent C14_OversizedNotAccepted C14_OversizedCloses C14_NotBuffered
PROPERTIES C14_RefusedSendNoEffect
VIEW View
CHECK_DEADLOCK FALSE
