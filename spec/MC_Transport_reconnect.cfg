SPECIFICATION MCSpec
CONSTANTS
  MAX = 2
  Payloads <- Pay2
  RawValid <- RawValid2
  RawOversized <- RawBig2
  MaxFrames = 4
  BufferOversized = FALSE
  NonceReuse = FALSE
  AllowReconnect = TRUE
  NoncePerSession = FALSE
  DupDeliver = FALSE
INVARIANTS C14_InOrderExactlyOnce C14_NothingLost C14_FreshNonce C14_Encrypted C14_OversizedNotSent C14_OversizedNotAccepted C14_OversizedCloses C14_NotBuffered
PROPERTIES C14_RefusedSendNoEffect
VIEW View
CHECK_DEADLOCK FALSE
