SPECIFICATION Spec
CONSTANTS SplitSurrogates = FALSE
  Depths = {1, 2, 10}
INVARIANT C38_DesignMeetsContract
INVARIANT RefDecodesIntended
INVARIANT RefValidity
INVARIANT DesignTotalOnCases
CHECK_DEADLOCK FALSE
