SPECIFICATION Spec
CONSTANTS SplitSurrogates = TRUE
  Depths = {1, 2, 10}
INVARIANT C38_DesignMeetsContract
CHECK_DEADLOCK FALSE
