SPECIFICATION Spec
CONSTANTS SplitSurrogates = FALSE
  Depths = {1, 2, 10}
INVARIANT Reach_CutInsidePair
CHECK_DEADLOCK FALSE
