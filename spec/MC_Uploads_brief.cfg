SPECIFICATION MCSpec
CONSTANTS
  Peers = {1, 2}
  Chunks = {1, 2}
  Mortal = {2}
  MortalLife = 2
  Flaky = {2}
  DupPeers = {1, 2}
  DupChunks = {1, 2}
  Limits = {0, 1, 2}
  Timeout = 2
  Recon = 0
  MaxQueue = 3
  MaxBag = 2
  Budget = 99
  DupCounts = FALSE
INVARIANTS TypeOK C23_Limits C23_Nak C23_SlotsReleased D_CounterIsMapSize
VIEW View
CHECK_DEADLOCK FALSE
