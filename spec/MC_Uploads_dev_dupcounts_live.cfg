SPECIFICATION LiveSpec
CONSTANTS
  Peers = {1, 2}
  Chunks = {1, 2}
  Mortal = {2}
  MortalLife = 2
  Flaky = {}
  DupPeers = {1}
  DupChunks = {1}
  Limits = {0, 1, 2}
  Timeout = 2
  Recon = 0
  MaxQueue = 2
  MaxBag = 2
  Budget = 3
  DupCounts = TRUE
PROPERTIES C23_Live_SlotFreed C23_Live_Drains
CHECK_DEADLOCK FALSE
