SPECIFICATION MCSpec
CONSTANTS
  Peers = {1}
  Chunks = {1, 2, 3, 4}
  Mortal = {}
  MortalLife = 2
  Flaky = {}
  DupPeers = {}
  DupChunks = {}
  Limits = {2}
  Timeout = 3
  Recon = 0
  MaxQueue = 3
  MaxBag = 1
  Budget = 99
  DupCounts = FALSE
INVARIANTS TypeOK C23_Limits C23_Nak C23_SlotsReleased D_CounterIsMapSize
VIEW View
CHECK_DEADLOCK FALSE
