SPECIFICATION Spec
CONSTANTS
  EncNonceFrom = 3
  DecNonceFrom = 3
  StrictBool = TRUE
  MsgScope = "all"
  MutAll = FALSE
INVARIANTS C15_WellFormed C15_RoundTrip C15_VersionClamp C16_AcceptedPrefix C16_LayoutCovers
CHECK_DEADLOCK FALSE
