------------------------------- MODULE MC_Wire -------------------------------
(* Lemma model for the wire reference (C15 / C16): TLC enumerates every message of the    *)
(* small domain (all six types x versions 0..6,255 x strings of <= 2 bytes x shard lists  *)
(* <= 2 x flags) as one state each and checks the round-trip / clamp lemmas on it, then    *)
(* every structural mutation of the encodings of the mutation bases as one state each and  *)
(* checks "accepted => re-encoding is a prefix".  The states (-dump) are the cases that    *)
(* are exported to the real codec.                                                         *)
EXTENDS Wire

CONSTANTS MutAll,       \* TRUE: mutate every message of the domain; FALSE: only the mutation bases
          MsgScope      \* "all": the whole small domain; "bases": only the mutation bases (fast dev_/reach_ configurations)

VARIABLE case
vars == <<case>>

Versions == {0, 1, 2, 3, 4, 5, 6, 255}
Alpha == {0, 255}
Strs == UNION {[1..k -> Alpha] : k \in 0..2}
MutStrs == {<<>>, <<255>>, <<0, 255>>}
IdA == [i \in 1..32 |-> i + 15]
IdB == Rep(255, 32)
IdC == [i \in 1..32 |-> 200 - i]
TTLs == {<<0, 0, 0, 0>>, <<0, 0, 14, 16>>, <<255, 255, 255, 255>>}
U32s == {<<0, 0, 0, 0>>, <<128, 0, 0, 1>>, <<255, 255, 255, 255>>}
Nonces == {Zero8, <<255, 254, 253, 252, 3, 2, 1, 0>>}

Announces(V, S, T, N, C) ==
    {[v |-> v, ty |-> TAnnounce, chunk_id |-> c, peer_id |-> IdC, endpoint |-> e, ttl |-> t, manifest_uri |-> u,
      assigned_shards |-> a, work_nonce |-> w] : v \in V, c \in C, e \in S, t \in T, u \in S, a \in S, w \in N}
Requests(V) == {[v |-> v, ty |-> TRequest, chunk_id |-> c, requester |-> p] : v \in V, c \in {IdA, IdB}, p \in {IdB, IdC}}
Chunks(V, S, T) == {[v |-> v, ty |-> TChunk, chunk_id |-> c, data |-> d, ttl |-> t] : v \in V, c \in {IdA, IdB}, d \in S, t \in T}
Acks(V) == {[v |-> v, ty |-> TAcknowledge, chunk_id |-> c, peer_id |-> IdC, accepted |-> a] : v \in V, c \in {IdA, IdB}, a \in BOOLEAN}
Handshakes(V) == {[v |-> v, ty |-> THandshake, public_identity |-> p, work_nonce |-> w, requested_version |-> r] :
                  v \in V, p \in U32s, w \in Nonces, r \in {0, 1, 4, 255}}
HandshakeAcks(V) == {[v |-> v, ty |-> THandshakeAck, accepted |-> a, negotiated_version |-> r, responder_public |-> p] :
                     v \in V, a \in BOOLEAN, r \in {0, 1, 4, 255}, p \in U32s}

NonceX == <<255, 254, 253, 252, 3, 2, 1, 0>>
TtlX == <<0, 0, 14, 16>>
\* the small domain, by type and version set
MsgsOf(ty, V) ==
    CASE ty = TAnnounce -> Announces(V, Strs, {TtlX, <<255, 255, 255, 255>>}, Nonces, {IdA})
                           \cup Announces(V, MutStrs, TTLs, Nonces, {IdA, IdB})
      [] ty = TRequest -> Requests(V)
      [] ty = TChunk -> Chunks(V, Strs, TTLs)
      [] ty = TAcknowledge -> Acks(V)
      [] ty = THandshake -> Handshakes(V)
      [] ty = THandshakeAck -> HandshakeAcks(V)
\* the messages whose encodings are mutated when MutAll = FALSE
BasesOf(ty, V) ==
    CASE ty = TAnnounce -> Announces(V, MutStrs, {TtlX}, {NonceX}, {IdA})
      [] ty = TChunk -> Chunks(V, MutStrs, {TtlX})
      [] OTHER -> MsgsOf(ty, V)
IsBase(m) == m \in BasesOf(m.ty, {m.v})

Init == case = <<"init">>
Next == \/ /\ case[1] = "init"
           /\ \E ty \in Types, v \in Versions : case' = <<"sel", ty, v>>
        \/ /\ case[1] = "sel"
           /\ \E m \in (IF MsgScope = "all" THEN MsgsOf(case[2], {case[3]}) ELSE BasesOf(case[2], {case[3]})) : case' = <<"msg", m>>
        \/ /\ case[1] = "msg"
           /\ (MutAll \/ IsBase(case[2]))
           /\ \E x \in Mutations(case[2]) : case' = <<"mut", x[1], x[2]>>
Spec == Init /\ [][Next]_vars

(* lemmas *)
C15_WellFormed == case[1] = "msg" => WellFormed(case[2])
C15_RoundTrip == case[1] = "msg" => RoundTripOk(case[2])
C15_VersionClamp == case[1] = "msg" => ClampOk(case[2])
C16_AcceptedPrefix == case[1] = "mut" => AcceptedPrefixOk(case[3])
C16_LayoutCovers == case[1] = "msg" =>
    LET L == Layout(case[2]) IN L[Len(L)].off + L[Len(L)].n = Len(Encode(case[2]))

(* vacuity guards: these must be VIOLATED (the scenario is reachable) *)
Reach_ShiftedAccepted == ~(case[1] = "mut" /\ case[2] = "len/plus1-padded" /\ Decode(case[3]).ok)
Reach_HugeLenRejected == ~(case[1] = "mut" /\ case[2] = "len/2^32-1" /\ ~Decode(case[3]).ok)
Reach_TrailingAccepted == ~(case[1] = "mut" /\ case[2] = "trailing" /\ Decode(case[3]).ok)
Reach_TypeConfusionAccepted == ~(case[1] = "mut" /\ case[2] = "type" /\ Decode(case[3]).ok)
Reach_V3Announce == ~(case[1] = "msg" /\ case[2].ty = TAnnounce /\ case[2].v = 3 /\ case[2].work_nonce # Zero8)
=============================================================================
