SPECIFICATION Spec
CONSTANTS
  EncNonceFrom = 3
  DecNonceFrom = 3
  StrictBool = TRUE
  MsgScope = "bases"
  MutAll = FALSE
INVARIANTS Reach_ShiftedAccepted
CHECK_DEADLOCK FALSE
