SPECIFICATION Spec
CONSTANTS
  EncNonceFrom = 3
  DecNonceFrom = 3
  StrictBool = TRUE
  MsgScope = "bases"
  MutAll = FALSE
INVARIANTS Reach_TypeConfusionAccepted
CHECK_DEADLOCK FALSE
