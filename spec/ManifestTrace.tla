---------------------------- MODULE ManifestTrace ----------------------------
(* Trace specification for C17 / C18: one ndjson event per call of the real                *)
(* encode_manifest / decode_manifest (harness/manifest.cpp).  Events are independent, so    *)
(* nothing is poisoned: every event is judged, all failing clauses are collected.           *)
(*   rt    m, enc, [uri, dec, d]   C17.unrepresentable-accepted  encoder took a manifest the format cannot hold *)
(*                                 C17.representable-refused     encoder refused one it can hold               *)
(*                                 C17.roundtrip-mismatch        accepted, but decoding fails or differs after Norm *)
(*                                 C18.other-exception/<type>    decoder threw something else than invalid_argument *)
(*   dec   x, res                  C18.other-exception/<type>                                                       *)
(*   crash phase, why              C18.sanitizer/<kind> C18.timeout C18.signal/<n> (decoder)  C17.encoder-crash/..   *)
(* Strings arrive summarised ([n, h, b]); the contract operators are used with the length   *)
(* taken from the summary, and records are compared as logged (length, hash, bytes kept).   *)
(* For "exact" events (everything logged in full) the specification's own Encode / Decode    *)
(* is also evaluated and compared with the real result; that comparison is reported as a     *)
(* statistic only (the statement does not fix the wire format).                              *)
EXTENDS TraceKit, ManifestWire

VARIABLES l, viol, st
vars == <<l, viol, st>>
Stat0 == [rt |-> 0, accepted |-> 0, refused |-> 0, unrepresentable |-> 0, dec |-> 0, dec_ok |-> 0, dec_invalid |-> 0, crash |-> 0,
          exact |-> 0, wire_same |-> 0, wire_diff |-> 0, specdec_same |-> 0, specdec_diff |-> 0]
Init == l = 1 /\ viol = <<>> /\ st = Stat0

SL(s) == s.n
FromJ(j) == [id |-> Arr(j.id), hash |-> Arr(j.hash), nonce |-> Arr(j.nonce), thr |-> j.thr, tot |-> j.tot,
             exp |-> [s |-> Arr(j.exp.s), f |-> j.exp.f], shards |-> Arr(j.shards), meta |-> Arr(j.meta), disc |-> Arr(j.disc),
             tcb |-> j.tcb, adv |-> j.adv, hasdig |-> j.hasdig, dig |-> Arr(j.dig), fb |-> Arr(j.fb)]
\* the same manifest with byte-sequence strings (only for events logged in full)
B(s) == Arr(s.b)
ToWire(m) == [m EXCEPT !.shards = [i \in DOMAIN m.shards |-> [i |-> m.shards[i].i, v |-> Arr(m.shards[i].v)]],
                       !.meta = [i \in DOMAIN m.meta |-> [k |-> B(m.meta[i].k), v |-> B(m.meta[i].v)]],
                       !.disc = [i \in DOMAIN m.disc |-> [sch |-> B(m.disc[i].sch), tr |-> B(m.disc[i].tr), ep |-> B(m.disc[i].ep), pr |-> m.disc[i].pr]],
                       !.adv = B(m.adv),
                       !.fb = [i \in DOMAIN m.fb |-> [uri |-> B(m.fb[i].uri), pr |-> m.fb[i].pr]]]
Bump(s, k) == [s EXCEPT ![k] = @ + 1]
BumpIf(s, c, k) == IF c THEN Bump(s, k) ELSE s

RtStep(e) ==
    LET m == FromJ(e.m)
        rep == RepresentableL(m, SL)
        ok == e.enc = "ok"
        bad == (IF ok /\ ~rep THEN {"C17.unrepresentable-accepted"} ELSE {})
               \cup (IF ~ok /\ rep THEN {"C17.representable-refused"} ELSE {})
               \cup (IF ok /\ rep /\ (e.dec # "ok" \/ ~SameL(m, FromJ(e.d), SL)) THEN {"C17.roundtrip-mismatch"} ELSE {})
               \cup (IF ok /\ e.dec = "other" THEN {"C18.other-exception/" \o e.dec_type} ELSE {})
        \* informative: the specification's layout against the real one
        cmp == e.exact /\ rep
        wm == ToWire(m)
        same == cmp /\ ok /\ Encode(wm, "trunc").uri = B(e.uri)
        s1 == BumpIf(BumpIf(BumpIf(Bump(st, "rt"), ok, "accepted"), ~ok, "refused"), ~rep, "unrepresentable")
        s2 == BumpIf(BumpIf(BumpIf(s1, e.exact, "exact"), same, "wire_same"), cmp /\ ok /\ ~same, "wire_diff")
    IN /\ viol' = IF bad = {} THEN viol ELSE Append(viol, Fail(l, bad, [tag |-> e.tag, enc |-> e.enc, enc_type |-> e.enc_type, dec |-> e.dec, dec_type |-> e.dec_type]))
       /\ st' = s2

DecStep(e) ==
    LET bad == IF e.res = "other" THEN {"C18.other-exception/" \o e.type} ELSE {}
        sd == IF e.exact THEN Decode(B(e.x)) ELSE [ok |-> FALSE]
        agree == e.exact /\ (sd.ok = (e.res = "ok")) /\ (sd.ok => sd.m = ToWire(FromJ(e.d)))
        s1 == BumpIf(BumpIf(Bump(st, "dec"), e.res = "ok", "dec_ok"), e.res = "invalid_argument", "dec_invalid")
        s2 == BumpIf(BumpIf(s1, agree, "specdec_same"), e.exact /\ ~agree, "specdec_diff")
    IN /\ viol' = IF bad = {} THEN viol ELSE Append(viol, Fail(l, bad, [tag |-> e.kind, res |-> e.res, type |-> e.type, n |-> e.x.n]))
       /\ st' = s2

CrashStep(e) ==
    LET bad == IF e.phase = "dec" THEN {"C18." \o e.why}
               ELSE IF e.phase = "enc" THEN {"C17.encoder-crash/" \o e.why} ELSE {}
    IN /\ viol' = IF bad = {} THEN viol ELSE Append(viol, Fail(l, bad, [tag |-> e.tag, phase |-> e.phase, why |-> e.why, line |-> e.line]))
       /\ st' = Bump(st, "crash")

Step(e) == CASE e.op = "rt" -> RtStep(e)
             [] e.op = "dec" -> DecStep(e)
             [] e.op = "crash" -> CrashStep(e)
             [] OTHER -> UNCHANGED <<viol, st>>

Next == l <= Len(T) /\ l' = l + 1 /\ Step(T[l])
Spec == Init /\ [][Next]_vars
Done == Report(l, viol, st)
=============================================================================
