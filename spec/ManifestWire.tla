---------------------------- MODULE ManifestWire ----------------------------
(* Executable transcription of the eph:// manifest format (C17 / C18):                     *)
(*   "eph://" + base64( binary layout, versions 1..4 )                                     *)
(* and the contract operators the two properties are stated with:                          *)
(*   Representable(m)   every counted list has <= 255 entries, every length-prefixed       *)
(*                      string fits its 8- or 16-bit length field                           *)
(*   Encode(m, mode)    [ok, uri]   (refuses exactly the unrepresentable manifests)         *)
(*   Decode(str)        [ok, m]     (total: every character sequence gives a manifest or    *)
(*                      "invalid"; no index outside the buffer is ever evaluated - TLC      *)
(*                      would stop with an evaluation error)                                *)
(*   Norm(m, mode)      what C17 grants: expiry reduced to whole seconds, an empty          *)
(*                      discovery scheme reported as its transport, and the storage of the  *)
(*                      attestation digest ignored while its flag is off (the digest is     *)
(*                      an optional field: with the flag off there is no digest).           *)
(* A manifest is a record                                                                   *)
(*   [id(32) hash(32) nonce(12) thr tot exp:[s: 8 bytes, big-endian two's complement of     *)
(*    floor(seconds since epoch); f: nanoseconds 0..999999999] shards:Seq([i, v(32)])       *)
(*    meta:Seq([k, v]) sorted by key, keys unique (std::map)                                *)
(*    disc:Seq([sch, tr, ep, pr]) tcb adv hasdig dig(32) fb:Seq([uri, pr])]                 *)
(* Strings are byte sequences here; the operators that only need a length take it as an     *)
(* operator argument so that the trace specification can use summarised strings.            *)
(* "mode" is how a sub-second expiry becomes whole seconds: "trunc" (toward zero, what      *)
(* duration_cast does) or "floor"; they differ only before 1970 and the statement ("up to   *)
(* whole-second expiry") grants both.                                                       *)
EXTENDS Integers, Sequences, FiniteSets, SequencesExt, TLC

Modes == {"trunc", "floor"}
Rep(b, n) == [i \in 1..n |-> b]
Zero32 == Rep(0, 32)
Cat(ss) == FoldLeft(LAMBDA a, x : a \o x, <<>>, ss)
Iota(n) == [i \in 1..n |-> i]
MinI(a, b) == IF a < b THEN a ELSE b
U16(n) == <<(n \div 256) % 256, n % 256>>
Prefix == <<101, 112, 104, 58, 47, 47>>          \* "eph://"

\* ---- lexicographic order on byte strings (std::string::compare = unsigned bytes) -------
LexLess(a, b) ==
    \E k \in 1..(MinI(Len(a), Len(b)) + 1) :
        /\ \A j \in 1..(k - 1) : a[j] = b[j]
        /\ IF k <= Len(a) /\ k <= Len(b) THEN a[k] < b[k] ELSE (k = Len(a) + 1 /\ k <= Len(b))
LexLeq(a, b) == a = b \/ LexLess(a, b)

\* ---- expiry ---------------------------------------------------------------------------
\* system_clock::time_point counts signed 64-bit nanoseconds: whole seconds it can hold
MaxSec == <<0, 0, 0, 2, 37, 193, 125, 4>>            \*  9223372036
MinSec == <<255, 255, 255, 253, 218, 62, 130, 252>>  \* -9223372036
Neg8(b) == b[1] >= 128
SecInRange(b) == IF Neg8(b) THEN LexLeq(MinSec, b) ELSE LexLeq(b, MaxSec)
Inc8(b) == LET t == CHOOSE t \in 0..8 : (\A i \in (9 - t)..8 : b[i] = 255) /\ (t = 8 \/ b[8 - t] # 255)
           IN [i \in 1..8 |-> IF i > 8 - t THEN 0 ELSE IF i = 8 - t THEN b[i] + 1 ELSE b[i]]
RoundSec(exp, mode) == IF mode = "trunc" /\ Neg8(exp.s) /\ exp.f > 0 THEN Inc8(exp.s) ELSE exp.s

\* ---- contract ---------------------------------------------------------------------------
RepresentableL(m, L(_)) ==
    /\ Len(m.shards) <= 255 /\ Len(m.meta) <= 255 /\ Len(m.disc) <= 255 /\ Len(m.fb) <= 255
    /\ \A i \in DOMAIN m.meta : L(m.meta[i].k) <= 255 /\ L(m.meta[i].v) <= 65535
    /\ \A i \in DOMAIN m.disc : L(m.disc[i].sch) <= 255 /\ L(m.disc[i].tr) <= 255 /\ L(m.disc[i].ep) <= 65535
    /\ \A i \in DOMAIN m.fb : L(m.fb[i].uri) <= 65535
    /\ L(m.adv) <= 65535
Representable(m) == RepresentableL(m, Len)

NormL(m, mode, L(_)) ==
    [m EXCEPT !.exp = [s |-> RoundSec(m.exp, mode), f |-> 0],
              !.disc = [i \in DOMAIN m.disc |-> IF L(m.disc[i].sch) = 0 THEN [m.disc[i] EXCEPT !.sch = m.disc[i].tr] ELSE m.disc[i]],
              !.dig = IF m.hasdig THEN m.dig ELSE Zero32]
Norm(m, mode) == NormL(m, mode, Len)
\* "the same manifest up to ..." : under one of the granted readings of whole-second expiry
SameL(a, b, L(_)) == \E mode \in Modes : NormL(a, mode, L) = NormL(b, mode, L)
Same(a, b) == SameL(a, b, Len)

\* ---- base64 (standard alphabet, '=' padding) -----------------------------------------------
B64Char(v) == IF v < 26 THEN 65 + v ELSE IF v < 52 THEN 97 + (v - 26) ELSE IF v < 62 THEN 48 + (v - 52) ELSE IF v = 62 THEN 43 ELSE 47
\* the decoder's table: '=' counts as 0 wherever it stands (as in the code)
B64Val(c) == IF c >= 65 /\ c <= 90 THEN c - 65 ELSE IF c >= 97 /\ c <= 122 THEN c - 97 + 26
             ELSE IF c >= 48 /\ c <= 57 THEN c - 48 + 52 ELSE IF c = 43 THEN 62 ELSE IF c = 47 THEN 63 ELSE IF c = 61 THEN 0 ELSE -1
At0(b, i) == IF i <= Len(b) THEN b[i] ELSE 0
\* concatenation of F(1) .. F(q), built block-wise (keeps the copying of long results small);
\* results are tuples, never lazily evaluated functions (TLC would re-evaluate their elements)
Blk == 128
CatF(F(_), q) ==
    Cat([bk \in 1..((q + Blk - 1) \div Blk) |->
            Cat([g \in 1..(MinI(bk * Blk, q) - (bk - 1) * Blk) |-> F((bk - 1) * Blk + g)])])
B64Encode(b) ==
    LET n == Len(b)
        Group(g) == LET t == At0(b, 3 * g - 2) * 65536 + At0(b, 3 * g - 1) * 256 + At0(b, 3 * g)
                        have == n - 3 * (g - 1)      \* bytes in this group (>= 1)
                    IN <<B64Char((t \div 262144) % 64), B64Char((t \div 4096) % 64),
                         IF have >= 2 THEN B64Char((t \div 64) % 64) ELSE 61,
                         IF have >= 3 THEN B64Char(t % 64) ELSE 61>>
    IN CatF(Group, (n + 2) \div 3)
\* one quad -> 1..3 bytes, as the code emits them ('=' in place 3 / 4 drops the byte)
B64Quad(s, g) ==
    LET t == B64Val(s[4 * g - 3]) * 262144 + B64Val(s[4 * g - 2]) * 4096 + B64Val(s[4 * g - 1]) * 64 + B64Val(s[4 * g])
    IN IF s[4 * g - 1] # 61 /\ s[4 * g] # 61 THEN <<(t \div 65536) % 256, (t \div 256) % 256, t % 256>>
       ELSE <<(t \div 65536) % 256>> \o (IF s[4 * g - 1] # 61 THEN <<(t \div 256) % 256>> ELSE <<>>)
                                     \o (IF s[4 * g] # 61 THEN <<t % 256>> ELSE <<>>)
B64Decode(s) ==
    IF Len(s) % 4 # 0 THEN [ok |-> FALSE, why |-> "base64-length"]
    ELSE IF \E i \in 1..Len(s) : B64Val(s[i]) < 0 THEN [ok |-> FALSE, why |-> "base64-char"]
    ELSE [ok |-> TRUE, bytes |-> CatF(LAMBDA g : B64Quad(s, g), Len(s) \div 4)]

\* ---- binary layout ------------------------------------------------------------------------
\* Layout(m, v, mode): the bytes of version v (1: header+shards, 2: +metadata, 3: +discovery
\* without scheme, security, fallback, 4: discovery with scheme).  Counts and lengths are
\* reduced modulo their field width exactly like the static_casts of the encoder; Encode
\* refuses the manifests where that would lose information.
EffScheme(h) == IF Len(h.sch) = 0 THEN h.tr ELSE h.sch
Layout(m, v, mode) ==
    <<v>> \o m.id \o m.hash \o m.nonce \o RoundSec(m.exp, mode) \o <<m.thr, m.tot, Len(m.shards) % 256>>
    \o Cat([i \in 1..Len(m.shards) |-> <<m.shards[i].i>> \o m.shards[i].v])
    \o (IF v < 2 THEN <<>> ELSE
          <<Len(m.meta) % 256>>
          \o Cat([i \in 1..Len(m.meta) |-> <<Len(m.meta[i].k) % 256>> \o m.meta[i].k \o U16(Len(m.meta[i].v)) \o m.meta[i].v]))
    \o (IF v < 3 THEN <<>> ELSE
          <<Len(m.disc) % 256>>
          \o Cat([i \in 1..Len(m.disc) |->
                    (IF v >= 4 THEN <<Len(EffScheme(m.disc[i])) % 256>> \o EffScheme(m.disc[i]) ELSE <<>>)
                    \o <<Len(m.disc[i].tr) % 256>> \o m.disc[i].tr \o U16(Len(m.disc[i].ep)) \o m.disc[i].ep \o <<m.disc[i].pr>>])
          \o <<m.tcb>> \o U16(Len(m.adv)) \o m.adv \o <<IF m.hasdig THEN 1 ELSE 0>> \o (IF m.hasdig THEN m.dig ELSE <<>>)
          \o <<Len(m.fb) % 256>>
          \o Cat([i \in 1..Len(m.fb) |-> U16(Len(m.fb[i].uri)) \o m.fb[i].uri \o <<m.fb[i].pr>>]))

Uri(bytes) == Prefix \o B64Encode(bytes)
\* ShardCheck = FALSE models the encoder without the shard-count check (the deviation the
\* unchanged tree has): used only by the *_dev_* configuration.
EncodeX(m, mode, shardCheck) ==
    IF (IF shardCheck THEN Representable(m) ELSE Representable([m EXCEPT !.shards = <<>>]))
    THEN [ok |-> TRUE, uri |-> Uri(Layout(m, 4, mode))]
    ELSE [ok |-> FALSE, uri |-> <<>>]
Encode(m, mode) == EncodeX(m, mode, TRUE)

\* ---- decoder (same order of bounds checks as the code; off is the 0-based offset) ---------
Bad(why) == [ok |-> FALSE, why |-> why]
MapInsert(acc, k, v) ==        \* std::map::emplace: first key wins, kept sorted
    IF \E i \in 1..Len(acc) : acc[i].k = k THEN acc
    ELSE LET pos == Cardinality({i \in 1..Len(acc) : LexLess(acc[i].k, k)})
         IN SubSeq(acc, 1, pos) \o <<[k |-> k, v |-> v]>> \o SubSeq(acc, pos + 1, Len(acc))

DecodeBytes(p) ==
  LET n == Len(p)
      Rd16(off) == p[off + 1] * 256 + p[off + 2]
      Str(off, len) == SubSeq(p, off + 1, off + len)
      \* --- metadata entry
      MetaStep(st, i) ==
        IF ~st.ok THEN st ELSE
        IF st.off >= n THEN Bad("metadata truncated") ELSE
        LET kl == p[st.off + 1]
            o1 == st.off + 1
        IN IF o1 + kl > n THEN Bad("metadata key truncated") ELSE
           LET o2 == o1 + kl
           IN IF o2 + 1 >= n THEN Bad("metadata value truncated") ELSE
              LET vl == Rd16(o2)
                  o3 == o2 + 2
              IN IF o3 + vl > n THEN Bad("metadata value truncated") ELSE
                 [ok |-> TRUE, off |-> o3 + vl, acc |-> MapInsert(st.acc, Str(o1, kl), Str(o3, vl))]
      \* --- discovery entry (scheme only from version 4)
      DiscStep(v, st, i) ==
        IF ~st.ok THEN st ELSE
        LET s1 == IF v < 4 THEN [ok |-> TRUE, off |-> st.off, sch |-> <<>>]
                  ELSE IF st.off >= n THEN Bad("scheme truncated")
                  ELSE LET sl == p[st.off + 1]
                       IN IF st.off + 1 + sl > n THEN Bad("scheme truncated")
                          ELSE [ok |-> TRUE, off |-> st.off + 1 + sl, sch |-> Str(st.off + 1, sl)]
        IN IF ~s1.ok THEN s1 ELSE
           IF s1.off >= n THEN Bad("transport truncated") ELSE
           LET tl == p[s1.off + 1]
               o1 == s1.off + 1
           IN IF o1 + tl > n THEN Bad("transport truncated") ELSE
              LET o2 == o1 + tl
              IN IF o2 + 1 >= n THEN Bad("endpoint truncated") ELSE
                 LET el == Rd16(o2)
                     o3 == o2 + 2
                 IN IF o3 + el > n THEN Bad("endpoint truncated") ELSE
                    LET o4 == o3 + el
                    IN IF o4 >= n THEN Bad("priority missing") ELSE
                       LET tr == Str(o1, tl)
                       IN [ok |-> TRUE, off |-> o4 + 1,
                           acc |-> Append(st.acc, [sch |-> IF Len(s1.sch) = 0 THEN tr ELSE s1.sch, tr |-> tr, ep |-> Str(o3, el), pr |-> p[o4 + 1]])]
      FbStep(st, i) ==
        IF ~st.ok THEN st ELSE
        IF st.off + 1 >= n THEN Bad("fallback uri truncated") ELSE
        LET ul == Rd16(st.off)
            o1 == st.off + 2
        IN IF o1 + ul > n THEN Bad("fallback uri truncated") ELSE
           IF o1 + ul >= n THEN Bad("fallback priority missing") ELSE
           [ok |-> TRUE, off |-> o1 + ul + 1, acc |-> Append(st.acc, [uri |-> Str(o1, ul), pr |-> p[o1 + ul + 1]])]
  IN
  IF n < 88 THEN Bad("too small") ELSE
  LET v == p[1] IN
  IF v \notin {1, 2, 3, 4} THEN Bad("version") ELSE
  LET expb == SubSeq(p, 78, 85)
      nsh == p[88]
  IN
  IF ~SecInRange(expb) THEN Bad("expiry out of range") ELSE
  IF 88 + nsh * 33 > n THEN Bad("shards truncated") ELSE
  LET m1 == [id |-> SubSeq(p, 2, 33), hash |-> SubSeq(p, 34, 65), nonce |-> SubSeq(p, 66, 77),
             exp |-> [s |-> expb, f |-> 0], thr |-> p[86], tot |-> p[87],
             shards |-> [i \in 1..nsh |-> [i |-> p[88 + (i - 1) * 33 + 1], v |-> SubSeq(p, 88 + (i - 1) * 33 + 2, 88 + i * 33)]],
             meta |-> <<>>, disc |-> <<>>, tcb |-> 0, adv |-> <<>>, hasdig |-> FALSE, dig |-> Zero32, fb |-> <<>>]
      off1 == 88 + nsh * 33
  IN
  IF v = 1 THEN [ok |-> TRUE, m |-> m1] ELSE
  IF off1 >= n THEN Bad("metadata missing") ELSE
  LET ms == FoldLeft(MetaStep, [ok |-> TRUE, off |-> off1 + 1, acc |-> <<>>], Iota(p[off1 + 1])) IN
  IF ~ms.ok THEN ms ELSE
  LET m2 == [m1 EXCEPT !.meta = ms.acc] IN
  IF v = 2 THEN [ok |-> TRUE, m |-> m2] ELSE
  IF ms.off >= n THEN Bad("discovery missing") ELSE
  LET ds == FoldLeft(LAMBDA st, i : DiscStep(v, st, i), [ok |-> TRUE, off |-> ms.off + 1, acc |-> <<>>], Iota(p[ms.off + 1])) IN
  IF ~ds.ok THEN ds ELSE
  IF ds.off >= n THEN Bad("security missing") ELSE
  LET oa == ds.off + 1 IN
  IF oa + 1 >= n THEN Bad("advisory truncated") ELSE
  LET al == Rd16(oa)
      ob == oa + 2
  IN
  IF ob + al > n THEN Bad("advisory truncated") ELSE
  LET oc == ob + al IN
  IF oc >= n THEN Bad("digest flag missing") ELSE
  LET has == p[oc + 1] # 0
      od == oc + 1
  IN
  IF has /\ od + 32 > n THEN Bad("digest truncated") ELSE
  LET oe == IF has THEN od + 32 ELSE od IN
  IF oe >= n THEN Bad("fallback missing") ELSE
  LET fs == FoldLeft(FbStep, [ok |-> TRUE, off |-> oe + 1, acc |-> <<>>], Iota(p[oe + 1])) IN
  IF ~fs.ok THEN fs ELSE
  [ok |-> TRUE, m |-> [m2 EXCEPT !.disc = ds.acc, !.tcb = p[ds.off + 1], !.adv = Str(ob, al), !.hasdig = has,
                                 !.dig = IF has THEN Str(od, 32) ELSE Zero32, !.fb = fs.acc]]

HasPrefix(str) == Len(str) >= 6 /\ SubSeq(str, 1, 6) = Prefix
Decode(str) ==
    IF ~HasPrefix(str) THEN Bad("prefix") ELSE
    LET b == B64Decode(SubSeq(str, 7, Len(str))) IN
    IF ~b.ok THEN b ELSE DecodeBytes(b.bytes)

\* what version v carries of m (what a v-layout can give back)
Project(m, v) ==
    IF v >= 4 THEN m
    ELSE IF v = 3 THEN [m EXCEPT !.disc = [i \in DOMAIN m.disc |-> [m.disc[i] EXCEPT !.sch = <<>>]]]
    ELSE [m EXCEPT !.disc = <<>>, !.tcb = 0, !.adv = <<>>, !.hasdig = FALSE, !.dig = Zero32, !.fb = <<>>,
                   !.meta = IF v >= 2 THEN m.meta ELSE <<>>]

\* ---- lemmas (checked by TLC on the small shapes of MC_ManifestWire) -----------------------
\* (a "floor" encoder cannot express the very first representable instant: its second lies
\* below what a time_point holds; that one case is outside the lemma for mode "floor")
RoundtripLemma(m) ==
    \A mode \in Modes :
        \* (the two modes give the same bytes unless the expiry is pre-epoch with a fraction)
        (mode = "trunc" \/ RoundSec(m.exp, "floor") # RoundSec(m.exp, "trunc")) =>
        LET e == Encode(m, mode) IN
        IF ~Representable(m) THEN ~e.ok
        ELSE e.ok /\ (SecInRange(RoundSec(m.exp, mode)) =>
                        LET d == Decode(e.uri) IN d.ok /\ Norm(d.m, mode) = Norm(m, mode) /\ Same(d.m, m))
\* the older layouts (version 4 is the round trip above)
VersionLemma(m) ==
    \A v \in 1..3 : LET d == Decode(Uri(Layout(m, v, "trunc")))
                    IN Representable(m) => d.ok /\ d.m = Norm(Project(m, v), "trunc")
\* every strict prefix of a valid layout is refused, and nothing outside the buffer is read
TruncationLemma(m) ==
    \A v \in 1..4 : LET b == Layout(m, v, "trunc")
                    IN Representable(m) => \A k \in 0..(Len(b) - 1) : ~Decode(Uri(SubSeq(b, 1, k))).ok
=============================================================================
