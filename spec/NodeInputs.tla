------------------------------ MODULE NodeInputs ------------------------------
(* [C35] No remote input can crash the node or the daemon.                                 *)
(* Design-level model of the input handlers of src/core/Node.cpp (handle_transport_message *)
(* -> handle_announce / handle_chunk / handle_request / handle_acknowledge, receive_chunk,  *)
(* fetch_chunk) and of the control plane's FETCH handler, restricted to what decides        *)
(* whether an exception can escape: which manifest the node has cached for a chunk (its     *)
(* key-share set may be unusable: duplicate or zero share indices make Shamir::combine      *)
(* throw invalid_argument), whether the chunk is held locally, and where try/catch stands.  *)
(* Session reader threads and the control thread have no handler of last resort, so an      *)
(* escaping exception is std::terminate: outcome "threw".                                   *)
EXTENDS Integers, Sequences, FiniteSets, TLC
CONSTANTS Chunks,
          ValidateIndices, \* BOOLEAN: validate_shards rejects manifests with repeated / zero share indices
          GuardCombine,   \* BOOLEAN: receive_chunk / fetch_chunk turn a failing key reconstruction into a refusal
          GuardControl,   \* BOOLEAN: the control handler turns handler exceptions into an error response
          SafeDecode,     \* BOOLEAN: the wire decoder bounds every declared length against the bytes present, without wrap-around
          NoSigpipe,      \* BOOLEAN: writes to a socket whose remote end has gone away fail with an error (MSG_NOSIGNAL) instead of raising SIGPIPE
          RelayClientChecked, \* BOOLEAN: request_chunk takes the relay fallback of a manifest's hints only when a relay client exists (the default
                          \* configuration enables relaying but lists no relay endpoint, so there is none)
          GuardEndpoint,  \* BOOLEAN: parse_endpoint turns any advertised "host:port" text it cannot use into "no endpoint" (no exception leaves it)
          MaxHist
\* manifest classes an adversary can put into a (validly signed) ANNOUNCE or hand to the control plane
MClasses == {"ok", "dupidx", "zeroidx", "thr0", "thrbig", "expired", "idmismatch", "assignabsent", "garbage", "empty"}
Unusable(m)   == m \in {"dupidx", "zeroidx"}             \* Shamir::combine throws on them
Admissible(m) == m = "ok" \/ (~ValidateIndices /\ Unusable(m))   \* pass validate_shards + TTL + id checks
VARIABLES cached,   \* cached[c] \in MClasses \cup {"none"} : manifest cached (and key shares published) for c
          held,     \* held[c] : a chunk record exists locally
          pendEp,   \* pendEp[c] \in {"none", "ok", "hostile", "relayhint"} : a fetch of c is pending at an announcer whose advertised endpoint text is usable / attacker-made / usable but dead while the manifest carries a relay hint
          sess,     \* the announcer's session is up (requests go over it; the advertised endpoint is parsed only once it is gone)
          obs, alive, hist
vars == <<cached, held, pendEp, sess, obs, alive, hist>>
Init == cached = [c \in Chunks |-> "none"] /\ held = [c \in Chunks |-> FALSE] /\ pendEp = [c \in Chunks |-> "none"] /\ sess = TRUE
        /\ obs = "init" /\ alive = TRUE /\ hist = <<>>

Out(o) == obs' = o /\ alive' = (alive /\ o \notin {"threw", "killed"})
\* validly signed ANNOUNCE carrying a manifest of class m for chunk c
Announce(c, m) == /\ cached' = IF Admissible(m) THEN [cached EXCEPT ![c] = m] ELSE cached
                  /\ Out(IF Admissible(m) THEN "handled" ELSE "ignored") /\ UNCHANGED <<held, pendEp, sess>>
\* validly signed CHUNK for c: receive_chunk reconstructs the key from the cached manifest
ChunkMsg(c) == /\ IF cached[c] = "none" THEN Out("nak") /\ UNCHANGED held
                  ELSE IF Unusable(cached[c]) THEN Out(IF GuardCombine THEN "nak" ELSE "threw") /\ UNCHANGED held
                  ELSE Out("handled") /\ held' = [held EXCEPT ![c] = TRUE]
               /\ pendEp' = (IF held'[c] THEN [pendEp EXCEPT ![c] = "none"] ELSE pendEp) /\ UNCHANGED <<cached, sess>>
\* local store of c by the operator (control STORE): own manifest replaces the cached one
Store(c) == cached' = [cached EXCEPT ![c] = "ok"] /\ held' = [held EXCEPT ![c] = TRUE] /\ pendEp' = [pendEp EXCEPT ![c] = "none"] /\ Out("handled") /\ UNCHANGED sess
\* REQUEST / ACK / stray handshake messages / unsigned garbage never reach key reconstruction
Other == Out("ignored") /\ UNCHANGED <<cached, held, pendEp, sess>>
\* control FETCH for c with manifest class m (OUT header present and non-empty): ingest + fetch_chunk
CtlFetch(c, m) ==
    LET cm == IF Admissible(m) THEN m ELSE cached[c] IN
    /\ cached' = [cached EXCEPT ![c] = cm]
    /\ IF ~Admissible(m) THEN Out("error")
       ELSE IF held[c] /\ Unusable(cm) THEN Out(IF GuardCombine \/ GuardControl THEN "error" ELSE "threw")
       ELSE Out("handled")
    /\ UNCHANGED <<held, pendEp, sess>>
\* control FETCH with an empty OUT: std::filesystem::absolute("") throws filesystem_error
CtlFetchEmptyOut == Out(IF GuardControl THEN "error" ELSE "threw") /\ UNCHANGED <<cached, held, pendEp, sess>>
\* a control client resets the connection after asking for a streamed response / a peer closes before the
\* node answers its REQUEST: the daemon's next write hits a dead socket
Abort == Out(IF NoSigpipe THEN "ignored" ELSE "killed") /\ UNCHANGED <<cached, held, pendEp, sess>>
\* structurally hostile encodings (extreme / wrapping length words, truncations), validly MACed over a session or
\* unauthenticated as the first frame of a new connection: decode() must reject them without touching memory it does not own
HostileEncoding == Out(IF SafeDecode THEN "ignored" ELSE "killed") /\ UNCHANGED <<cached, held, pendEp, sess>>
\* malformed control requests (bad PAYLOAD-LENGTH, over-long line, NULs, no blank line ...) are parse errors
CtlMalformed == Out("error") /\ UNCHANGED <<cached, held, pendEp, sess>>
\* a validly signed ANNOUNCE with an admissible manifest, a shard assigned to this node and an advertised endpoint text ep: a fetch of c
\* becomes pending at the announcer (schedule_assigned_fetch); while its session is up the REQUEST goes over the session
AnnounceAssign(c, ep) == /\ sess /\ cached' = [cached EXCEPT ![c] = "ok"]
                         /\ pendEp' = IF held[c] THEN pendEp ELSE [pendEp EXCEPT ![c] = ep]
                         /\ Out("handled") /\ UNCHANGED <<held, sess>>
\* the announcer's session ends (what the node learnt from it stays)
PeerDrop == sess /\ sess' = FALSE /\ Out("ignored") /\ UNCHANGED <<cached, held, pendEp>>
\* the daemon's loop: Node::tick() -> process_pending_fetches -> dispatch_pending_fetch; with the session gone it falls back to the
\* advertised endpoint and parses that text.  tick() runs on the main thread with no handler around it
Tick == /\ Out(IF ~sess /\ (\E c \in Chunks : pendEp[c] = "hostile") /\ ~GuardEndpoint THEN "threw"
               ELSE IF ~sess /\ (\E c \in Chunks : pendEp[c] = "relayhint") /\ ~RelayClientChecked THEN "killed"     \* the direct attempt fails, the hints are walked
               ELSE "handled")
        /\ UNCHANGED <<cached, held, pendEp, sess>>

Acts == {[op |-> "announce", c |-> c, m |-> m] : c \in Chunks, m \in MClasses}
   \cup {[op |-> "chunk", c |-> c] : c \in Chunks} \cup {[op |-> "store", c |-> c] : c \in Chunks}
   \cup {[op |-> "ctlfetch", c |-> c, m |-> m] : c \in Chunks, m \in {"ok", "dupidx", "zeroidx", "garbage", "expired"}}
   \cup {[op |-> "other"], [op |-> "ctlemptyout"], [op |-> "ctlmalformed"], [op |-> "ctlabort"], [op |-> "peerabort"], [op |-> "wire"], [op |-> "prehs"]}
   \cup {[op |-> "annassign", c |-> c, ep |-> ep] : c \in Chunks, ep \in {"ok", "hostile", "relayhint"}} \cup {[op |-> "peerdrop"], [op |-> "ticks"]}
Do(a) == CASE a.op = "announce" -> Announce(a.c, a.m) [] a.op = "chunk" -> ChunkMsg(a.c) [] a.op = "store" -> Store(a.c)
           [] a.op = "ctlfetch" -> CtlFetch(a.c, a.m) [] a.op = "other" -> Other
           [] a.op = "ctlemptyout" -> CtlFetchEmptyOut [] a.op = "ctlmalformed" -> CtlMalformed
           [] a.op \in {"ctlabort", "peerabort"} -> Abort
           [] a.op \in {"wire", "prehs"} -> HostileEncoding
           [] a.op = "annassign" -> AnnounceAssign(a.c, a.ep) [] a.op = "peerdrop" -> PeerDrop [] a.op = "ticks" -> Tick
Next == alive /\ \E a \in Acts : Do(a) /\ hist' = Append(hist, a)
Spec == Init /\ [][Next]_vars
View == <<cached, held, pendEp, sess, obs, alive>>
Bound == Len(hist) <= MaxHist
\* [C35] no delivery ends in an escaping exception; the process stays alive
C35_NoThrow == obs \notin {"threw", "killed"} /\ alive
Reach_PoisonThenChunk == ~(\E i \in 1..Len(hist) : hist[i].op = "chunk" /\ i > 1 /\ hist[i-1].op = "announce" /\ hist[i-1].m = "dupidx" /\ hist[i-1].c = hist[i].c)
Reach_HostileEndpointParsed == ~(obs = "handled" /\ ~sess /\ \E c \in Chunks : pendEp[c] = "hostile" /\ hist # <<>> /\ hist[Len(hist)].op = "ticks")
Reach_RelayHintWalked == ~(obs = "handled" /\ ~sess /\ \E c \in Chunks : pendEp[c] = "relayhint" /\ hist # <<>> /\ hist[Len(hist)].op = "ticks")
Reach_PoisonHeldThenFetch == ~(\E c \in Chunks : held[c] /\ Unusable(cached[c]))
=============================================================================
