--------------------------- MODULE NodeInputsTrace ---------------------------
(* [C35] Trace specification for harness/inputs.cpp: every delivery of a remote input must  *)
(* end in an outcome other than an escaping exception / process termination, and after it  *)
(* the daemon still answers PING and the node still serves an honest peer.                  *)
EXTENDS TraceKit
VARIABLES l, viol, nchecked
vars == <<l, viol, nchecked>>
Init == l = 1 /\ viol = <<>> /\ nchecked = 0
Clauses(e) ==
    (IF e.op = "terminated" THEN {"C35.terminated/" \o e.during} ELSE {})
    \cup (IF e.op = "hung" THEN {"C35.hang/" \o e.during} ELSE {})      \* an operation on node / daemon never returned (driver watchdog)
    \cup (IF Has(e, "out") /\ e.out = "threw" THEN {"C35.exception-escaped/" \o e.op} ELSE {})
    \cup (IF Has(e, "out") /\ e.out = "connect-failed" THEN {"C35.control-no-answer/" \o e.op} ELSE {})
    \cup (IF Has(e, "ping") /\ ~e.ping THEN {"C35.daemon-unresponsive"} ELSE {})
    \cup (IF Has(e, "serves") /\ ~e.serves THEN {"C35.node-stopped-serving"} ELSE {})
Next == /\ l <= Len(T) /\ l' = l + 1 /\ nchecked' = nchecked + 1
        /\ viol' = IF Clauses(T[l]) = {} THEN viol ELSE Append(viol, Fail(l, Clauses(T[l]), T[l]))
Spec == Init /\ [][Next]_vars
Done == Report(l, viol, [checked |-> nchecked])
=============================================================================
