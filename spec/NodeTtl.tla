------------------------------- MODULE NodeTtl -------------------------------
(* Design-level model of the TTL life-cycle of one node (src/core/Node.cpp: store_chunk,  *)
(* ingest_manifest, handle_announce, receive_chunk, fetch_chunk, tick) over the chunk      *)
(* store, the manifest cache, the DHT provider / key-share tables, pending fetches and     *)
(* swarm plans, with the ghost state of the contracts C01, C02, C03, C05.                  *)
(* Time is in whole seconds; manifest expiries are whole seconds too (the wire format).    *)
EXTENDS Integers, Sequences, FiniteSets, SequencesExt, TLC, NodeTtlContract

CONSTANTS Chunks, Peers,      \* chunk ids; remote peer ids (the node itself is "self")
          MinT, MaxT, DefT,   \* sanitised TTL window and default
          CleanInt,           \* cleanup interval
          TtlReqs,            \* requested TTLs for stores (may be <= 0)
          Exps,               \* manifest remaining lifetimes tried (relative to now; may be <= 0 or huge)
          AdvTtls,            \* advertised TTLs in announces
          MaxNow,
          PruneCache,         \* BOOLEAN: cleanup prunes cached manifests / plans (FALSE = historical deviation)
          CapPending,         \* BOOLEAN: a pending fetch's expiry is capped at now + MaxT (FALSE = historical deviation)
          EraseOnLookup,      \* BOOLEAN deviation: a lookup erases an expired chunk record silently
          KeepLaterDeadline,  \* BOOLEAN deviation: a replica that replaces a held copy keeps the later of the two deadlines
          MaxHist,            \* bound on the number of actions per behaviour
          WithdrawOnExpiry    \* BOOLEAN: the cleanup withdraws the node's own announcement of every chunk that expired (FALSE = deviation)

Self == 0   \* peers are positive integers
Holders == Peers \cup {Self}
None == -1

VARIABLES now,
          chunk,     \* chunk[c]  = deadline of the local record, None if absent
          cache,     \* cache[c]  = expiry of the cached manifest, None if absent
          shard,     \* shard[c]  = expiry of the key-share record
          prov,      \* prov[c][h] = expiry of holder h's provider contact
          pend,      \* pend[c]   = expiry carried by the pending fetch
          pendE,     \* pendE[c]  = true expiry of the manifest the pending fetch carries (re-ingested on dispatch)
          plan,      \* plan[c]   \in BOOLEAN
          notif,     \* undrained cleanup notifications (sequence of chunk ids)
          lastClean,
          obs,       \* last observable
          \* ---- ghost (contract) ----
          rec,       \* rec[c] = [live, dl]   last local store / accepted replica
          bound,     \* bound[c] latest instant state derived for c may live to
          owed, told, \* expiry notifications owed / delivered (drained) per chunk
          reaped     \* local chunks whose expiry the last cleanup tick processed
dvars == <<now, chunk, cache, shard, prov, pend, pendE, plan, notif, lastClean, obs, rec, bound, owed, told, reaped>>

Max2(a, b) == IF a > b THEN a ELSE b
Min2(a, b) == IF a < b THEN a ELSE b
Clamp(t) == Min2(Max2(t, MinT), MaxT)

Init == /\ now = 0
        /\ chunk = [c \in Chunks |-> None] /\ cache = [c \in Chunks |-> None] /\ shard = [c \in Chunks |-> None]
        /\ prov = [c \in Chunks |-> [h \in Holders |-> None]] /\ pend = [c \in Chunks |-> None] /\ pendE = [c \in Chunks |-> None]
        /\ plan = [c \in Chunks |-> FALSE] /\ notif = <<>> /\ lastClean = 0 /\ obs = <<"init">>
        /\ rec = [c \in Chunks |-> [live |-> FALSE, dl |-> 0]] /\ bound = [c \in Chunks |-> None]
        /\ owed = [c \in Chunks |-> 0] /\ told = [c \in Chunks |-> 0] /\ reaped = {}

\* manifest_ttl(): remaining whole seconds, refused when expired or below the minimum, capped at the maximum
Ttl(E) == IF E <= now \/ E - now < MinT THEN None ELSE Min2(E - now, MaxT)

\* ---- store_chunk(c, ttl) ------------------------------------------------------------------
Store(c, req) ==
    LET t == Clamp(IF req > 0 THEN req ELSE DefT) IN
    /\ chunk' = [chunk EXCEPT ![c] = now + t]
    /\ cache' = [cache EXCEPT ![c] = now + t]
    /\ shard' = [shard EXCEPT ![c] = now + t]
    /\ prov'  = [prov EXCEPT ![c][Self] = now + t]
    /\ plan'  = [plan EXCEPT ![c] = TRUE]
    /\ rec'   = [rec EXCEPT ![c] = [live |-> TRUE, dl |-> now + t]]
    /\ bound' = [bound EXCEPT ![c] = Max2(@, now + t)]
    /\ obs' = <<"store", c, now + t>>
    /\ UNCHANGED <<now, pend, pendE, notif, lastClean, owed, told>>

\* ---- announce_chunk(c, ttl): the operator re-announces a chunk with a TTL of its own ---------------
SelfAnnounce(c, ttl) ==
    /\ prov' = [prov EXCEPT ![c][Self] = now + ttl]
    /\ bound' = [bound EXCEPT ![c] = Max2(@, now + ttl)]
    /\ obs' = <<"selfann", c>>
    /\ UNCHANGED <<now, chunk, cache, shard, pend, pendE, plan, notif, lastClean, rec, owed, told>>

\* ---- ingest_manifest: manifest for c expiring at now + e ------------------------------------
Ingest(c, e) ==
    LET E == now + e  t == Ttl(E) IN
    /\ IF t = None
         THEN UNCHANGED <<cache, shard, plan, bound>> /\ obs' = <<"rejected", c>>
         ELSE /\ cache' = [cache EXCEPT ![c] = E]
              /\ shard' = [shard EXCEPT ![c] = now + t]
              /\ plan'  = [plan EXCEPT ![c] = TRUE]
              /\ bound' = [bound EXCEPT ![c] = Max2(@, Min2(E, now + MaxT))]
              /\ obs' = <<"ingested", c>>
    /\ UNCHANGED <<now, chunk, prov, pend, pendE, notif, lastClean, rec, owed, told>>

\* ---- handle_announce from peer p (admissibility other than expiry is C21's business) ----------
Announce(c, p, e, attl, assign) ==
    LET E == now + e  t == Ttl(E) IN
    /\ IF t = None
         THEN UNCHANGED <<cache, shard, plan, prov, pend, pendE, bound>> /\ obs' = <<"rejected", c>>
         ELSE LET adv == Clamp(Min2(IF attl > 0 THEN attl ELSE t, t)) IN
              /\ cache' = [cache EXCEPT ![c] = E]
              /\ shard' = [shard EXCEPT ![c] = now + t]
              /\ plan'  = [plan EXCEPT ![c] = TRUE]
              /\ prov'  = [prov EXCEPT ![c][p] = now + adv]
              /\ pend'  = IF assign /\ ~(chunk[c] # None /\ now < chunk[c])
                             THEN [pend EXCEPT ![c] = IF CapPending THEN Min2(E, now + MaxT) ELSE E]
                             ELSE pend
              /\ pendE' = IF assign /\ ~(chunk[c] # None /\ now < chunk[c]) THEN [pendE EXCEPT ![c] = E] ELSE pendE
              /\ bound' = [bound EXCEPT ![c] = Max2(@, Min2(E, now + MaxT))]
              /\ obs' = <<"announced", c>>
    /\ UNCHANGED <<now, chunk, notif, lastClean, rec, owed, told>>

\* ---- receive_chunk: a replica for c arrives with its manifest (bytes verified: C11) ------------
Recv(c, e) ==
    LET E == now + e  t == Ttl(E) IN
    /\ IF t = None
         THEN UNCHANGED <<cache, shard, prov, chunk, pend, rec, bound>> /\ obs' = <<"rejected", c>>
         ELSE /\ cache' = [cache EXCEPT ![c] = E]
              /\ shard' = [shard EXCEPT ![c] = now + t]
              /\ prov'  = [prov EXCEPT ![c][Self] = now + t]
              /\ chunk' = [chunk EXCEPT ![c] = IF KeepLaterDeadline /\ @ # None THEN Max2(@, now + t) ELSE now + t]
              /\ pend'  = [pend EXCEPT ![c] = None]
              /\ rec'   = [rec EXCEPT ![c] = [live |-> TRUE, dl |-> IF KeepLaterDeadline /\ chunk[c] # None THEN Max2(chunk[c], now + t) ELSE now + t]]
              /\ bound' = [bound EXCEPT ![c] = Max2(@, Min2(E, now + MaxT))]
              /\ obs' = <<"replica", c>>
    /\ UNCHANGED <<now, plan, pendE, notif, lastClean, owed, told>>

\* ---- fetch_chunk / peer request / export: serve iff an unexpired record exists ------------------
Fetch(c) ==
    /\ obs' = IF chunk[c] # None /\ now < chunk[c] THEN <<"hit", c>> ELSE <<"miss", c>>
    /\ chunk' = IF EraseOnLookup /\ chunk[c] # None /\ now >= chunk[c] THEN [chunk EXCEPT ![c] = None] ELSE chunk
    /\ UNCHANGED <<now, cache, shard, prov, pend, pendE, plan, notif, lastClean, rec, bound, owed, told>>
List ==
    /\ obs' = <<"list", {c \in Chunks : chunk[c] # None /\ now < chunk[c]}>>
    /\ UNCHANGED <<now, chunk, cache, shard, prov, pend, pendE, plan, notif, lastClean, rec, bound, owed, told>>

\* ---- tick ------------------------------------------------------------------------------------------
Dead(x) == x # None /\ x <= now
\* process_pending_fetches dispatches some of the pending fetches (back-off decides which: free
\* here); a dispatch re-ingests the cached manifest (request_chunk -> ingest_manifest), which is
\* an arrival "through fetch": key shares are re-published for min(remaining, MaxT) from now.
Redispatch(R, sh, bd, pd) ==
    [sh2 |-> [c \in Chunks |-> IF c \in R /\ pd[c] # None /\ Ttl(pendE[c]) # None THEN now + Ttl(pendE[c]) ELSE sh[c]],
     ca2 |-> [c \in Chunks |-> IF c \in R /\ pd[c] # None /\ Ttl(pendE[c]) # None THEN pendE[c] ELSE None],
     bd2 |-> [c \in Chunks |-> IF c \in R /\ pd[c] # None /\ Ttl(pendE[c]) # None THEN Max2(bd[c], Min2(pendE[c], now + MaxT)) ELSE bd[c]]]
Tick(R) ==
    IF now - lastClean < CleanInt
      THEN \* no cleanup; pending fetches whose manifest expired (or that are satisfied) are dropped
           LET pd == [c \in Chunks |-> IF Dead(pend[c]) \/ (chunk[c] # None /\ now < chunk[c]) THEN None ELSE pend[c]]
               rd == Redispatch(R, shard, bound, pd) IN
           /\ pend' = pd /\ shard' = rd.sh2 /\ bound' = rd.bd2
           /\ cache' = [c \in Chunks |-> IF rd.ca2[c] # None THEN rd.ca2[c] ELSE cache[c]]
           /\ obs' = <<"tick", FALSE>>
           /\ UNCHANGED <<now, chunk, pendE, prov, plan, notif, lastClean, rec, owed, told>>
      ELSE LET gone  == {c \in Chunks : Dead(chunk[c])}
               chunk2 == [c \in Chunks |-> IF c \in gone THEN None ELSE chunk[c]]
               prov2 == [c \in Chunks |-> [h \in Holders |-> IF Dead(prov[c][h]) \/ (WithdrawOnExpiry /\ h = Self /\ c \in gone) THEN None ELSE prov[c][h]]]
               shard2 == [c \in Chunks |-> IF Dead(shard[c]) THEN None ELSE shard[c]]
               pendLive(c) == pend[c] # None /\ now < pend[c]
               drop(c) == PruneCache /\ cache[c] # None /\
                          (cache[c] <= now \/ (~pendLive(c) /\ chunk2[c] = None /\ shard2[c] = None))
               cache2 == [c \in Chunks |-> IF drop(c) THEN None ELSE cache[c]]
               pd == [c \in Chunks |-> IF Dead(pend[c]) \/ (chunk2[c] # None) \/ cache2[c] = None THEN None ELSE pend[c]]
               rd == Redispatch(R, shard2, bound, pd)
           IN /\ chunk' = chunk2 /\ prov' = prov2 /\ shard' = rd.sh2 /\ bound' = rd.bd2
              /\ cache' = [c \in Chunks |-> IF rd.ca2[c] # None THEN rd.ca2[c] ELSE cache2[c]]
              /\ plan' = [c \in Chunks |-> IF PruneCache THEN (plan[c] /\ cache2[c] # None) \/ rd.ca2[c] # None ELSE plan[c] \/ rd.ca2[c] # None]
              /\ pend' = pd
              /\ notif' = notif \o SetToSeq(gone)
              /\ lastClean' = now
              /\ owed' = [c \in Chunks |-> IF rec[c].live /\ rec[c].dl <= now THEN owed[c] + 1 ELSE owed[c]]
              /\ rec' = [c \in Chunks |-> IF rec[c].live /\ rec[c].dl <= now THEN [rec[c] EXCEPT !.live = FALSE] ELSE rec[c]]
              /\ obs' = <<"tick", TRUE>>
              /\ UNCHANGED <<now, pendE, told>>

Drain ==
    /\ told' = [c \in Chunks |-> told[c] + Cardinality({i \in DOMAIN notif : notif[i] = c})]
    /\ notif' = <<>> /\ obs' = <<"drained">>
    /\ UNCHANGED <<now, chunk, cache, shard, prov, pend, pendE, plan, lastClean, rec, bound, owed>>

Advance == /\ now' = now + 1 /\ obs' = <<"adv">>
           /\ UNCHANGED <<chunk, cache, shard, prov, pend, pendE, plan, notif, lastClean, rec, bound, owed, told>>

-----------------------------------------------------------------------------
(* CONTRACT invariants *)
Live(c) == rec[c].live /\ now < rec[c].dl
\* [C01] reads / listings serve exactly live chunks
C01_Reads == /\ obs[1] = "hit"  => Live(obs[2])
             /\ obs[1] = "miss" => ~Live(obs[2])
             /\ obs[1] = "list" => \A c \in obs[2] : Live(c)
\* [C02] every lifetime a store creates is inside [MinT, MaxT]
C02_StoreWindow == obs[1] = "store" =>
    LET c == obs[2] IN \A x \in {chunk[c], cache[c], shard[c], prov[c][Self]} : MinT <= x - now /\ x - now <= MaxT
\* [C03] nothing dated that the node holds for c outlives bound[c]; a refused manifest changes nothing
C03_Derived == \A c \in Chunks :
    /\ chunk[c] # None => chunk[c] <= bound[c]
    /\ shard[c] # None => shard[c] <= bound[c]
    /\ pend[c] # None => pend[c] <= bound[c]
    /\ \A h \in Holders : prov[c][h] # None => prov[c][h] <= bound[c]
\* [C03] what an accepted replica wrote (chunk copy, key shares, own announcement) expires no later than the manifest it came
\* with -- a later-expiring manifest seen earlier does not excuse the copy that arrived with this one
C03_ArrivalWrites == obs[1] = "replica" =>
    LET c == obs[2]  lim == Min2(cache[c], now + MaxT) IN chunk[c] <= lim /\ shard[c] <= lim /\ prov[c][Self] <= lim
\* [C05] right after a cleanup tick nothing expired is left, and own announcements of expired chunks are withdrawn
C05_Clean == obs = <<"tick", TRUE>> => \A c \in Chunks :
    /\ ~Dead(chunk[c]) /\ ~Dead(shard[c]) /\ ~Dead(pend[c])
    /\ \A h \in Holders : ~Dead(prov[c][h])
    /\ cache[c] # None => bound[c] > now
    /\ plan[c] => bound[c] > now
    /\ c \in reaped => prov[c][Self] = None      \* own announcement of a local chunk that expired is withdrawn by the tick that reaps it
\* [C05] each expired local chunk reported exactly once (checked when the notifications are drained)
C05_Once == obs = <<"drained">> => \A c \in Chunks : told[c] = owed[c]

-----------------------------------------------------------------------------
VARIABLE hist
vars == <<now, chunk, cache, shard, prov, pend, pendE, plan, notif, lastClean, obs, rec, bound, owed, told, reaped, hist>>
Acts == {[op |-> "store", c |-> c, ttl |-> t] : c \in Chunks, t \in TtlReqs}
   \cup {[op |-> "ingest", c |-> c, e |-> e] : c \in Chunks, e \in Exps}
   \cup {[op |-> "announce", c |-> c, p |-> p, e |-> e, attl |-> a, assign |-> g] : c \in Chunks, p \in Peers, e \in Exps, a \in AdvTtls, g \in BOOLEAN}
   \cup {[op |-> "recv", c |-> c, e |-> e] : c \in Chunks, e \in Exps}
   \cup {[op |-> "selfann", c |-> c, ttl |-> 9] : c \in Chunks}
   \cup {[op |-> "fetch", c |-> c] : c \in Chunks}
   \cup {[op |-> "list"], [op |-> "tick"], [op |-> "drain"], [op |-> "adv"]}
Do(a) == CASE a.op = "store" -> Store(a.c, a.ttl)
           [] a.op = "ingest" -> Ingest(a.c, a.e)
           [] a.op = "announce" -> Announce(a.c, a.p, a.e, a.attl, a.assign)
           [] a.op = "recv" -> Recv(a.c, a.e)
           [] a.op = "selfann" -> SelfAnnounce(a.c, a.ttl)
           [] a.op = "fetch" -> Fetch(a.c)
           [] a.op = "list" -> List
           [] a.op = "tick" -> \E R \in SUBSET Chunks : Tick(R)
           [] a.op = "drain" -> Drain
           [] a.op = "adv" -> Advance
MCInit == Init /\ hist = <<>>
MCNext == \E a \in Acts : Do(a) /\ hist' = Append(hist, a)
                            /\ reaped' = IF a.op = "tick" /\ now - lastClean >= CleanInt THEN {c \in Chunks : rec[c].live /\ rec[c].dl <= now} ELSE reaped
MCSpec == MCInit /\ [][MCNext]_vars
View == dvars
Bound == now <= MaxNow /\ Len(hist) <= MaxHist /\ Len(notif) <= 3

Reach_LookupBetweenDeadlineAndTick == ~(obs = <<"tick", TRUE>> /\ \E i \in DOMAIN hist : hist[i].op = "fetch" /\ \E c \in Chunks : owed[c] > 0 /\ hist[i].c = c /\ i > 1 /\ hist[i-1].op = "adv")
Reach_FarFutureCapped == ~(\E c \in Chunks : cache[c] # None /\ cache[c] > now + MaxT /\ shard[c] # None)
Reach_PendingFetch == ~(\E c \in Chunks : pend[c] # None)
=============================================================================
