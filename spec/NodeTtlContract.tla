--------------------------- MODULE NodeTtlContract ---------------------------
(* Pure operators for the node-level TTL contracts (C02, C03).  Times in one unit         *)
(* (milliseconds in traces; abstract ticks, with Sec = 1, in the model).                    *)
EXTENDS Integers

\* [C02] limits of the sanitised configuration, in seconds
MinFloorS == 1
MaxCeilS  == 86400
RotMinS   == 5
RotMaxS   == 3600
PowMax    == 24

\* e carries the sanitised values in ms: min, max, deflt, rot, and apow/hpow/spow
ConfigWindowOk(e) ==
    /\ MinFloorS * 1000 <= e.min /\ e.min <= e.max /\ e.max <= MaxCeilS * 1000
    /\ e.min <= e.deflt /\ e.deflt <= e.max
    /\ RotMinS * 1000 <= e.rot /\ e.rot <= RotMaxS * 1000
    /\ e.apow <= PowMax /\ e.hpow <= PowMax /\ e.spow <= PowMax

Absent == -2000000000
InWin(x, t, mn, mx) == x = Absent \/ (mn <= x - t /\ x - t <= mx)
\* [C02] the four lifetimes a store creates (chunk record, manifest, key shares, self announcement)
StoreLifetimeClauses(e, mn, mx) ==
    (IF InWin(e.dl, e.t, mn, mx) /\ e.dl # Absent THEN {} ELSE {"C02.lifetime-outside-window/chunk-record"})
    \cup (IF InWin(e.mexp, e.t, mn, mx) /\ e.mexp # Absent THEN {} ELSE {"C02.lifetime-outside-window/manifest"})
    \cup (IF InWin(e.sexp, e.t, mn, mx) THEN {} ELSE {"C02.lifetime-outside-window/key-shares"})
    \cup (IF InWin(e.aexp, e.t, mn, mx) THEN {} ELSE {"C02.lifetime-outside-window/self-announcement"})

\* [C03] a manifest that is already expired, or whose remaining life is below the minimum TTL,
\* must be rejected without changing node state
ManifestMustBeRejected(E, t, mn) == E <= t \/ E - t < mn
=============================================================================
