----------------------------- MODULE NodeTtlTrace -----------------------------
(* Trace specification for the TTL life-cycle of a real Node: validates executions        *)
(* recorded by harness/nodettl.cpp against the contracts of                                *)
(*   C01 (node level: fetch / peer request / export / listing serve a chunk exactly while  *)
(*        it is live),                                                                     *)
(*   C02 (sanitised configuration window; every lifetime created by a store inside it),    *)
(*   C03 (nothing derived from a received manifest outlives it; expired / too-short        *)
(*        manifests are rejected without a state change; far-future expiry capped),        *)
(*   C05 (after a cleanup tick nothing expired is left; own announcement withdrawn; audit  *)
(*        healthy; each expired local chunk reported exactly once),                        *)
(*   C11 (clause: a tampered replica is never accepted).                                   *)
(* Time unit: milliseconds of the virtual clock.                                           *)
EXTENDS TraceKit, ChunkStoreContract, NodeTtlContract

Ids == 0..15
NoRec == [live |-> FALSE, b |-> -100, dl |-> 0, inst |-> 0]
NoBound == -2000000000

VARIABLES l, viol, poisoned,
          now, cmin, cmax,     \* clock, sanitised TTL window
          rec, held,           \* C01 ghost: last local store / accepted replica per chunk
          bound,               \* C03 ghost: latest instant any state derived for chunk c may live to
          mE,                  \* C03 ghost: latest expiry among the manifests that arrived for chunk c (a pending fetch keeps its own manifest)
          owed, notified, slack, \* C05 ghost: expiry notifications owed / seen / tolerated extras
          pproj,               \* projection logged by the previous event
          tol,                 \* tolerance in ms: 0 under the virtual clock; > 0 for traces of real-time executions (hook time vs the instant the code read the clock)
          nchecked
vars == <<l, viol, poisoned, now, cmin, cmax, rec, held, bound, mE, owed, notified, slack, pproj, tol, nchecked>>

EmptyProj == [chunks |-> <<>>, listed |-> <<>>, cache |-> <<>>, shard |-> <<>>, loc |-> <<>>, pend |-> <<>>, plans |-> <<>>]
Zero == [c \in Ids |-> 0]

Init == /\ l = 1 /\ viol = <<>> /\ poisoned = FALSE
        /\ now = 0 /\ cmin = 0 /\ cmax = 0
        /\ rec = [c \in Ids |-> NoRec] /\ held = {} /\ bound = [c \in Ids |-> NoBound] /\ mE = [c \in Ids |-> NoBound]
        /\ owed = Zero /\ notified = Zero /\ slack = Zero /\ pproj = EmptyProj /\ tol = 0 /\ nchecked = 0

\* ---- projection accessors (JSON arrays -> sets of tuples) ---------------------------------
P2(x)  == {<<x[i][1], x[i][2]>> : i \in DOMAIN Arr(x)}
Chunks(p) == P2(p.chunks)
Cache(p)  == P2(p.cache)
Shard(p)  == P2(p.shard)
Pend(p)   == P2(p.pend)
Plans(p)  == ArrSet(Arr(p.plans))
Locs(p)   == {<<p.loc[i][1], p.loc[i][2]>> : i \in DOMAIN Arr(p.loc)}
Holders(p) == UNION {{<<p.loc[i][1], p.loc[i][3][j][1], p.loc[i][3][j][2]>> : j \in DOMAIN Arr(p.loc[i][3])} : i \in DOMAIN Arr(p.loc)}
SameProj(p, q) == /\ Chunks(p) = Chunks(q) /\ Cache(p) = Cache(q) /\ Shard(p) = Shard(q) /\ Pend(p) = Pend(q)
                  /\ Plans(p) = Plans(q) /\ Locs(p) = Locs(q) /\ Holders(p) = Holders(q)

\* [C03] every dated item the node holds for chunk c expires no later than bound[c]
\* (chunk records, shard records, provider contacts, pending fetches; the cached manifest's
\* own lifetime is judged at cleanup time, see CleanupClauses)
DerivedClauses(p, bd0) ==
    LET bd == [c \in Ids |-> bd0[c] + tol] IN
    (IF \A x \in Chunks(p) : x[1] \in Ids => x[2] <= bd[x[1]] THEN {} ELSE {"C03.derived-outlives-manifest/chunk"})
    \cup (IF \A x \in Shard(p) : x[1] \in Ids => x[2] <= bd[x[1]] THEN {} ELSE {"C03.derived-outlives-manifest/key-shares"})
    \cup (IF \A x \in Holders(p) : x[1] \in Ids => x[3] <= bd[x[1]] THEN {} ELSE {"C03.derived-outlives-manifest/provider-contact"})
    \cup (IF \A x \in Pend(p) : x[1] \in Ids => x[2] <= bd[x[1]] THEN {} ELSE {"C03.derived-outlives-manifest/pending-fetch"})

\* [C05] after a cleanup tick at T nothing that expired by T is left; r is the ghost BEFORE the tick, so
\* r[c].live /\ r[c].dl <= tc says: local chunk c expires at this tick (its own announcement must be withdrawn)
CleanupClauses(p, tc0, bd, r) ==
    LET tc == tc0 - tol IN
    (IF \A x \in Chunks(p) : x[2] > tc THEN {} ELSE {"C05.expired-after-cleanup/chunk"})
    \cup (IF \A x \in Shard(p) : x[2] > tc THEN {} ELSE {"C05.expired-after-cleanup/key-shares"})
    \cup (IF \A x \in Holders(p) : x[3] > tc THEN {} ELSE {"C05.expired-after-cleanup/provider-contact"})
    \cup (IF \A x \in Locs(p) : x[2] > tc THEN {} ELSE {"C05.expired-after-cleanup/locator"})
    \cup (IF \A x \in Cache(p) : x[1] \in Ids => bd[x[1]] > tc THEN {} ELSE {"C05.expired-after-cleanup/cached-manifest"})
    \cup (IF \A c \in Plans(p) : c \in Ids => bd[c] > tc THEN {} ELSE {"C05.expired-after-cleanup/swarm-plan"})
    \cup (IF \A x \in Pend(p) : x[1] \in Ids => (x[2] > tc /\ bd[x[1]] > tc) THEN {} ELSE {"C05.expired-after-cleanup/pending-fetch"})
    \cup (IF \A x \in Holders(p) : (x[2] = 0 /\ x[1] \in Ids) => ~(r[x[1]].live /\ r[x[1]].dl <= tc) THEN {} ELSE {"C05.own-announcement-not-withdrawn"})

Common(e, bad, r2, h2, bd2, ow2, nt2, sl2) ==
    /\ mE' = IF e.op \in {"manifest", "replica"} /\ e.c \in Ids /\ e.exp > mE[e.c] THEN [mE EXCEPT ![e.c] = e.exp] ELSE mE
    /\ now' = e.t /\ rec' = r2 /\ held' = h2 /\ bound' = bd2 /\ owed' = ow2 /\ notified' = nt2 /\ slack' = sl2
    /\ pproj' = e.proj
    /\ viol' = IF bad = {} THEN viol ELSE Append(viol, Fail(l, bad, [op |-> e.op, t |-> e.t]))
    /\ poisoned' = (bad # {}) /\ nchecked' = nchecked + 1
    /\ UNCHANGED <<cmin, cmax, tol>>

Max(a, b) == IF a > b THEN a ELSE b
Min(a, b) == IF a < b THEN a ELSE b

\* [C03] a pending fetch that is dispatched re-ingests its manifest: that is an arrival "through
\* fetch" at time t, so state derived for that chunk may live to min(E, t + max) from then on
Refetch(bd, t, p, q) ==
    [c \in Ids |-> IF (\E x \in Pend(p) \cup Pend(q) : x[1] = c) /\ ~ManifestMustBeRejected(mE[c], t, cmin)
                   THEN Max(bd[c], Min(mE[c], t + cmax)) ELSE bd[c]]

\* [C03] what THIS arrival wrote expires no later than THIS manifest (expiry E, capped at arrival + max): an accepted manifest
\* (re)writes the key-share record of its chunk, an accepted replica also the chunk record.  A later-expiring manifest that
\* arrived earlier does not excuse it: the copy now held came with this one.  Judged under the virtual clock only (tol <= 20 ms);
\* the key-share record is left out while a fetch for the chunk is pending (its dispatch re-ingests the manifest it carries).
CachedExpiry(p, c, dflt) == IF \E x \in Cache(p) : x[1] = c THEN (CHOOSE x \in Cache(p) : x[1] = c)[2] ELSE dflt
ArrivalWrites(e, c, E, accepted, isReplica) ==
    IF ~accepted \/ tol > 20 \/ c \notin Ids THEN {}
    ELSE LET lim == Min(E, e.t + cmax) + tol
             pending == \E x \in Pend(pproj) \cup Pend(e.proj) : x[1] = c
         IN (IF isReplica /\ \E x \in Chunks(e.proj) : x[1] = c /\ x[2] > lim THEN {"C03.replica-outlives-its-manifest"} ELSE {})
            \cup (IF ~pending /\ \E x \in Shard(e.proj) : x[1] = c /\ x[2] > lim THEN {"C03.arrival-outlives-its-manifest/key-shares"} ELSE {})

Step(e) ==
  CASE e.op = "reset" ->
        LET bad == IF ConfigWindowOk(e) THEN {} ELSE {"C02.config-window"} IN
        /\ now' = e.t /\ cmin' = e.min /\ cmax' = e.max /\ tol' = Fld(e, "tol", 0)
        /\ rec' = [c \in Ids |-> NoRec] /\ held' = {} /\ bound' = [c \in Ids |-> NoBound] /\ mE' = [c \in Ids |-> NoBound]
        /\ owed' = Zero /\ notified' = Zero /\ slack' = Zero /\ pproj' = e.proj
        /\ viol' = IF bad = {} THEN viol ELSE Append(viol, Fail(l, bad, e))
        /\ poisoned' = (bad # {}) /\ nchecked' = nchecked + 1
    [] poisoned -> UNCHANGED <<viol, poisoned, now, cmin, cmax, rec, held, bound, mE, owed, notified, slack, pproj, tol, nchecked>>
    [] e.op = "store" ->
        LET c == e.c
            r2 == [rec EXCEPT ![c] = [live |-> TRUE, b |-> e.b, dl |-> e.dl, inst |-> 0]]
            sl2 == IF rec[c].live /\ rec[c].dl <= e.t THEN [slack EXCEPT ![c] = @ + 1] ELSE slack
            bd2 == [bound EXCEPT ![c] = Max(@, Max(Max(e.dl, e.mexp), Max(e.sexp, e.aexp)))]
            bad == StoreLifetimeClauses(e, cmin - tol, cmax + tol)
                   \cup (IF e.dl > e.t THEN {} ELSE {"C01.put-deadline"})
                   \* the chunk's deadline is the store instant plus the EFFECTIVE TTL (the requested one brought into the configured window);
                   \* reads, listings and peer requests below are judged against the deadline the store recorded, so it must be that one
                   \* (requested TTL known and positive: the driver's stores; a zero TTL means the default and is left to C02's window clause)
                   \cup (IF Has(e, "ttl") /\ e.ttl > 0 /\ e.dl # Absent
                            /\ (e.dl - (e.t + Max(cmin, Min(cmax, e.ttl))) > tol \/ (e.t + Max(cmin, Min(cmax, e.ttl))) - e.dl > tol)
                         THEN {"C01.deadline-is-not-the-effective-ttl"} ELSE {})
                   \cup DerivedClauses(e.proj, bd2)
        IN Common(e, bad, r2, held \cup {c}, bd2, owed, notified, sl2)
    [] e.op = "get" ->
        LET hit == e.res = "hit"
            bytesOk == (e.via = "export") \/ e.b = -8 \/ ~hit \/ e.b = rec[e.c].b      \* b = -8: bytes not inspected by the driver
            \* a peer request may be refused while the chunk is live (e.g. remaining life below the
            \* minimum TTL): the statement only forbids serving it at or after the deadline
            heldFor == IF e.via = "peerreq" THEN FALSE ELSE e.c \in held
            \* under a moving clock a read within tol of the deadline may fall on either side of it
            nearDl == tol > 0 /\ e.c \in Ids /\ rec[e.c].live /\ rec[e.c].dl - tol <= e.t /\ e.t <= rec[e.c].dl + tol
            bad == (IF nearDl \/ (ReadOk(rec, e.t, heldFor, e.c, hit, IF (e.via = "export" \/ e.b = -8) /\ hit THEN rec[e.c].b ELSE e.b) /\ bytesOk) THEN {}
                    ELSE {IF hit THEN "C01.read-served-dead-or-wrong/" \o e.via ELSE "C01.read-missed-live/" \o e.via})
                   \cup DerivedClauses(e.proj, bound)
        IN Common(e, bad, rec, held, bound, owed, notified, slack)
    [] e.op = "list" ->
        LET nearAny == tol > 0 /\ \E c \in Ids : rec[c].live /\ rec[c].dl - tol <= e.t /\ e.t <= rec[c].dl + tol
            bad == (IF nearAny \/ ListOk(rec, e.t, ArrSet(Arr(e.ids))) THEN {} ELSE {"C01.listing-serves-dead"})
                   \cup (IF \A c \in held : CLive(rec, e.t, c) => c \in ArrSet(Arr(e.ids)) THEN {} ELSE {"C29.list-missing-live-chunk"})
        IN Common(e, bad, rec, held, bound, owed, notified, slack)
    [] e.op = "mk" -> Common(e, {}, rec, held, bound, owed, notified, slack)
    [] e.op = "hint" ->
        \* live (multi-threaded, real-time) traces only: an arrival that another thread has already applied but whose own
        \* event is logged a moment later; the converter announces its bound ahead so that projections taken in between are
        \* judged against it (window: a few hundred milliseconds)
        /\ bound' = [bound EXCEPT ![e.c] = Max(@, e.bd)]
        /\ UNCHANGED <<viol, poisoned, now, cmin, cmax, rec, held, mE, owed, notified, slack, pproj, tol, nchecked>>
    [] e.op = "selfann" ->
        \* announce_chunk(c, ttl) by the operator: an announcement of the node's own, not derived from a manifest
        LET bd2 == [bound EXCEPT ![e.c] = Max(@, e.t + e.ttl)]
        IN Common(e, DerivedClauses(e.proj, bd2), rec, held, bd2, owed, notified, slack)
    [] e.op = "manifest" ->
        \* a manifest with expiry E arrives (ingest / announce / request)
        LET c == e.c  E == e.exp
            tooOld == ManifestMustBeRejected(E, e.t - tol, cmin - 2 * tol)
            bd1 == IF tooOld THEN bound ELSE [bound EXCEPT ![c] = Max(@, Min(E, e.t + cmax))]
            bd2 == Refetch(bd1, e.t, pproj, e.proj)
            bad == (IF tooOld /\ tol = 0 /\ ~SameProj(e.proj, pproj) THEN {"C03.expired-manifest-changed-state/" \o e.via} ELSE {})
                   \cup DerivedClauses(e.proj, bd2)
                   \cup ArrivalWrites(e, c, E, ~tooOld /\ Has(e, "ok") /\ e.ok, FALSE)
        IN Common(e, bad, rec, held, bd2, owed, notified, slack)
    [] e.op = "replica" ->
        LET c == e.c  E == e.exp
            tooOld == ManifestMustBeRejected(E, e.t - tol, cmin - 2 * tol)
            bd2 == IF tooOld THEN bound ELSE [bound EXCEPT ![c] = Max(@, Min(E, e.t + cmax))]
            r2 == IF e.ok THEN [rec EXCEPT ![c] = [live |-> TRUE, b |-> e.b, dl |-> e.dl, inst |-> 0]] ELSE rec
            sl2 == IF e.ok /\ rec[c].live /\ rec[c].dl <= e.t THEN [slack EXCEPT ![c] = @ + 1] ELSE slack
            bad == (IF tooOld /\ (e.ok \/ (tol = 0 /\ ~SameProj(e.proj, pproj))) THEN {"C03.expired-manifest-changed-state/" \o e.via} ELSE {})
                   \cup (IF e.ok /\ e.corrupt # 0 THEN {"C11.tampered-replica-accepted"} ELSE {})
                   \cup (IF e.ok /\ e.via = "recv" /\ e.cls # e.b THEN {"C11.replica-roundtrip-mismatch"} ELSE {})
                   \cup (IF ~e.ok /\ e.corrupt # 0 /\ ~SameProj(e.proj, pproj) THEN {"C11.tampered-replica-changed-state"} ELSE {})
                   \cup DerivedClauses(e.proj, bd2)
                   \cup ArrivalWrites(e, c, IF e.via = "recv" THEN E ELSE CachedExpiry(pproj, c, E), ~tooOld /\ e.ok, TRUE)
        IN Common(e, bad, r2, IF e.ok THEN held \cup {c} ELSE held, bd2, owed, notified, sl2)
    [] e.op = "tick" ->
        LET tc == e.t
            \* under a moving clock (tol > 0) a deadline within tol of the tick is ambiguous: the sweep may have read the clock just
            \* before it and the audit just after.  Such a chunk counts as reaped iff it is gone from the projection; a deadline that
            \* lies at least tol before the tick must be reaped (CleanupClauses), one that lies after it cannot be.
            gone(c) == ~\E x \in Chunks(e.proj) : x[1] = c
            expd == {c \in Ids : rec[c].live /\ (rec[c].dl <= tc - tol \/ (rec[c].dl <= tc + tol /\ tol > 0 /\ gone(c)))}
            amb == IF tol = 0 THEN 0 ELSE
                   Cardinality({x \in Chunks(e.proj) : x[2] > tc - tol /\ x[2] <= tc + tol})
                   + Cardinality({x \in Locs(e.proj) : x[2] > tc - tol /\ x[2] <= tc + tol})
                   + Cardinality({x \in Holders(e.proj) : x[3] > tc - tol /\ x[3] <= tc + tol})
            r2 == IF e.cleaned THEN [c \in Ids |-> IF c \in expd THEN [rec[c] EXCEPT !.live = FALSE] ELSE rec[c]] ELSE rec
            ow2 == IF e.cleaned THEN [c \in Ids |-> IF c \in expd THEN owed[c] + 1 ELSE owed[c]] ELSE owed
            bd2 == Refetch(bound, tc, pproj, e.proj)
            bad == (IF e.cleaned THEN CleanupClauses(e.proj, tc, bd2, rec) ELSE {})
                   \cup (IF \A x \in Pend(e.proj) : x[2] > tc - tol THEN {} ELSE {"C03.pending-fetch-outlives-manifest"})   \* every tick drops them
                   \cup (IF e.cleaned /\ (e.a_local + e.a_loc + e.a_contacts > amb) THEN {"C05.audit-reports-expired-after-cleanup"} ELSE {})
                   \cup DerivedClauses(e.proj, bd2)
        IN Common(e, bad, r2, held, bd2, ow2, notified, slack)
    [] e.op = "drain" ->
        LET ids == Arr(e.ids)
            nt2 == [c \in Ids |-> notified[c] + Cardinality({i \in DOMAIN ids : ids[i] = c})]
            bad == (IF \A c \in Ids : nt2[c] >= owed[c] THEN {} ELSE {"C05.expiry-not-reported"})
                   \cup (IF \A c \in Ids : nt2[c] <= owed[c] + slack[c] THEN {} ELSE {"C05.expiry-reported-twice"})
                   \cup (IF \A i \in DOMAIN ids : ids[i] \in Ids THEN {} ELSE {"C05.unknown-chunk-reported"})
        IN Common(e, bad, rec, held, bound, owed, nt2, slack)
    [] e.op = "adv" -> Common(e, DerivedClauses(e.proj, bound), rec, held, bound, owed, notified, slack)
    [] OTHER -> UNCHANGED <<viol, poisoned, now, cmin, cmax, rec, held, bound, mE, owed, notified, slack, pproj, tol, nchecked>>

Next == l <= Len(T) /\ l' = l + 1 /\ Step(T[l])
Spec == Init /\ [][Next]_vars
Done == Report(l, viol, [checked |-> nchecked])
=============================================================================
