-------------------------------- MODULE Pow --------------------------------
(* Reference of the four proof-of-work surfaces of EphemeralNet (property C19): the byte    *)
(* strings that are hashed, the leading-zero-bit count of a digest and the acceptance       *)
(* predicate.  SHA-256 is the executable reference of module Sha256 (extended, not copied). *)
(*                                                                                          *)
(* FIELD ENCODINGS (read from the code, restated here; "||" is concatenation, U64(n) /      *)
(* U32(n) the 8- / 4-byte big-endian image of n, every nonce is U64(nonce)):                *)
(*                                                                                          *)
(*  handshake  src/core/Node.cpp handshake_pow_digest, src/main.cpp transport_handshake_digest *)
(*       U64(len initiator id) || initiator id (32)                                         *)
(*    || U64(len responder id) || responder id (32)                                         *)
(*    || U64(initiator public key)      (the key is a 32-bit value: 4 zero bytes, then its  *)
(*                                       4 bytes most significant first)                    *)
(*    || U64(nonce)                                                        96 bytes          *)
(*                                                                                          *)
(*  announce   src/core/Node.cpp announce_pow_digest                                        *)
(*       U64(32) || chunk id || U64(32) || peer id                                          *)
(*    || U64(len endpoint) || endpoint bytes                                                *)
(*    || U64(len manifest URI) || manifest URI bytes                                        *)
(*    || U64(number of assigned shards) || one byte per shard index                         *)
(*    || U64(ttl in seconds, two's complement image of the signed count)                    *)
(*    || U64(nonce)                                                                         *)
(*                                                                                          *)
(*  store      src/security/StoreProof.cpp pow_digest                                       *)
(*       chunk id (32, NO length prefix) || U64(payload size)                               *)
(*    || U32(len filename hint) || filename hint bytes   (an absent hint is the empty one)  *)
(*    || U64(nonce)                                                                         *)
(*                                                                                          *)
(*  token      src/bootstrap/TokenChallenge.cpp solve_token_challenge                        *)
(*       chunk id (32) || chunk hash (32) || hint endpoint bytes   (no length prefixes; the *)
(*       two fixed-size fields come first, so the encoding is still injective)              *)
(*    || U64(nonce)                                                                         *)
(*                                                                                          *)
(* ACCEPTANCE.  Accept(digest, bits) == LeadingZeroBits(digest) >= bits, bits in 0..255.    *)
(* The code's cap: security::store_pow_valid / compute_store_pow replace a difficulty above *)
(* kMaxStorePowDifficulty = 24 by 24 (AcceptCapped).  The anonymous-namespace validators of *)
(* Node.cpp and main.cpp take the difficulty as given; the node clamps its configured       *)
(* difficulties to 24 once, in sanitize_config, so where exactly that cap sits is not       *)
(* observable at node level: for them a verdict at a difficulty above 24 is right when it   *)
(* is the uncapped OR the capped one (AcceptBand).                                          *)
(*                                                                                          *)
(* PUBLIC OPERATORS                                                                         *)
(*   U64Small(n), U32Small(n)      big-endian images of 0 <= n < 2^31                       *)
(*   LP8(x), LP4(x)                length-prefixed field                                    *)
(*   HandshakeMsg/AnnounceMsg/StoreMsg/TokenMsg, ...Digest                                  *)
(*   LeadingZeroBits(dig)  Accept(dig, bits)  AcceptCapped(dig, bits)  PowCap               *)
(*   AcceptedSet(dig) / AcceptedSetCapped(dig)   the difficulties 0..255 accepted           *)
EXTENDS Sha256, Integers, FiniteSets

PowCap == 24
Difficulties == 0..255

U32Small(n) == << (n \div 16777216) % 256, (n \div 65536) % 256, (n \div 256) % 256, n % 256 >>
U64Small(n) == <<0, 0, 0, 0>> \o U32Small(n)
LP8(x) == U64Small(Len(x)) \o x
LP4(x) == U32Small(Len(x)) \o x

\* pub4: the 4 bytes of the 32-bit public key, most significant first; nonce8, ttl8, size8: 8 bytes
HandshakeMsg(init, resp, pub4, nonce8) == LP8(init) \o LP8(resp) \o <<0, 0, 0, 0>> \o pub4 \o nonce8
AnnounceMsg(cid, peer, ep, uri, shards, ttl8, nonce8) ==
   LP8(cid) \o LP8(peer) \o LP8(ep) \o LP8(uri) \o LP8(shards) \o ttl8 \o nonce8
StoreMsg(cid, size8, fname, nonce8) == cid \o size8 \o LP4(fname) \o nonce8
TokenMsg(cid, hash, ep, nonce8) == cid \o hash \o ep \o nonce8

HandshakeDigest(init, resp, pub4, nonce8) == SHA256(HandshakeMsg(init, resp, pub4, nonce8))
AnnounceDigest(cid, peer, ep, uri, shards, ttl8, nonce8) == SHA256(AnnounceMsg(cid, peer, ep, uri, shards, ttl8, nonce8))
StoreDigest(cid, size8, fname, nonce8) == SHA256(StoreMsg(cid, size8, fname, nonce8))
TokenDigest(cid, hash, ep, nonce8) == SHA256(TokenMsg(cid, hash, ep, nonce8))

\* number of zero bits before the first one bit of a byte 1..255 (the k with 2^(7-k) <= b < 2^(8-k))
LOCAL LZ8(b) == CHOOSE k \in 0..7 : P2[8 - k] <= b /\ b < P2[9 - k]
\* number of zero bits before the first one bit of the byte string, all bits if there is none
LeadingZeroBits(dig) ==
   LET i == SelectInSeq(dig, LAMBDA b : b # 0)       \* index of the first non-zero byte, 0 if there is none
   IN IF i = 0 THEN 8 * Len(dig) ELSE 8 * (i - 1) + LZ8(dig[i])

Accept(dig, bits) == LeadingZeroBits(dig) >= bits
AcceptCapped(dig, bits) == Accept(dig, IF bits > PowCap THEN PowCap ELSE bits)

\* all verdicts for one digest at once (one LeadingZeroBits evaluation)
AcceptedSet(dig) == LET z == LeadingZeroBits(dig) IN {d \in Difficulties : z >= d}
AcceptedSetCapped(dig) == LET z == LeadingZeroBits(dig) IN {d \in Difficulties : z >= (IF d > PowCap THEN PowCap ELSE d)}
=============================================================================
