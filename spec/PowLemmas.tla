----------------------------- MODULE PowLemmas -----------------------------
(* In-spec lemmas about module Pow (C19), checked exhaustively by TLC: one state per        *)
(* synthetic digest (z, fill): a 32-byte string whose first z bits are zero, whose bit z    *)
(* (if z < 256) is one and whose remaining bits follow filling fill:                        *)
(*    1 all zero   2 all one   3 alternating 1010..   4 a z-dependent pseudo-random pattern *)
(*  L_LZ        LeadingZeroBits(Synth(z, fill)) = z                    z in 0..256          *)
(*  L_Accept    for EVERY difficulty d in 0..255: Accept(dig, d) <=> z >= d,                *)
(*              AcceptCapped(dig, d) <=> z >= min(d, 24), and AcceptedSet / AcceptedSetCapped *)
(*              are exactly the sets of such d                                               *)
(*  L_Monotone  Accept(dig, d) => Accept(dig, d - 1) for every d in 1..255; Accept(dig, 0);  *)
(*              Accept(dig, d) => AcceptCapped(dig, d); both agree for d <= 24               *)
(*  L_Prefix    LeadingZeroBits looks at nothing behind the first one bit: the count is the  *)
(*              same for the digest cut after that byte, and shorter strings count all bits  *)
(* Layout vectors (ASSUME): one digest per surface, computed with an independent             *)
(* implementation (python struct.pack + hashlib) from the layouts stated in the header of    *)
(* Pow.tla, pins the transcription of the four encodings (lengths, prefix widths, order).    *)
EXTENDS Pow

\* dig = Synth(z, fill); acc / accc = the difficulties Accept / AcceptCapped accept for dig.  They are state variables so
\* that each is evaluated once per state (a definition would be re-evaluated at every use).  lane: 0 in the 8 dummy start
\* states (one per lane, so that -workers 8 share the work), the lane number in the case states.
VARIABLES z, fill, dig, acc, accc, lane
vars == <<z, fill, dig, acc, accc, lane>>
NLanes == 8

FillBit(j, f, zz) ==
   CASE f = 1 -> 0
     [] f = 2 -> 1
     [] f = 3 -> j % 2
     [] OTHER -> IF ((j * 37 + zz * 11 + (j \div 8) * 5) % 7) < 3 THEN 1 ELSE 0

\* bit j (0 = most significant bit of byte 1) of the synthetic digest
Bit(j, zz, f) == IF j < zz THEN 0 ELSE IF j = zz THEN 1 ELSE FillBit(j, f, zz)
Synth(zz, f) == [i \in 1..32 |->
   Bit(8*i - 8, zz, f) * 128 + Bit(8*i - 7, zz, f) * 64 + Bit(8*i - 6, zz, f) * 32 + Bit(8*i - 5, zz, f) * 16 +
   Bit(8*i - 4, zz, f) * 8 + Bit(8*i - 3, zz, f) * 4 + Bit(8*i - 2, zz, f) * 2 + Bit(8*i - 1, zz, f)]

Init == z = 0 /\ fill = 0 /\ dig = <<>> /\ acc = {} /\ accc = {} /\ lane \in 1..NLanes
Next == /\ fill = 0
        /\ z' \in {x \in 0..256 : x % NLanes = lane - 1} /\ fill' \in 1..4 /\ lane' = lane
        /\ dig' = Synth(z', fill')
        /\ acc' = {d \in Difficulties : Accept(dig', d)}
        /\ accc' = {d \in Difficulties : AcceptCapped(dig', d)}
Spec == Init /\ [][Next]_vars

Dig == dig
Case == fill # 0
MinCap(d) == IF d > PowCap THEN PowCap ELSE d

L_LZ == Case => IsBytes(Dig) /\ Len(Dig) = 32 /\ LeadingZeroBits(Dig) = z
L_Accept == Case =>
   /\ \A d \in Difficulties : (d \in acc <=> z >= d) /\ (d \in accc <=> z >= MinCap(d))
   /\ AcceptedSet(Dig) = acc
   /\ AcceptedSetCapped(Dig) = accc
L_Monotone == Case =>
   /\ 0 \in acc /\ 0 \in accc
   /\ \A d \in 1..255 : (d \in acc => (d - 1) \in acc) /\ (d \in accc => (d - 1) \in accc)
   /\ acc \subseteq accc /\ \A d \in 0..PowCap : d \in acc <=> d \in accc
L_Prefix == Case =>
   LET k == IF z = 256 THEN 32 ELSE (z \div 8) + 1
   IN /\ LeadingZeroBits(SubSeq(Dig, 1, k)) = z
      /\ \A n \in 0..(k - 1) : LeadingZeroBits(SubSeq(Dig, 1, n)) = 8 * n
      /\ LeadingZeroBits(SubSeq(Dig, 1, k) \o [i \in 1..(32 - k) |-> 255]) = z

---------------------------------------------------------------------------------------
\* layout vectors
LOCAL Ids1 == [i \in 1..32 |-> i]
LOCAL Ids2 == [i \in 1..32 |-> 32 + i]
LOCAL Nonce == <<1, 2, 3, 4, 5, 6, 7, 8>>
LOCAL Ep == <<49, 48, 46, 48, 46, 48, 46, 49, 58, 52, 48, 48, 48>>      \* "10.0.0.1:4000"
LOCAL Uri == <<101, 112, 104, 58, 47, 47, 109>>                        \* "eph://m"
LOCAL Fn == <<97, 46, 116, 120, 116>>                                  \* "a.txt"
LOCAL Size == <<0, 0, 0, 0, 0, 18, 214, 135>>                          \* 1234567
LOCAL Ttl == <<0, 0, 0, 0, 0, 0, 14, 16>>                              \* 3600

ASSUME Len(HandshakeMsg(Ids1, Ids2, <<137, 171, 205, 239>>, Nonce)) = 96
ASSUME HandshakeDigest(Ids1, Ids2, <<137, 171, 205, 239>>, Nonce) =
   <<84, 140, 153, 226, 201, 206, 49, 164, 42, 133, 92, 181, 131, 237, 14, 221, 47, 129, 176, 85, 199, 123, 27, 118, 151, 229, 122, 120, 220, 41, 54, 183>>
ASSUME Len(AnnounceMsg(Ids1, Ids2, Ep, Uri, <<0, 2, 5>>, Ttl, Nonce)) = 143
ASSUME AnnounceDigest(Ids1, Ids2, Ep, Uri, <<0, 2, 5>>, Ttl, Nonce) =
   <<156, 212, 20, 36, 14, 67, 70, 238, 64, 243, 7, 234, 180, 125, 27, 170, 137, 202, 74, 204, 162, 236, 137, 63, 8, 206, 52, 3, 175, 189, 92, 248>>
ASSUME Len(StoreMsg(Ids1, Size, Fn, Nonce)) = 57
ASSUME StoreDigest(Ids1, Size, Fn, Nonce) =
   <<197, 26, 116, 185, 85, 164, 246, 215, 36, 66, 7, 200, 160, 207, 221, 1, 40, 121, 123, 231, 218, 174, 76, 212, 187, 79, 66, 206, 19, 217, 226, 177>>
ASSUME StoreDigest(Ids1, Size, <<>>, Nonce) =
   <<161, 148, 208, 190, 45, 253, 61, 16, 70, 229, 223, 11, 196, 7, 5, 84, 200, 102, 203, 161, 241, 171, 25, 107, 214, 192, 111, 165, 182, 18, 233, 239>>
ASSUME Len(TokenMsg(Ids1, Ids2, Ep, Nonce)) = 85
ASSUME TokenDigest(Ids1, Ids2, Ep, Nonce) =
   <<19, 139, 118, 136, 194, 198, 20, 124, 49, 87, 95, 212, 38, 73, 135, 30, 187, 134, 114, 254, 148, 6, 239, 58, 227, 170, 60, 199, 190, 119, 208, 15>>
=============================================================================
