------------------------------ MODULE PowTrace ------------------------------
(* Trace specification for C19 (proof-of-work surfaces).  Every event recorded by            *)
(* harness/pow.cpp (node / library code) and harness/pow_cli.cpp (the CLI's own copies in    *)
(* src/main.cpp) carries the field values handed to the real code and what the real code     *)
(* answered; here the digest is recomputed from the logged FIELDS with the reference of      *)
(* module Pow (layouts in its header) and acceptance is decided for all 256 difficulties at  *)
(* once.  Events are independent (pure functions): nothing is poisoned, every failing event  *)
(* is reported, and the trace is validated in interleaved lanes (see CryptoTrace).           *)
(*                                                                                          *)
(* EVENTS                                                                                   *)
(*  lz     dig, node, store, cli (leading-zero counters of Node.cpp, StoreProof.cpp and      *)
(*         main.cpp on dig; -1 = not recorded), tok (the difficulties for which              *)
(*         bootstrap::digest_meets_difficulty(dig, d) is true; tokrec = 1 if recorded)       *)
(*  probe  surface handshake|announce|store, impl node|lib|cli, the fields, nonce (8 bytes), *)
(*         acc = the difficulties 0..255 at which the real validator accepts (fields, nonce),*)
(*         dig = the digest the real digest function returned (<<>> if it is unreachable),   *)
(*         kind solved (nonce returned by the matching solver at difficulty d0; found = 0:   *)
(*         the solver gave up and nonce is arbitrary) | clisolved (nonce returned by the     *)
(*         CLI's solver, probed on the node's validator) | plus | minus (solved nonce +- 1)  *)
(*         | mut (one field changed, named in field; nonce still the solved one)             *)
(*         | given | witness (nonce from the script)                                         *)
(*  tok    the token surface has no validator apart from the solver's own search loop, so    *)
(*         it is observed through solve_token_challenge(fields, d0, max): found/nonce (n =   *)
(*         its integer value).  The search tries 0, 1, 2, ... so a result n says: n accepted,*)
(*         0..n-1 rejected; no result says 0..max-1 rejected.  check = prev: the reference   *)
(*         re-decides n-1; full: every k < n; last: (no result) max-1; kind mut: one field   *)
(*         changed and max = base+1 where base is the unmutated result.  hacc = difficulties *)
(*         at which digest_meets_difficulty accepts Sha256::digest of the material composed  *)
(*         BY THE HARNESS for (fields, nonce) (binds that predicate on real digests).        *)
(*                                                                                          *)
(* CLAUSES (S = surface; "/cli" is appended for the CLI's copies)                            *)
(*  C19.S-accepted-invalid      the validator accepts at a difficulty the reference digest   *)
(*                              does not meet                                                *)
(*  C19.S-rejected-valid        the validator rejects at a difficulty the reference digest   *)
(*                              meets (token: the search skipped a nonce the reference accepts)*)
(*  C19.S-digest-mismatch       the real digest function returned another digest             *)
(*  C19.solver-nonce-rejected/S a nonce returned by the solver is rejected at the solver's   *)
(*                              difficulty by the real validator or by the reference         *)
(*  C19.unbound-field/S/F       with field F changed the validator (token: the search) still *)
(*                              accepts the old nonce at d0 although the reference digest    *)
(*                              no longer meets d0                                           *)
(*  C19.counters-disagree       two of the code's leading-zero counters differ on a digest,  *)
(*                              or digest_meets_difficulty differs from "counter >= d"       *)
(*  C19.counter-wrong/W         counter W (node|store|cli|token) differs from LeadingZeroBits*)
(* Cap: store uses AcceptCapped (difficulty above 24 = 24, the code's cap).  For handshake   *)
(* and announce the functions are uncapped and the node clamps its configuration instead, so *)
(* above 24 an acceptance needs the capped target and a rejection needs the uncapped one to  *)
(* be missed (either placement of the cap is right).                                         *)
EXTENDS TraceKit, Pow

VARIABLES l, viol, nviol, stats, res
vars == <<l, viol, nviol, stats, res>>

MaxReported == 60
Lanes == IF "LANES" \in DOMAIN IOEnv THEN atoi(IOEnv.LANES) ELSE 1

\* reference-side counters (vacuity guards are computed from these, not from what the code said)
Stat0 == [lz |-> 0, lzacc |-> 0, probes |-> 0, solved |-> 0, clisolved |-> 0, refacc |-> 0, refrej |-> 0, muts |-> 0, mutrej |-> 0,
          digs |-> 0, over24 |-> 0, capwit |-> 0, tok |-> 0, toksearch |-> 0, tokmuts |-> 0, tokmutrej |-> 0, refdigests |-> 0, refblocks |-> 0]
NoInc == [k \in {} |-> 0]
R0 == [bad |-> {}, inc |-> NoInc]

Init == l \in 1..Lanes /\ viol = <<>> /\ nviol = 0 /\ stats = Stat0 /\ res = R0

B(x) == Arr(x)
SetOf(x) == ArrSet(Arr(x))
NBlocks(n) == ((n + 8) \div 64) + 1
Sfx(e) == IF Fld(e, "impl", "") = "cli" THEN "/cli" ELSE ""

\* -------------------------------------------------------------------- counters
LzEval(e) ==
   LET dig == B(e.dig)
       z == LeadingZeroBits(dig)
       cs == {c \in {e.node, e.store, e.cli} : c # -1}
       tokrec == e.tokrec = 1
       tk == SetOf(e.tok)
       fromc(c) == {d \in Difficulties : c >= d}
   IN [bad |-> (IF Cardinality(cs) > 1 \/ (tokrec /\ \E c \in cs : tk # fromc(c)) THEN {"C19.counters-disagree"} ELSE {})
               \cup (IF e.node # -1 /\ e.node # z THEN {"C19.counter-wrong/node"} ELSE {})
               \cup (IF e.store # -1 /\ e.store # z THEN {"C19.counter-wrong/store"} ELSE {})
               \cup (IF e.cli # -1 /\ e.cli # z THEN {"C19.counter-wrong/cli"} ELSE {})
               \cup (IF tokrec /\ tk # AcceptedSet(dig) THEN {"C19.counter-wrong/token"} ELSE {}),
       inc |-> [lz |-> 1, lzacc |-> z]]

\* -------------------------------------------------------------------- validators
ProbeMsg(e) ==
   CASE e.surface = "handshake" -> HandshakeMsg(B(e.init), B(e.resp), B(e.pub), B(e.nonce))
     [] e.surface = "announce" -> AnnounceMsg(B(e.cid), B(e.peer), B(e.ep), B(e.uri), B(e.shards), B(e.ttl), B(e.nonce))
     [] e.surface = "store" -> StoreMsg(B(e.cid), B(e.size), B(e.fname), B(e.nonce))

ProbeEval(e) ==
   LET msg == ProbeMsg(e)
       ref == SHA256(msg)
       z == LeadingZeroBits(ref)
       capped == {d \in Difficulties : z >= (IF d > PowCap THEN PowCap ELSE d)}     \* = AcceptedSetCapped(ref)
       plain == {d \in Difficulties : z >= d}                                       \* = AcceptedSet(ref)
       may == capped                                              \* the validator may accept these
       must == IF e.surface = "store" THEN capped ELSE plain      \* and must accept these
       acc == SetOf(e.acc)
       S == e.surface
       dig == B(e.dig)
       d0 == e.d0
       solver == e.kind \in {"solved", "clisolved"} /\ e.found = 1
   IN [bad |-> (IF acc \ may # {} THEN {"C19." \o S \o "-accepted-invalid" \o Sfx(e)} ELSE {})
               \cup (IF must \ acc # {} THEN {"C19." \o S \o "-rejected-valid" \o Sfx(e)} ELSE {})
               \cup (IF dig # <<>> /\ dig # ref THEN {"C19." \o S \o "-digest-mismatch" \o Sfx(e)} ELSE {})
               \cup (IF solver /\ (d0 \notin acc \/ d0 \notin may) THEN {"C19.solver-nonce-rejected/" \o S \o Sfx(e)} ELSE {})
               \cup (IF e.kind = "mut" /\ d0 \in acc /\ d0 \notin may THEN {"C19.unbound-field/" \o S \o "/" \o e.field \o Sfx(e)} ELSE {}),
       inc |-> [probes |-> 1, solved |-> IF e.kind = "solved" /\ e.found = 1 THEN 1 ELSE 0, clisolved |-> IF e.kind = "clisolved" THEN 1 ELSE 0,
                refacc |-> IF d0 \in must THEN 1 ELSE 0, refrej |-> IF d0 \notin may THEN 1 ELSE 0,
                muts |-> IF e.kind = "mut" THEN 1 ELSE 0, mutrej |-> IF e.kind = "mut" /\ d0 \notin may THEN 1 ELSE 0,
                digs |-> IF dig # <<>> THEN 1 ELSE 0, over24 |-> IF z >= PowCap THEN 1 ELSE 0,
                capwit |-> IF z >= PowCap /\ z < 255 /\ S = "store" THEN 1 ELSE 0,
                refdigests |-> 1, refblocks |-> NBlocks(Len(msg))]]

\* -------------------------------------------------------------------- token (observed through the solver's search)
TokEval(e) ==
   LET cid == B(e.cid)
       hash == B(e.hash)
       ep == B(e.ep)
       d0 == e.d0
       n == e.n
       found == e.found = 1
       D(k) == TokenDigest(cid, hash, ep, U64Small(k))
       ref == IF found THEN TokenDigest(cid, hash, ep, B(e.nonce)) ELSE <<>>
       refok == found /\ Accept(ref, d0)
       mut == e.kind = "mut"
       \* nonces below the result that the reference re-decides
       below == IF ~found THEN (IF e.check = "last" /\ e.max >= 1 THEN {e.max - 1} ELSE {})
                ELSE IF e.check = "full" THEN 0..(n - 1)
                ELSE IF e.check = "prev" /\ n >= 1 THEN {n - 1} ELSE {}
       skipped == d0 >= 1 /\ \E k \in below : Accept(D(k), d0)
       hacc == SetOf(e.hacc)
       S == "token"
   IN [bad |-> (IF found /\ ~refok /\ ~(mut /\ n = e.base) THEN {"C19.solver-nonce-rejected/token" \o Sfx(e)} ELSE {})
               \cup (IF found /\ ~refok /\ mut /\ n = e.base THEN {"C19.unbound-field/token/" \o e.field \o Sfx(e)} ELSE {})
               \cup (IF skipped THEN {"C19.token-rejected-valid" \o Sfx(e)} ELSE {})
               \cup (IF found /\ e.hrec = 1 /\ hacc \ AcceptedSet(ref) # {} THEN {"C19.token-accepted-invalid" \o Sfx(e)} ELSE {})
               \cup (IF found /\ e.hrec = 1 /\ AcceptedSet(ref) \ hacc # {} THEN {"C19.token-rejected-valid" \o Sfx(e)} ELSE {}),
       inc |-> [tok |-> 1, toksearch |-> IF found /\ e.check = "full" THEN 1 ELSE 0,
                tokmuts |-> IF mut THEN 1 ELSE 0,
                tokmutrej |-> IF mut /\ ~found THEN 1 ELSE 0,
                solved |-> IF found /\ ~mut THEN 1 ELSE 0,
                refacc |-> IF refok THEN 1 ELSE 0,
                refdigests |-> (IF found THEN 1 ELSE 0) + (IF d0 >= 1 THEN Cardinality(below) ELSE 0),
                refblocks |-> ((IF found THEN 1 ELSE 0) + (IF d0 >= 1 THEN Cardinality(below) ELSE 0)) * NBlocks(72 + Len(ep))]]

\* --------------------------------------------------------------------
Eval(e) ==
   CASE e.op = "lz" -> LzEval(e)
     [] e.op = "probe" -> ProbeEval(e)
     [] e.op = "tok" -> TokEval(e)
     [] OTHER -> R0

AddInc(s, inc) == [k \in DOMAIN s |-> IF k \in DOMAIN inc THEN s[k] + inc[k] ELSE s[k]]

Step(e) ==
   /\ res' = Eval(e)
   /\ stats' = AddInc(stats, res'.inc)
   /\ nviol' = nviol + (IF res'.bad = {} THEN 0 ELSE 1)
   /\ viol' = IF res'.bad = {} \/ Len(viol) >= MaxReported THEN viol
              ELSE Append(viol, Fail(l, res'.bad, [op |-> e.op, src |-> Fld(e, "src", 0), surface |-> Fld(e, "surface", ""),
                                                   impl |-> Fld(e, "impl", ""), kind |-> Fld(e, "kind", ""), field |-> Fld(e, "field", "")]))

Next == l <= Len(T) /\ l' = l + Lanes /\ Step(T[l])
Spec == Init /\ [][Next]_vars
Done == Report(l, viol, stats @@ [nviol |-> nviol])
=============================================================================
