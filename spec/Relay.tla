------------------------------- MODULE Relay -------------------------------
(* Relay server: design model shaped like src/relay/RelayServer.cpp (one operator per      *)
(* handle_* / close_session / detach_partner / remove_registration / find_registered /    *)
(* forward_to_partner), driven by client steps; the contract of C25 / C26                 *)
(* (RelayContract.tla) is checked as invariants over ghost state.                          *)
(*                                                                                         *)
(* The server is single threaded and has no timers, so one client step (the bytes of one  *)
(* write, or a disconnect) followed by the server running until it is idle is one atomic  *)
(* action; that is also exactly how the driver (harness/relay.cpp) replays a behaviour.    *)
(*                                                                                         *)
(* Byte-level abstraction: commands are whole lines; the 32 identity bytes come in thirds *)
(* (1-3 fragments); a data token is a short newline-terminated byte string that names its *)
(* sender and sequence number; "part" is a piece of a line without newline (it glues to   *)
(* the next line, which then is an unknown command).                                       *)
EXTENDS Integers, Sequences, FiniteSets, TLC, RelayContract

CONSTANTS Clients,          \* client numbers (each connects at most once)
          Ids,              \* peer ids used in REGISTER / CONNECT
          MaxData,          \* data tokens per client
          MaxHist,          \* bound on the number of client steps (0: unbounded, the state space is finite)
          RegWhileClaimed,  \* "refuse": REGISTER of a claimed peer is answered with an error (the code after
                            \* the proposed fix);  "accept": the code as found (deviation, see MC_Relay_dev_*.cfg)
          AltSpelling       \* a CONNECT may spell its target's id differently from the registry key (upper-case hex):
                            \* "off": such CONNECTs are not part of the model;  "refuse": the registry is searched with the
                            \* text as typed, so they find nothing (the code);  "erase-raw": deviation -- the lookup
                            \* canonicalises but the entry is erased under the text as typed, so the claimed peer stays listed

VARIABLES s,      \* server state + client inbound queues + contract ghost, one record (handlers are functions on it)
          ck,     \* what each client knows: "new" (not connected), "idle", "reg" (REGISTER accepted),
                  \* "begun" (got BEGIN), "con" (CONNECT accepted), "dead" (closed its socket), "eof" (the relay closed the connection)
          tgt,    \* the id a connector's accepted CONNECT asked for
          ids,    \* identity thirds a connector has sent
          nd,     \* data tokens a client has sent
          regids, \* ids a client has had accepted by REGISTER (ghost, for ClaimsOk)
          obs,    \* outcome of the last step (keeps refused / ignored steps visible in the state dump)
          hist    \* the client steps so far (hidden by VIEW)

None == 0
NScn == 13   \* number of vacuity scenarios (Scenarios, below)
\* lines that are not commands: all of them leave the state unchanged ("unk" is answered with an error, PONG and the
\* empty line with nothing), so one representative is enough in the model; checks/relay.py substitutes the others
MiscKinds == {"unk"}

\* weak_ptr<ClientSession>::lock() succeeds
Alive(t, c) == c # None /\ t.st[c] \notin {"none", "closed"}

InitS == [st      |-> [c \in Clients |-> "none"],    \* none, cmd (AwaitingCommand), reg (Registered), await (AwaitingIdentity), br (Bridged), closed
          peer    |-> [c \in Clients |-> None],       \* peer_hex
          partner |-> [c \in Clients |-> None],       \* weak_ptr partner
          reg     |-> [i \in Ids |-> None],           \* registered_ : id -> session (an entry may point to a closed session)
          junk    |-> [c \in Clients |-> FALSE],      \* read_buffer holds a piece of a line
          out     |-> [c \in Clients |-> <<>>],       \* what the client receives: BEGIN notices and data tokens, in order
          last    |-> "none",                          \* reply produced by the current step: none / ok / err
          hung    |-> FALSE,                           \* process_protocol spins forever (identity ready, partner gone, session closing)
          \* contract ghost
          br      |-> [c \in Clients |-> None],
          post    |-> [c \in Clients |-> <<>>]]        \* tokens c sent after its bridge was established

-----------------------------------------------------------------------------
(* the handlers of RelayServer.cpp                                                         *)

Reply(t, r)   == [t EXCEPT !.last = r]
Q(t, c, item) == [t EXCEPT !.out[c] = Append(@, item)]          \* queue_binary to session c (an open session always drains)

\* remove_registration(session)
RemoveRegistration(t, c) ==
    IF t.peer[c] = None THEN t
    ELSE LET i == t.peer[c]
             e == t.reg[i]
         IN IF e # None /\ (e = c \/ ~Alive(t, e)) THEN [t EXCEPT !.reg[i] = None] ELSE t

\* close_session(session) with detach_partner(session) inlined; the recursion of the code ends after one
\* level because detach_partner resets the partner's pointer before closing it
Close(t, c) ==
    IF ~Alive(t, c) THEN t
    ELSE LET t1 == RemoveRegistration(t, c)
             p  == t1.partner[c]
             t2 == IF ~Alive(t1, p) THEN t1
                   ELSE LET t1a == [t1 EXCEPT !.partner[p] = None]
                        IN IF t1.st[p] \in {"await", "br"}
                             THEN [RemoveRegistration(t1a, p) EXCEPT !.st[p] = "closed"]
                           ELSE IF t1.st[p] = "reg" /\ t1.peer[p] # None
                             THEN [t1a EXCEPT !.reg[t1.peer[p]] = p]
                           ELSE t1a
         IN [t2 EXCEPT !.st[c] = "closed"]

\* handle_register(session, peer_hex) for a well-formed id
HandleRegister(t, c, i) ==
    IF RegWhileClaimed = "refuse" /\ Alive(t, t.partner[c])
      THEN Reply(t, "err")
      ELSE LET t1 == RemoveRegistration(t, c)
           IN Reply([t1 EXCEPT !.peer[c] = i, !.st[c] = "reg", !.reg[i] = c], "ok")

\* handle_connect(session, self_hex, target_hex); self = the two ids are equal
HandleConnect(t, c, i, self, alt) ==
    IF t.st[c] = "reg" THEN Reply(t, "err")                        \* already-registered
    ELSE IF self THEN Reply(t, "err")                               \* invalid-target
    ELSE IF alt /\ AltSpelling # "erase-raw" THEN Reply(t, "err")   \* the id as typed is not a registry key: target-unavailable
    ELSE LET e == t.reg[i]                                          \* find_registered
             erased == IF alt THEN t.reg[i] ELSE None               \* registered_.erase(text as typed)
         IN
         IF e = None THEN Reply(t, "err")
         ELSE IF ~Alive(t, e) \/ t.st[e] # "reg" THEN Reply([t EXCEPT !.reg[i] = erased], "err")
         ELSE Reply([t EXCEPT !.reg[i] = erased, !.st[c] = "await", !.partner[c] = e, !.partner[e] = c], "ok")

Begin(c) == [k |-> "b", f |-> c]
Tok(c, q, to) == [k |-> "t", f |-> c, q |-> q, to |-> to]

\* handle_identity_ready(session): 32 identity bytes are in read_buffer
HandleIdentityReady(t, c) ==
    LET p == t.partner[c] IN
    IF ~Alive(t, p)
      THEN \* "ERROR target-unavailable", close_session(session) -- and process_protocol never leaves its loop:
           \* the state is still AwaitingIdentity and the 32 bytes are still in the buffer
           [Close(Reply(t, "err"), c) EXCEPT !.hung = TRUE]
      ELSE [Q(t, p, Begin(c)) EXCEPT !.st[c] = "br", !.st[p] = "br",
                                     !.br[c] = p, !.br[p] = IF @ = None THEN c ELSE @]

\* forward_to_partner(session, data)
Forward(t, c, tok) ==
    LET p == t.partner[c] IN
    IF ~Alive(t, p) THEN Close(t, c) ELSE Q(t, p, tok)

\* a complete line from a session in a line state (handle_line); a pending piece of a line glues to it
Line(t, c, kind, i, self, alt) ==
    IF t.junk[c] THEN Reply([t EXCEPT !.junk[c] = FALSE], "err")   \* unknown-command
    ELSE CASE kind = "reg"  -> HandleRegister(t, c, i)
           [] kind = "con"  -> HandleConnect(t, c, i, self, alt)
           [] kind \in {"pong", "empty"} -> t
           [] OTHER -> Reply(t, "err")                              \* unknown-command (incl. a data token)

-----------------------------------------------------------------------------
(* client steps                                                                            *)

Gone(t, k, c) == k[c] \in {"dead", "eof"} \/ t.st[c] = "closed"
Connected(c) == ck[c] \notin {"new", "dead", "eof"} /\ s.st[c] # "closed"

\* a registered client learns of its bridge from BEGIN
Learn(k, t) == [c \in Clients |-> IF k[c] = "reg" /\ \E j \in 1..Len(t.out[c]) : t.out[c][j].k = "b" THEN "begun" ELSE k[c]]

Sessions(t) == Cardinality({c \in Clients : Alive(t, c)})
Registrations(t) == Cardinality({i \in Ids : t.reg[i] # None})

Fresh == [s EXCEPT !.last = "none"]
Rec(a, t) == [a EXCEPT !.res = t.last, !.sc = Sessions(t), !.rc = Registrations(t)]
Act(a) == a @@ [res |-> "none", sc |-> 0, rc |-> 0]

\* end of a step.  State that can no longer influence anything is normalised away (keeps the state space small):
\* fields of destroyed sessions, the knowledge of clients whose connection is gone, and the ghost of a bridge
\* once both ends are gone (all clauses about it were checked in the states before).
Finish(a, t, k, tg, id2, nd2, rg) ==
    LET k1 == Learn(k, t)
        k2 == [c \in Clients |-> IF t.st[c] = "closed" /\ k1[c] # "dead" THEN "eof" ELSE k1[c]]
        goneC == {c \in Clients : t.st[c] = "closed"}
        drop == {c \in goneC : t.br[c] = None \/ t.br[c] \in goneC}
        t2 == [t EXCEPT !.peer = [c \in Clients |-> IF c \in goneC THEN None ELSE @[c]],
                        !.partner = [c \in Clients |-> IF c \in goneC THEN None ELSE @[c]],
                        !.junk = [c \in Clients |-> IF c \in goneC THEN FALSE ELSE @[c]],
                        !.out = [c \in Clients |-> IF c \in drop THEN <<>> ELSE @[c]],
                        !.post = [c \in Clients |-> IF c \in drop THEN <<>> ELSE @[c]],
                        !.br = [c \in Clients |-> IF c \in drop THEN None ELSE @[c]]]
    IN /\ s' = t2
       /\ ck' = k2
       /\ tgt' = [c \in Clients |-> IF c \in goneC THEN None ELSE tg[c]]
       /\ ids' = [c \in Clients |-> IF c \in goneC THEN 0 ELSE id2[c]]
       /\ nd' = [c \in Clients |-> IF c \in goneC THEN 0 ELSE nd2[c]]
       /\ regids' = [c \in Clients |-> IF c \in goneC THEN {} ELSE rg[c]]
       /\ obs' = [op |-> a.op, c |-> a.c, res |-> t.last, a |-> a,
                   cascade |-> \E x \in Clients \ {a.c} : Alive(s, x) /\ ~Alive(t, x)]
       /\ hist' = Append(hist, Rec(Act(a), t))

Open(c) ==
    /\ ck[c] = "new"
    /\ Finish([op |-> "open", c |-> c], [Fresh EXCEPT !.st[c] = "cmd"], [ck EXCEPT ![c] = "idle"], tgt, ids, nd, regids)

Register(c, i) ==
    /\ ck[c] \in {"idle", "reg"} /\ Connected(c)
    /\ LET t == Line(Fresh, c, "reg", i, FALSE, FALSE) IN
       Finish([op |-> "reg", c |-> c, i |-> i, claimed |-> Alive(s, s.partner[c])], t,
              IF t.last = "ok" THEN [ck EXCEPT ![c] = "reg"] ELSE ck, tgt, ids, nd,
              IF t.last = "ok" THEN [regids EXCEPT ![c] = @ \cup {i}] ELSE regids)

\* CONNECT, optionally with the whole identity (pipe = 1) and one data token (pipe = 2) in the same write
Connect(c, i, self, pipe, alt) ==
    /\ ck[c] \in {"idle", "reg"} /\ Connected(c)
    /\ alt => (AltSpelling # "off" /\ ~self)
    /\ pipe = 2 => nd[c] < MaxData
    /\ LET t1 == Line(Fresh, c, "con", i, self, alt)
           ok == t1.last = "ok"
           t2 == IF pipe = 0 THEN t1
                 ELSE IF ok THEN HandleIdentityReady(t1, c)
                 ELSE IF pipe = 1 THEN [t1 EXCEPT !.junk[c] = TRUE]     \* 32 bytes without newline stay in the buffer
                 ELSE [t1 EXCEPT !.junk[c] = FALSE]                     \* identity + token + newline: one more unknown line
           tok == Tok(c, nd[c] + 1, t2.br[c])
           t3 == IF pipe = 2 /\ ok /\ Alive(t2, c) THEN Forward(t2, c, tok) ELSE t2     \* surplus after the identity
           t4 == IF pipe = 2 /\ tok.to # None THEN [t3 EXCEPT !.post[c] = Append(@, tok)] ELSE t3
       IN Finish([op |-> "con", c |-> c, i |-> i, self |-> self, pipe |-> pipe, alt |-> alt], t4,
                 IF ok THEN [ck EXCEPT ![c] = "con"] ELSE ck,
                 IF ok THEN [tgt EXCEPT ![c] = i] ELSE tgt,
                 IF ok /\ pipe > 0 THEN [ids EXCEPT ![c] = 3] ELSE ids,
                 IF pipe = 2 THEN [nd EXCEPT ![c] = @ + 1] ELSE nd, regids)

\* n more thirds of the identity (read_buffer of an AwaitingIdentity session holds exactly the thirds sent so
\* far), optionally followed by a data token in the same write
Identity(c, n, plus) ==
    /\ ck[c] = "con" /\ Connected(c)
    /\ ids[c] + n <= 3
    /\ plus => (ids[c] + n = 3 /\ nd[c] < MaxData)
    /\ LET t1 == IF ids[c] + n = 3 /\ s.st[c] = "await" THEN HandleIdentityReady(Fresh, c) ELSE Fresh
           tok == Tok(c, nd[c] + 1, t1.br[c])
           t2 == IF plus /\ Alive(t1, c) THEN Forward(t1, c, tok) ELSE t1
           t3 == IF plus /\ tok.to # None THEN [t2 EXCEPT !.post[c] = Append(@, tok)] ELSE t2
       IN Finish([op |-> "id", c |-> c, n |-> n, plus |-> plus], t3, ck, tgt,
                 [ids EXCEPT ![c] = @ + n], IF plus THEN [nd EXCEPT ![c] = @ + 1] ELSE nd, regids)

Data(c) ==
    /\ Connected(c) /\ nd[c] < MaxData
    /\ ck[c] \in {"idle", "reg", "begun"} \/ (ck[c] = "con" /\ ids[c] = 3)
    /\ LET tok == Tok(c, nd[c] + 1, s.br[c])
           t1 == IF s.st[c] = "br" THEN Forward(Fresh, c, tok) ELSE Line(Fresh, c, "tok", None, FALSE, FALSE)
           t2 == IF tok.to # None THEN [t1 EXCEPT !.post[c] = Append(@, tok)] ELSE t1
       IN Finish([op |-> "data", c |-> c, to |-> tok.to], t2, ck, tgt, ids, [nd EXCEPT ![c] = @ + 1], regids)

Misc(c, kind) ==
    /\ ck[c] \in {"idle", "reg"} /\ Connected(c)
    /\ Finish([op |-> "misc", c |-> c, kind |-> kind], Line(Fresh, c, kind, None, FALSE, FALSE), ck, tgt, ids, nd, regids)

\* the client closes its socket (or half-closes: the server treats recv() = 0 the same way)
Disconnect(c) ==
    /\ ck[c] \notin {"new", "dead"}
    /\ Finish([op |-> "close", c |-> c, mid |-> (s.st[c] = "await" /\ ids[c] > 0), bridged |-> (s.st[c] = "br"),
               waseof |-> (ck[c] = "eof")],
              Close(Fresh, c), [ck EXCEPT ![c] = "dead"], tgt, ids, nd, regids)

-----------------------------------------------------------------------------
Init == /\ s = InitS /\ ck = [c \in Clients |-> "new"] /\ tgt = [c \in Clients |-> None]
        /\ ids = [c \in Clients |-> 0] /\ nd = [c \in Clients |-> 0] /\ regids = [c \in Clients |-> {}]
        /\ obs = [op |-> "init", c |-> None, res |-> "none", a |-> [op |-> "init"], cascade |-> FALSE] /\ hist = <<>>
        /\ \A i \in 1..NScn : TLCSet(i, FALSE)      \* registers of the vacuity run (ReachAll)

Next == /\ ~s.hung
        /\ \E c \in Clients :
              \/ Open(c)
              \/ \E i \in Ids : Register(c, i)
              \/ \E i \in Ids, self \in BOOLEAN, pipe \in 0..2, alt \in BOOLEAN : Connect(c, i, self, pipe, alt)
              \/ \E n \in 1..3, plus \in BOOLEAN : Identity(c, n, plus)
              \/ Data(c)
              \/ \E kind \in MiscKinds : Misc(c, kind)
              \/ Disconnect(c)

vars == <<s, ck, tgt, ids, nd, regids, obs, hist>>
MCSpec == Init /\ [][Next]_vars
\* hist is hidden; so are the reply of the last step and obs (steps that change nothing else are self-loops: the
\* transition cover built by checks/relay.py appends them to the state-cover paths).  ViewObs keeps obs (vacuity runs).
View == <<[s EXCEPT !.last = "none"], ck, tgt, ids, nd, regids>>
ViewObs == <<s, ck, tgt, ids, nd, regids, obs>>
Bound == MaxHist = 0 \/ Len(hist) <= MaxHist

-----------------------------------------------------------------------------
(* CONTRACT (C25 / C26) over the ghost                                                     *)

Toks(c) == SelectSeq(s.out[c], LAMBDA x : x.k = "t")
GoneF == [c \in Clients |-> Gone(s, ck, c)]

\* bytes sent after the sender's bridge was established reach only its bridge partner
C25_OnlyPartner == \A r \in Clients : \A j \in 1..Len(Toks(r)) : DeliveredOk(Toks(r)[j], r)
\* no client receives relayed bytes before its own bridge exists
C25_NoRelayBeforeBridge == \A r \in Clients : Toks(r) # <<>> => ReceiverBridged(s.br, r)
\* in order, and without loss while both stay connected
FromTo(a, b) == SelectSeq(Toks(b), LAMBDA x : x.f = a /\ x.to = b)
C25_InOrderNoLoss ==
    \A a \in Clients : LET b == s.br[a] IN b # None =>
        /\ InOrder(FromTo(a, b), SelectSeq(s.post[a], LAMBDA x : x.to = b))
        /\ (~GoneF[a] /\ ~GoneF[b] /\ s.br[b] = a) => NoLoss(FromTo(a, b), SelectSeq(s.post[a], LAMBDA x : x.to = b))
\* a registered peer is claimed by at most one connector at a time
Claims == {c \in Clients : ck[c] = "con" /\ ~GoneF[c]}
Cand == [c \in Clients |-> {t \in Clients : ~GoneF[t] /\ tgt[c] \in regids[t]}]
C25_SingleClaim == ClaimsOk(Claims, Cand)
\* pairings are symmetric
C25_Symmetric == Symmetric(s.br, Clients)
\* when one side of an established bridge disconnects the other side is disconnected
C25_PartnerDisconnected == PartnerDown(s.br, GoneF, Clients)
\* once every client has disconnected nothing is left (a session owns exactly one descriptor in this design)
C26_Released == Released(\A c \in Clients : ck[c] \in {"new", "dead"}, Sessions(s), Registrations(s), Sessions(s))
\* the server keeps running
C26_NeverHangs == ~s.hung

\* design-level sanity (not contract): a registered_ entry always names a session registered under that id
D_RegistryConsistent == \A i \in Ids : Alive(s, s.reg[i]) => s.peer[s.reg[i]] = i

-----------------------------------------------------------------------------
(* vacuity guards.  Each scenario must be reachable; they are state predicates over the view ViewObs (the last   *)
(* step is part of it), so TLC's search over views is complete for them.  MC_Relay_reach.cfg checks the           *)
(* "invariant" ReachAll, which never fails but prints REACHED <name> the first time a worker meets a scenario;    *)
(* checks/relay.py requires every name.  MC_Relay_reach_<name>.cfg check a single ~scenario as an invariant       *)
(* that must be violated (used to get a witness trace).                                                            *)
Scn_ReRegisterWhileClaimed == obs.op = "reg" /\ obs.a.claimed
Scn_ReRegisterRefused      == obs.op = "reg" /\ obs.a.claimed /\ obs.res = "err"
Scn_BridgeDataBothWays     == \E a \in Clients : s.br[a] # None /\ s.br[s.br[a]] = a /\ Toks(a) # <<>> /\ Toks(s.br[a]) # <<>>
Scn_FragmentedIdentity     == obs.op = "id" /\ obs.a.n = 1 /\ ids[obs.c] = 3 /\ s.st[obs.c] = "br"
Scn_SurplusDelivered       == obs.op = "con" /\ obs.a.pipe = 2 /\ obs.res = "ok" /\ s.br[obs.c] # None /\ Toks(s.br[obs.c]) # <<>>
Scn_DisconnectMidIdentity  == obs.op = "close" /\ obs.a.mid
Scn_TargetLeavesWhileClaimed == obs.op = "close" /\ obs.cascade /\ ~obs.a.bridged /\ ~obs.a.mid
Scn_DuplicateIds           == \E a, b \in Clients : a # b /\ s.st[a] = "reg" /\ s.st[b] = "reg" /\ s.peer[a] = s.peer[b]
Scn_SelfConnect            == obs.op = "con" /\ obs.a.self /\ obs.res = "err"
Scn_DataBeforeBegin        == obs.op = "data" /\ obs.res = "err" /\ ck[obs.c] = "reg" /\ Alive(s, s.partner[obs.c])
Scn_BridgedSideLeaves      == obs.op = "close" /\ obs.a.bridged /\ obs.cascade
Scn_AllGoneAfterBridge     == obs.op = "close" /\ obs.a.waseof /\ \A c \in Clients : ck[c] \in {"new", "dead"}
Scn_ConnectorLeavesTargetBack == obs.op = "close" /\ ~obs.cascade /\ \E t \in Clients : s.st[t] = "reg" /\ s.reg[s.peer[t]] = t /\ t # obs.c
                                 /\ hist # <<>> /\ hist[Len(hist)].rc > (IF Len(hist) > 1 THEN hist[Len(hist) - 1].rc ELSE 0)
Scn_Hang                   == s.hung

Scenarios == <<"ReRegisterWhileClaimed", "ReRegisterRefused", "BridgeDataBothWays", "FragmentedIdentity", "SurplusDelivered",
               "DisconnectMidIdentity", "TargetLeavesWhileClaimed", "DuplicateIds", "SelfConnect", "DataBeforeBegin",
               "BridgedSideLeaves", "AllGoneAfterBridge", "ConnectorLeavesTargetBack">>
Holds(i) == CASE i = 1 -> Scn_ReRegisterWhileClaimed [] i = 2 -> Scn_ReRegisterRefused [] i = 3 -> Scn_BridgeDataBothWays
              [] i = 4 -> Scn_FragmentedIdentity [] i = 5 -> Scn_SurplusDelivered [] i = 6 -> Scn_DisconnectMidIdentity
              [] i = 7 -> Scn_TargetLeavesWhileClaimed [] i = 8 -> Scn_DuplicateIds [] i = 9 -> Scn_SelfConnect
              [] i = 10 -> Scn_DataBeforeBegin [] i = 11 -> Scn_BridgedSideLeaves [] i = 12 -> Scn_AllGoneAfterBridge
              [] i = 13 -> Scn_ConnectorLeavesTargetBack
ReachAll == \A i \in 1..NScn : Holds(i) => (TLCGet(i) \/ (TLCSet(i, TRUE) /\ PrintT(<<"REACHED", Scenarios[i]>>)))

Reach_ReRegisterWhileClaimed == ~Scn_ReRegisterWhileClaimed
Reach_BridgeDataBothWays == ~Scn_BridgeDataBothWays
Reach_SurplusDelivered == ~Scn_SurplusDelivered
Reach_Hang == ~Scn_Hang
=============================================================================
