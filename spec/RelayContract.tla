--------------------------- MODULE RelayContract ---------------------------
(* What C25 and C26 fix about the relay, as pure operators over ghost state that is       *)
(* defined from what CLIENTS can see (what they sent, what they received, EOF) plus, for  *)
(* C26, the server's table sizes and descriptor count.  Used as invariants by the design  *)
(* model (Relay.tla) and as clause tests by the trace specification (RelayTrace.tla).     *)
(*                                                                                         *)
(* Ghost vocabulary                                                                        *)
(*   br[c]      0, or the client c's bridge was established with.  A connector's bridge is *)
(*              established when the relay has its complete identity after an accepted    *)
(*              CONNECT; the registered peer's bridge is established by the same step (it *)
(*              is told with BEGIN).  br[c] is never cleared.                              *)
(*   token      [f, q, to]: the q-th data token of client f; to = br[f] at the moment it  *)
(*              was sent (0: sent before f's bridge existed -- the property is silent     *)
(*              about where such bytes go, except that a bridge-less client gets nothing) *)
(*   gone[c]    c closed its connection or saw the relay close it                         *)
(* Where the statement is silent (reply texts, what a REGISTER of a claimed peer answers,  *)
(* which of two peers registered under one id is claimed) nothing is demanded.             *)
EXTENDS Integers, Sequences, FiniteSets

\* [C25] bytes sent after the sender's bridge was established reach only the bridge partner
DeliveredOk(tok, r) == tok.to = 0 \/ tok.to = r

\* [C25] no client receives relayed bytes before its own bridge exists
ReceiverBridged(br, r) == br[r] # 0

\* [C25] in order and without duplication: what r got from its partner is a prefix of what was sent ...
InOrder(got, sent) == Len(got) <= Len(sent) /\ \A i \in 1..Len(got) : got[i] = sent[i]
\* ... and without loss while both stay connected (checked at quiescent points)
NoLoss(got, sent) == got = sent

\* [C25] pairings are symmetric
Symmetric(br, S) == \A a \in S : br[a] # 0 => br[br[a]] = a

\* [C25] a registered peer is claimed by at most one connector at a time.  claims = the connectors
\* holding an accepted, still outstanding CONNECT; cand[x] = the connected clients that registered
\* the id x asked for.  Every outstanding claim needs a registered peer of its own (Hall's condition).
ClaimsOk(claims, cand) ==
    \A S \in SUBSET claims : Cardinality(UNION {cand[x] : x \in S}) >= Cardinality(S)

\* [C25] when one side of an established bridge disconnects the other side is disconnected
PartnerDown(br, gone, S) == \A a \in S : (br[a] # 0 /\ gone[a]) => gone[br[a]]

\* [C26] once every client has disconnected the relay holds no sessions, registrations, descriptors
Released(allGone, sessions, registrations, fds) ==
    allGone => (sessions = 0 /\ registrations = 0 /\ fds = 0)
=============================================================================
