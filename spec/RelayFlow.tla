----------------------------- MODULE RelayFlow -----------------------------
(* Flow of relayed bytes over ONE direction of an established relay bridge (C25: "in order *)
(* and without loss while both stay connected"), at the grain of the pipeline the bytes     *)
(* travel through:                                                                          *)
(*                                                                                          *)
(*   sender --write--> sockIn (kernel, <= KS units) --handle_read/recv--> wbuf (the relay's *)
(*   write_buffer of the partner session) --handle_write/send--> kOut (kernel, <= KR units) *)
(*   --read--> receiver (which may stop reading for a while: a slow receiver)               *)
(*                                                                                          *)
(* src/relay/RelayServer.cpp as coded buffers without bound (Mode = "unbounded").  The      *)
(* other modes are designs a maintainer might introduce to bound the relay's memory:        *)
(*   "hold"          back-pressure: at the cap the relay stops reading the sender and       *)
(*                   resumes when the backlog has drained (keeps every unit)                *)
(*   "hold-noresume" forgets to resume (safety holds, progress does not)                    *)
(*   "drop"          stops reading at the cap but has already taken the unit in hand out of *)
(*                   the socket and does not queue it (the seeded change C25b)              *)
(* Conservation is the law behind the property: what the sender wrote is, at every instant, *)
(* exactly what the receiver got followed by what sits in the three queues.                 *)
(* The slow-receiver behaviours of checks/relay.py (stall / unstall of a client with        *)
(* megabytes in flight) exercise this pipeline on the real server; RelayTrace.tla judges    *)
(* them (loss is judged once the receiver reads again).                                     *)
EXTENDS Integers, Sequences, TLC
CONSTANTS N,      \* units the sender writes (1..N, in order)
          KS, KR, \* capacities of the two kernel queues
          Cap,    \* relay-side cap on wbuf (ignored in mode "unbounded")
          Mode,
          LogOn   \* BOOLEAN: keep the action history (state-cover export); FALSE in the liveness runs
VARIABLES next,   \* next unit the sender will write
          sockIn, wbuf, kOut, got,
          reading,  \* the receiver is reading its socket
          paused,   \* the relay has dropped its read interest in the sender
          hist
vars == <<next, sockIn, wbuf, kOut, got, reading, paused, hist>>

Init == next = 1 /\ sockIn = <<>> /\ wbuf = <<>> /\ kOut = <<>> /\ got = <<>> /\ reading = TRUE /\ paused = FALSE /\ hist = <<>>

Log(a) == hist' = IF LogOn THEN Append(hist, a) ELSE hist

\* the sender writes one unit (blocks while its socket is full)
Send == /\ next <= N /\ Len(sockIn) < KS
        /\ sockIn' = Append(sockIn, next) /\ next' = next + 1
        /\ UNCHANGED <<wbuf, kOut, got, reading, paused>> /\ Log([op |-> "send"])

\* handle_write(partner): the relay moves queued units into the kernel queue towards the receiver while there is room
RECURSIVE Flush(_, _)
Flush(w, k) == IF w = <<>> \/ Len(k) >= KR THEN <<w, k>> ELSE Flush(Tail(w), Append(k, Head(w)))

\* handle_read(sender) for one unit, followed by an attempt to write
RelayRead ==
    /\ ~paused /\ sockIn # <<>>
    /\ LET u == Head(sockIn)
           atCap == Mode # "unbounded" /\ Len(wbuf) >= Cap
           f0 == Flush(wbuf, kOut)                       \* at the cap the relay first tries to flush
           still == atCap /\ Len(f0[1]) >= Cap
       IN IF ~atCap
            THEN LET f == Flush(Append(wbuf, u), kOut) IN sockIn' = Tail(sockIn) /\ wbuf' = f[1] /\ kOut' = f[2] /\ paused' = FALSE
          ELSE IF ~still
            THEN LET f == Flush(Append(f0[1], u), f0[2]) IN sockIn' = Tail(sockIn) /\ wbuf' = f[1] /\ kOut' = f[2] /\ paused' = FALSE
          ELSE IF Mode = "drop"
            THEN sockIn' = Tail(sockIn) /\ wbuf' = f0[1] /\ kOut' = f0[2] /\ paused' = TRUE       \* the unit in hand is gone
          ELSE sockIn' = sockIn /\ wbuf' = f0[1] /\ kOut' = f0[2] /\ paused' = TRUE              \* leaves it in the socket
    /\ UNCHANGED <<next, got, reading>> /\ Log([op |-> "relay"])

\* the receiver's socket became writable: flush, and (designs with a cap) resume the sender once drained to half the cap
RelayWritable ==
    /\ wbuf # <<>> /\ Len(kOut) < KR
    /\ LET f == Flush(wbuf, kOut) IN
       /\ wbuf' = f[1] /\ kOut' = f[2]
       /\ paused' = IF Mode = "hold-noresume" THEN paused ELSE (paused /\ 2 * Len(f[1]) > Cap)
    /\ UNCHANGED <<next, sockIn, got, reading>> /\ Log([op |-> "writable"])

Recv == /\ reading /\ kOut # <<>>
        /\ got' = Append(got, Head(kOut)) /\ kOut' = Tail(kOut)
        /\ UNCHANGED <<next, sockIn, wbuf, reading, paused>> /\ Log([op |-> "recv"])

Stall   == reading /\ reading' = FALSE /\ UNCHANGED <<next, sockIn, wbuf, kOut, got, paused>> /\ Log([op |-> "stall"])
Unstall == ~reading /\ reading' = TRUE /\ UNCHANGED <<next, sockIn, wbuf, kOut, got, paused>> /\ Log([op |-> "unstall"])

Next == Send \/ RelayRead \/ RelayWritable \/ Recv \/ Stall \/ Unstall
Spec == Init /\ [][Next]_vars
\* progress: everything moves when it can; the receiver may stall again and again but reads whenever it is not stalled
\* (strong fairness of Recv: it is enabled in every unstalled period in which something waits for it)
FairSpec == Spec /\ WF_vars(Send) /\ WF_vars(RelayRead) /\ WF_vars(RelayWritable) /\ SF_vars(Recv) /\ WF_vars(Unstall)
View == <<next, sockIn, wbuf, kOut, got, reading, paused>>

Sent == [i \in 1..(next - 1) |-> i]
\* [C25] nothing is lost, duplicated or reordered anywhere in the pipeline
C25_Conservation == got \o kOut \o wbuf \o sockIn = Sent
\* [C25] what the receiver has is a prefix of what was sent
C25_InOrder == \A i \in 1..Len(got) : got[i] = i
\* the relay's memory stays bounded (the reason a cap would be introduced; not part of C25)
D_Bounded == Mode = "unbounded" \/ Len(wbuf) <= Cap
\* [C25, progress reading] while both stay connected and the receiver reads again, everything sent arrives
C25_Live_AllDelivered == <>(Len(got) = N)
Reach_Paused == ~paused
Reach_StalledBacklog == ~(~reading /\ Len(wbuf) >= 2)
=============================================================================
