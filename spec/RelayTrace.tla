----------------------------- MODULE RelayTrace -----------------------------
(* Trace specification: validates an ndjson trace recorded by harness/relay.cpp from the  *)
(* REAL RelayServer against the C25 / C26 contract (RelayContract.tla).                    *)
(*                                                                                         *)
(* One event per client step, taken when the server is idle again.  The ghost is built    *)
(* only from what clients can see: what each one sent (structured parts with byte         *)
(* counts), the replies "OK" to its own REGISTER / CONNECT, "BEGIN <id>" notices, data    *)
(* tokens (self-identifying byte strings: sender, sequence number), identity blocks,      *)
(* byte totals, EOF.  C26 additionally reads the server's session / registration table    *)
(* sizes and the number of descriptors it holds.                                           *)
(*                                                                                         *)
(* Generators (checks/relay.py) put at most one REGISTER / CONNECT command in a step, so  *)
(* an "OK" among the replies of that step means this command was accepted.                 *)
EXTENDS TraceKit, RelayContract, SequencesExt

Cl == 1..8     \* client numbers (generators use at most 8 clients per behaviour)
Zero == [c \in Cl |-> 0]
NoneSet == [c \in Cl |-> {}]
Empty == [c \in Cl |-> <<>>]
No == [c \in Cl |-> FALSE]

VARIABLES l, viol, poisoned, g, stats
vars == <<l, viol, poisoned, g, stats>>

G0 == [cgone  |-> No,        \* the client closed (or half-closed) its socket
       eof    |-> No,        \* the client has seen the relay close the connection
       regids |-> NoneSet,   \* ids accepted by REGISTER
       claim  |-> Zero,      \* target id of the accepted CONNECT (0: none)
       cself  |-> Zero,      \* self id given in that CONNECT
       idb    |-> Zero,      \* bytes sent after the accepted CONNECT line
       idone  |-> No,        \* the 32 identity bytes are complete
       br     |-> Zero,      \* established bridge partner
       pre    |-> NoneSet,   \* sequence numbers of tokens sent before the sender's bridge existed
       post   |-> Empty,     \* sequence numbers of tokens sent after it, in order
       gotn   |-> Zero,      \* how many of the partner's post tokens have arrived (in order)
       rout   |-> Zero,      \* bytes the client has sent that its bridge partner must receive
       base   |-> Zero,      \* the client's received-byte total at the point its relayed stream starts
       rxn    |-> Zero,      \* received-byte totals at the previous event
       stall  |-> No,        \* the client is not reading its socket for the moment (a slow receiver)
       pdrep  |-> No,        \* partner-not-disconnected already reported for this client
       lrep   |-> No]        \* loss already reported for what this client sends

S0 == [checked |-> 0, bridges |-> 0, tokens |-> 0, finals |-> 0, behaviours |-> 0]

Init == l = 1 /\ viol = <<>> /\ poisoned = FALSE /\ g = G0 /\ stats = S0

-----------------------------------------------------------------------------
Rxd(e) == IF Has(e, "rxd") THEN Arr(e.rxd) ELSE <<>>
DeltaOf(e, x) == LET m == {j \in DOMAIN Rxd(e) : Rxd(e)[j].c = x}
                 IN IF m = {} THEN <<>> ELSE Arr(Rxd(e)[CHOOSE j \in m : TRUE].items)
EofSet(e) == IF Has(e, "eof") THEN ArrSet(Arr(e.eof)) ELSE {}
Parts(e) == IF Has(e, "parts") THEN Arr(e.parts) ELSE <<>>
Rxn(e, x) == IF Has(e, "rxn") /\ x \in DOMAIN Arr(e.rxn) THEN Arr(e.rxn)[x] ELSE g.rxn[x]
HasKind(items, k) == \E j \in DOMAIN items : items[j].k = k
RangeOf(f) == {f[j] : j \in DOMAIN f}

\* walk over the parts of a send step of client c.  ok: the single command of the step was accepted;
\* tb: c is a registered peer whose bridge already exists
Bytes(acc, p, tb) ==
    IF tb THEN [acc EXCEPT !.rout = @ + p.n, !.post = IF p.k = "tok" THEN Append(@, p.q) ELSE @]
    ELSE IF acc.claim # 0
      THEN [acc EXCEPT !.idb = @ + p.n, !.rout = @ + p.n,
                       !.post = IF p.k = "tok" /\ acc.idb >= 32 THEN Append(@, p.q) ELSE @,
                       !.pre  = IF p.k = "tok" /\ acc.idb < 32 THEN @ \cup {p.q} ELSE @]
    ELSE [acc EXCEPT !.pre = IF p.k = "tok" THEN @ \cup {p.q} ELSE @]
W(acc, p, ok, tb) ==
    IF p.k = "reg" /\ ok THEN [acc EXCEPT !.regids = @ \cup {p.i}]
    ELSE IF p.k = "con" /\ ok THEN [acc EXCEPT !.claim = p.t, !.cself = p.s, !.idb = 0, !.rout = 0]
    ELSE Bytes(acc, p, tb)

\* the whole evaluation of one observed step: new ghost + set of failing clauses
Eval(e) ==
    LET c   == IF Has(e, "c") THEN e.c ELSE 0
        D   == [x \in Cl |-> DeltaOf(e, x)]          \* what every client newly received
        X   == {x \in Cl : D[x] # <<>>}
        isSend == e.op = "send" /\ c \in Cl
        goneB == [x \in Cl |-> g.cgone[x] \/ g.eof[x]]
        ncmd == Cardinality({j \in DOMAIN Parts(e) : Parts(e)[j].k \in {"reg", "con"}})
        ok  == isSend /\ ncmd = 1 /\ g.br[c] = 0 /\ g.claim[c] = 0 /\ HasKind(D[c], "ok")
        tb  == isSend /\ g.br[c] # 0 /\ g.claim[c] = 0
        a0  == IF isSend THEN [claim |-> g.claim[c], cself |-> g.cself[c], idb |-> g.idb[c], pre |-> g.pre[c],
                               post |-> g.post[c], rout |-> g.rout[c], regids |-> g.regids[c]]
               ELSE [claim |-> 0, cself |-> 0, idb |-> 0, pre |-> {}, post |-> <<>>, rout |-> 0, regids |-> {}]
        a2  == IF isSend THEN FoldLeft(LAMBDA acc, p : W(acc, p, ok, tb), a0, Parts(e)) ELSE a0
        \* does c's identity become complete in this step?
        bridging == isSend /\ ~goneB[c] /\ a2.claim # 0 /\ ~g.idone[c] /\ a2.idb >= 32
        BR  == {x \in Cl \ {c} : g.br[x] = 0 /\ HasKind(D[x], "begin")}
        p   == IF BR = {} THEN 0 ELSE CHOOSE x \in BR : \A y \in BR : x <= y
        pItems == IF p = 0 THEN <<>> ELSE D[p]
        bIdx == IF p = 0 THEN 0 ELSE CHOOSE j \in DOMAIN pItems : pItems[j].k = "begin" /\ \A j2 \in DOMAIN pItems : pItems[j2].k = "begin" => j <= j2
        cFail == isSend /\ (HasKind(D[c], "err") \/ c \in EofSet(e))
        paired == bridging /\ p # 0
        br2 == IF paired THEN [g.br EXCEPT ![c] = p, ![p] = c] ELSE g.br
        pre2 == IF isSend THEN [g.pre EXCEPT ![c] = a2.pre] ELSE g.pre
        post2 == IF isSend THEN [g.post EXCEPT ![c] = a2.post] ELSE g.post
        rout2 == IF isSend THEN [g.rout EXCEPT ![c] = a2.rout] ELSE g.rout
        SumTo(items, k) == FoldLeft(LAMBDA acc, j : acc + items[j].n, 0, [j \in 1..k |-> j])
        base2 == IF paired THEN [g.base EXCEPT ![c] = Rxn(e, c), ![p] = g.rxn[p] + SumTo(pItems, bIdx)] ELSE g.base
        cgone2 == IF e.op \in {"close", "shutwr"} /\ c \in Cl THEN [g.cgone EXCEPT ![c] = TRUE]
                  ELSE IF e.op = "final" THEN [x \in Cl |-> TRUE] ELSE g.cgone
        eof2 == [x \in Cl |-> g.eof[x] \/ x \in EofSet(e)]
        gone2 == [x \in Cl |-> cgone2[x] \/ eof2[x]]
        \* ---- deliveries ----
        TokTo(f, q) == IF f \in Cl /\ q \in RangeOf(post2[f]) THEN br2[f] ELSE 0
        Known(f, q) == f \in Cl /\ (q \in RangeOf(post2[f]) \/ q \in pre2[f])
        Bad(x) ==
            LET items == D[x]
                toks == {j \in DOMAIN items : items[j].k = "t"}
                idsI == {j \in DOMAIN items : items[j].k = "id"}
                early(j) == br2[x] = 0 \/ (paired /\ x = p /\ j < bIdx)
                mine == SelectSeq(items, LAMBDA it : it.k = "t" /\ br2[x] # 0 /\ it.f = br2[x] /\ TokTo(it.f, it.q) = x)
                want == IF br2[x] = 0 THEN <<>> ELSE SubSeq(post2[br2[x]], g.gotn[x] + 1, g.gotn[x] + Len(mine))
            IN (IF \E j \in toks : TokTo(items[j].f, items[j].q) \notin {0, x} THEN {"C25.delivered-to-non-partner"} ELSE {})
               \cup (IF \E j \in toks \cup idsI : early(j) THEN {"C25.received-before-bridge"} ELSE {})
               \cup (IF (\E j \in toks : ~Known(items[j].f, items[j].q))
                        \/ (br2[x] # 0 /\ (g.gotn[x] + Len(mine) > Len(post2[br2[x]]) \/ [j \in DOMAIN mine |-> mine[j].q] # want))
                     THEN {"C25.loss-or-reorder"} ELSE {})
        gotn2 == [x \in Cl |-> IF x \notin X \/ br2[x] = 0 THEN g.gotn[x]
                                ELSE g.gotn[x] + Len(SelectSeq(D[x], LAMBDA it : it.k = "t" /\ it.f = br2[x] /\ TokTo(it.f, it.q) = x))]
        ntok == FoldLeft(LAMBDA acc, x : acc + Len(SelectSeq(D[x], LAMBDA it : it.k = "t")), 0, SetToSeq(X))
        \* ---- clauses ----
        pairBad ==
            (IF bridging /\ BR = {} /\ ~cFail THEN {"C25.asymmetric-pairing"} ELSE {})
            \cup (IF Cardinality(BR) > 1 \/ (~bridging /\ BR # {}) THEN {"C25.asymmetric-pairing"} ELSE {})
            \cup (IF paired /\ (pItems[bIdx].s # a2.cself \/ a2.claim \notin g.regids[p] \/ goneB[p]) THEN {"C25.asymmetric-pairing"} ELSE {})
        claim2 == IF isSend THEN [g.claim EXCEPT ![c] = a2.claim] ELSE g.claim
        regids2 == IF isSend THEN [g.regids EXCEPT ![c] = a2.regids] ELSE g.regids
        cand == [x \in Cl |-> {t \in Cl : ~gone2[t] /\ claim2[x] # 0 /\ claim2[x] \in regids2[t]}]
        claims == {x \in Cl : claim2[x] # 0 /\ ~gone2[x] /\ cand[x] # {}}
        claimBad == IF isSend /\ ok /\ a2.claim # 0 /\ ~ClaimsOk(claims, cand) THEN {"C25.double-claim"} ELSE {}
        stall2 == IF e.op = "stall" /\ c \in Cl THEN [g.stall EXCEPT ![c] = TRUE]
                  ELSE IF e.op = "unstall" /\ c \in Cl THEN [g.stall EXCEPT ![c] = FALSE]
                  ELSE IF Has(e, "unstalled") /\ e.unstalled = 1 THEN No ELSE g.stall
        \* (what a stalled receiver has not read yet is not lost: it is judged once it reads again)
        lost == {a \in Cl : LET b == br2[a] IN b # 0 /\ br2[b] = a /\ ~gone2[a] /\ ~gone2[b] /\ ~g.lrep[a] /\ ~stall2[b]
                                       /\ (gotn2[b] # Len(post2[a]) \/ Rxn(e, b) - base2[b] # rout2[a])}
        lossBad == IF lost # {} THEN {"C25.loss-or-reorder"} ELSE {}
        pd == {a \in Cl : br2[a] # 0 /\ gone2[a] /\ ~gone2[br2[a]] /\ ~g.pdrep[a]}
        pdBad == IF pd # {} THEN {"C25.partner-not-disconnected"} ELSE {}
        leakBad == IF e.op # "final" THEN {} ELSE
                   (IF e.sc # 0 THEN {"C26.leak/sessions"} ELSE {}) \cup (IF e.rc # 0 THEN {"C26.leak/registrations"} ELSE {})
                   \cup (IF e.fds # 0 THEN {"C26.leak/fds"} ELSE {})
        bad == UNION {Bad(x) : x \in X} \cup pairBad \cup claimBad \cup lossBad \cup pdBad \cup leakBad
        g2 == [cgone |-> cgone2, eof |-> eof2, regids |-> regids2, claim |-> claim2,
               cself |-> IF isSend THEN [g.cself EXCEPT ![c] = a2.cself] ELSE g.cself,
               idb |-> IF isSend THEN [g.idb EXCEPT ![c] = a2.idb] ELSE g.idb,
               idone |-> IF bridging THEN [g.idone EXCEPT ![c] = TRUE] ELSE g.idone,
               br |-> br2, pre |-> pre2, post |-> post2, gotn |-> gotn2, rout |-> rout2, base |-> base2,
               rxn |-> [x \in Cl |-> Rxn(e, x)], stall |-> stall2,
               pdrep |-> [x \in Cl |-> g.pdrep[x] \/ x \in pd],
               lrep |-> [x \in Cl |-> g.lrep[x] \/ x \in lost]]
    IN [g |-> g2, bad |-> bad, bridged |-> paired, ntok |-> ntok]

Step(e) ==
  CASE e.op = "reset" ->
        /\ g' = G0 /\ poisoned' = FALSE /\ stats' = [stats EXCEPT !.behaviours = @ + 1] /\ UNCHANGED viol
    [] e.op = "crash" ->
        \* the server stopped running (uncaught exception, endless loop, abort, sanitizer report)
        /\ viol' = IF poisoned THEN viol
                   ELSE Append(viol, Fail(l, {IF e.kind = "sanitizer" THEN "C26.sanitizer/" \o e.san ELSE "C26.crash"}, e))
        /\ poisoned' = TRUE /\ UNCHANGED <<g, stats>>
    [] poisoned -> UNCHANGED <<viol, poisoned, g, stats>>
    [] e.op \in {"open", "send", "close", "shutwr", "final", "stall", "unstall"} ->
        LET r == Eval(e) IN
        /\ g' = r.g
        /\ viol' = IF r.bad = {} THEN viol ELSE Append(viol, Fail(l, r.bad, [op |-> e.op, c |-> Fld(e, "c", 0)]))
        /\ stats' = [stats EXCEPT !.checked = @ + 1, !.bridges = @ + (IF r.bridged THEN 1 ELSE 0), !.tokens = @ + r.ntok,
                                  !.finals = @ + (IF e.op = "final" THEN 1 ELSE 0)]
        /\ UNCHANGED poisoned
    [] OTHER -> UNCHANGED <<viol, poisoned, g, stats>>

Next == l <= Len(T) /\ l' = l + 1 /\ Step(T[l])
Spec == Init /\ [][Next]_vars
Done == Report(l, viol, stats)
=============================================================================
