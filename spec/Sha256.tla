------------------------------- MODULE Sha256 -------------------------------
(* Executable reference of SHA-256 (FIPS 180-4 sections 4.1.2, 4.2.2, 5.1.1, 5.2.1, 5.3.3, 6.2) *)
(* on 16-bit limbs (module Word32).  All loops are FoldLeft (eager Java override); no      *)
(* RECURSIVE operator is used (a recursive formulation makes TLC's lazy evaluation blow up).*)
(* Cost in TLC: about 10-25 ms per 64-byte block.                                          *)
(*                                                                                         *)
(* PUBLIC OPERATORS                                                                        *)
(*   SHA256(bytes)          seq of 0..255 (any length < 2^28)  ->  seq of 32 bytes         *)
(*   Sha256Pad(bytes)       the padded message (length multiple of 64)          (5.1.1)    *)
(*   Sha256H0               initial hash value, 8 words                          (5.3.3)    *)
(*   Sha256Compress(hs, blk) one application of the compression function to the 8-word     *)
(*                          state hs and a block of 16 words                     (6.2.2)    *)
(*   Sha256Absorb(hs, padded) fold Sha256Compress over all 64-byte blocks of a byte seq    *)
(*   Sha256Out(hs)          8 words -> 32 bytes big-endian                                  *)
(* (Sha256Absorb lets an extension reuse a midstate, e.g. HMAC pads or PoW prefixes.)      *)
EXTENDS Word32

LOCAL Ch(x, y, z) == Xor32(And32(x, y), And32(Not32(x), z))
LOCAL Maj(x, y, z) == Xor32(Xor32(And32(x, y), And32(x, z)), And32(y, z))
LOCAL BSig0(x) == Xor32(Xor32(RotR32(x, 2), RotR32(x, 13)), RotR32(x, 22))
LOCAL BSig1(x) == Xor32(Xor32(RotR32(x, 6), RotR32(x, 11)), RotR32(x, 25))
LOCAL SSig0(x) == Xor32(Xor32(RotR32(x, 7), RotR32(x, 18)), ShR32(x, 3))
LOCAL SSig1(x) == Xor32(Xor32(RotR32(x, 17), RotR32(x, 19)), ShR32(x, 10))

\* FIPS 180-4 4.2.2: the 64 round constants, as <<hi16, lo16>>
Sha256K == <<
 <<17034,12184>>,<<28983,17553>>,<<46528,64463>>,<<59829,56229>>,<<14678,49755>>,<<23025,4593>>,<<37439,33444>>,<<43804,24277>>,
 <<55303,43672>>,<<4739,23297>>,<<9265,34238>>,<<21772,32195>>,<<29374,23924>>,<<32990,45566>>,<<39900,1703>>,<<49563,61812>>,
 <<58523,27073>>,<<61374,18310>>,<<4033,40390>>,<<9228,41420>>,<<11753,11375>>,<<19060,33962>>,<<23728,43484>>,<<30457,35034>>,
 <<38974,20818>>,<<43057,50797>>,<<45059,10184>>,<<48985,32711>>,<<50912,3059>>,<<54695,37191>>,<<1738,25425>>,<<5161,10599>>,
 <<10167,2693>>,<<11803,8504>>,<<19756,28156>>,<<21304,3347>>,<<25866,29524>>,<<30314,2747>>,<<33218,51502>>,<<37490,11397>>,
 <<41663,59553>>,<<43034,26187>>,<<49739,35696>>,<<51052,20899>>,<<53650,59417>>,<<54937,1572>>,<<62478,13701>>,<<4202,41072>>,
 <<6564,49430>>,<<7735,27656>>,<<10056,30540>>,<<13488,48309>>,<<14620,3251>>,<<20184,43594>>,<<23452,51791>>,<<26670,28659>>,
 <<29839,33518>>,<<30885,25455>>,<<33992,30740>>,<<36039,520>>,<<37054,65530>>,<<42064,27883>>,<<48889,41975>>,<<50801,30962>> >>

\* 5.3.3: 6a09e667 bb67ae85 3c6ef372 a54ff53a 510e527f 9b05688c 1f83d9ab 5be0cd19
Sha256H0 == << <<27145,58983>>, <<47975,44677>>, <<15470,62322>>, <<42319,62778>>,
               <<20750,21119>>, <<39685,26764>>, <<8067,55723>>, <<23520,52505>> >>

\* 6.2.2 step 1: message schedule W_1..W_64 from the 16 words of the block
LOCAL SchedStep(w, i) == Append(w, Add32(Add32(SSig1(w[i - 2]), w[i - 7]), Add32(SSig0(w[i - 15]), w[i - 16])))
LOCAL Sched(blk) == FoldLeft(SchedStep, blk, [j \in 1..48 |-> j + 16])
\* 6.2.2 step 3: one round on the working variables <<a,b,c,d,e,f,g,h>>; wk = <<W_t, K_t>>
LOCAL RoundStep(st, wk) ==
   LET t1 == Add32(Add32(Add32(st[8], BSig1(st[5])), Add32(Ch(st[5], st[6], st[7]), wk[2])), wk[1])
       t2 == Add32(BSig0(st[1]), Maj(st[1], st[2], st[3]))
   IN <<Add32(t1, t2), st[1], st[2], st[3], Add32(st[4], t1), st[5], st[6], st[7]>>

Sha256Compress(hs, blk) ==
   LET w == Sched(blk)
       r == FoldLeft(RoundStep, hs, [i \in 1..64 |-> <<w[i], Sha256K[i]>>])
   IN <<Add32(hs[1], r[1]), Add32(hs[2], r[2]), Add32(hs[3], r[3]), Add32(hs[4], r[4]),
        Add32(hs[5], r[5]), Add32(hs[6], r[6]), Add32(hs[7], r[7]), Add32(hs[8], r[8])>>

\* 5.1.1: append 0x80, then the least k >= 0 zero bytes with n + 1 + k = 56 (mod 64), then the
\* bit length as a 64-bit big-endian integer (n < 2^28, so its upper 4 bytes are zero)
Sha256Pad(bytes) ==
   LET n == Len(bytes)
       zeros == (119 - (n % 64)) % 64
       bitlen == n * 8
   IN bytes \o <<128>> \o [i \in 1..zeros |-> 0] \o <<0, 0, 0, 0>> \o
      << (bitlen \div 16777216) % 256, (bitlen \div 65536) % 256, (bitlen \div 256) % 256, bitlen % 256 >>

\* 5.2.1: block b (1-based) of a padded byte sequence as 16 big-endian words
LOCAL BlockWords(p, b) == <<WordAtBE(p, 16*b - 15), WordAtBE(p, 16*b - 14), WordAtBE(p, 16*b - 13), WordAtBE(p, 16*b - 12),
                            WordAtBE(p, 16*b - 11), WordAtBE(p, 16*b - 10), WordAtBE(p, 16*b - 9), WordAtBE(p, 16*b - 8),
                            WordAtBE(p, 16*b - 7), WordAtBE(p, 16*b - 6), WordAtBE(p, 16*b - 5), WordAtBE(p, 16*b - 4),
                            WordAtBE(p, 16*b - 3), WordAtBE(p, 16*b - 2), WordAtBE(p, 16*b - 1), WordAtBE(p, 16*b)>>

Sha256Absorb(hs, padded) ==
   LET AbsorbBlock(h, b) == Sha256Compress(h, BlockWords(padded, b))
   IN FoldLeft(AbsorbBlock, hs, [b \in 1..(Len(padded) \div 64) |-> b])

Sha256Out(hs) == BytesBE(hs[1]) \o BytesBE(hs[2]) \o BytesBE(hs[3]) \o BytesBE(hs[4]) \o
                 BytesBE(hs[5]) \o BytesBE(hs[6]) \o BytesBE(hs[7]) \o BytesBE(hs[8])

SHA256(bytes) == Sha256Out(Sha256Absorb(Sha256H0, Sha256Pad(bytes)))

---------------------------------------------------------------------------------------
(* Test vectors (evaluated when TLC loads the module).                                     *)
(* FIPS 180-4 / NIST "SHA-256 examples": "abc", the 448-bit two-block message; the empty    *)
(* message (NIST CAVP ShortMsg Len=0).                                                      *)
LOCAL Abc == <<97, 98, 99>>
\* "abcdbcdecdefdefgefghfghighijhijkijkljklmklmnlmnomnopnopq" (56 bytes)
LOCAL TwoBlock == <<97,98,99,100, 98,99,100,101, 99,100,101,102, 100,101,102,103, 101,102,103,104, 102,103,104,105,
                    103,104,105,106, 104,105,106,107, 105,106,107,108, 106,107,108,109, 107,108,109,110,
                    108,109,110,111, 109,110,111,112, 110,111,112,113>>
\* ba7816bf 8f01cfea 414140de 5dae2223 b00361a3 96177a9c b410ff61 f20015ad
ASSUME SHA256(Abc) = <<186,120,22,191, 143,1,207,234, 65,65,64,222, 93,174,34,35,
                       176,3,97,163, 150,23,122,156, 180,16,255,97, 242,0,21,173>>
\* e3b0c442 98fc1c14 9afbf4c8 996fb924 27ae41e4 649b934c a495991b 7852b855
ASSUME SHA256(<<>>) = <<227,176,196,66, 152,252,28,20, 154,251,244,200, 153,111,185,36,
                        39,174,65,228, 100,155,147,76, 164,149,153,27, 120,82,184,85>>
\* 248d6a61 d20638b8 e5c02693 0c3e6039 a33ce459 64ff2167 f6ecedd4 19db06c1
ASSUME SHA256(TwoBlock) = <<36,141,106,97, 210,6,56,184, 229,192,38,147, 12,62,96,57,
                            163,60,228,89, 100,255,33,103, 246,236,237,212, 25,219,6,193>>
\* padding shape
ASSUME /\ Len(Sha256Pad(<<>>)) = 64 /\ Len(Sha256Pad([i \in 1..55 |-> 0])) = 64 /\ Len(Sha256Pad([i \in 1..56 |-> 0])) = 128
       /\ Len(Sha256Pad([i \in 1..64 |-> 0])) = 128 /\ Len(Sha256Pad([i \in 1..119 |-> 0])) = 128 /\ Len(Sha256Pad([i \in 1..120 |-> 0])) = 192
=============================================================================
