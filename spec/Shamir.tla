------------------------------- MODULE Shamir -------------------------------
(* Shamir secret sharing over GF(2^FBits) = GF(2)[x]/(FPoly)  (C10).                          *)
(*                                                                                            *)
(* Contract part (pure operators, used by ShamirTrace on executions of the real code):        *)
(*   Split(secret, coeffs, t, n)   share i (1..n) = <<i, p_k(i) for every secret byte k>>,     *)
(*                                 p_k(x) = secret[k] + coeffs[k][1] x + .. + coeffs[k][t-1] x^(t-1) *)
(*   Combine(shares)               Lagrange interpolation at 0 of all the given shares         *)
(*   Reconstruct(shares, t)        what the property fixes for combine(shares, t):             *)
(*                                 fewer than t shares, or repeated indices among the shares   *)
(*                                 reconstruction uses (the first t) -> Invalid; else the      *)
(*                                 interpolated value.  (Reading fixed in DESIGN.md, C10.)     *)
(*                                                                                            *)
(* Model part (TLC, exhaustive in a small field, MC_Shamir*.cfg): one state per ORDERED tuple  *)
(* of distinct share indices taken from Idx (so every t-subset in every order is a state,      *)
(* for every t <= MaxT; n only limits which indices exist, Idx = 1..7 covers all n <= 7).      *)
(*   Inv_ReconstructBasis  every tuple reconstructs p(0) for every monomial c * x^k, k < t     *)
(*                         (all polynomials follow by additivity of Combine, i.e. by the       *)
(*                         distributivity lemma of GF256Lemmas)                                *)
(*   Inv_ReconstructAll    every tuple with t <= TFull reconstructs EVERY polynomial of        *)
(*                         degree < t (all secrets in Secrets, all coefficient vectors)        *)
(*   Inv_Secrecy           for a tuple of k <= KFull indices read as "t - 1 = k shares seen":  *)
(*                         for every secret the map coefficients -> share values is a          *)
(*                         bijection of F^k, so the k values are uniformly distributed and     *)
(*                         independent of the secret; fewer than k shares are a projection     *)
(*                         of it (Inv_SecrecyProjection checks the counts for k <= 2)          *)
(*   Inv_BadSetsRejected   the code-shaped reconstruction (CodeCombine) rejects too few        *)
(*                         shares and duplicated indices whatever the share values are         *)
(*   Inv_SplitTerminates   the code-shaped share loop ends for every n, n = 2^FBits - 1 too    *)
(* Deviation switches (the *_dev_* configs MUST violate the named invariant):                  *)
(*   DevSkipZeroShares   interpolate() skips a share whose value byte is 0 before looking at   *)
(*                       its denominator, and nothing else validates indices (this tree)       *)
(*   DevNarrowCounter    the share loop counter has FBits bits and the test is `i <= n`        *)
EXTENDS GF256, FiniteSets
CONSTANTS FBits, FPoly, Idx, MaxT, TFull, KFull, Secrets, BadVals, DevSkipZeroShares, DevNarrowCounter

FN == 2 ^ FBits
F == 0 .. (FN - 1)
MT == MulTableP(FBits, FPoly)
IT == InvTableP(FBits, MT)
FM(x, y) == MT[x + 1][y + 1]
FD(x, y) == IF x = 0 THEN 0 ELSE FM(x, IT[y])          \* y # 0

XorSeq(s) == FoldLeft(LAMBDA acc, w : acc ^^ w, 0, s)
ProdSeq(s) == FoldLeft(LAMBDA acc, w : FM(acc, w), 1, s)
Distinct(s) == \A i \in DOMAIN s, j \in DOMAIN s : i # j => s[i] # s[j]

\* ---- contract operators ---------------------------------------------------------------------
\* Horner: c0 + x (c1 + x (c2 + ...))
EvalPoly(x, c0, cs) == c0 ^^ FM(x, FoldRight(LAMBDA c, acc : c ^^ FM(x, acc), cs, 0))

Split(secret, coeffs, t, n) ==
    [i \in 1 .. n |-> [index |-> i,
                       value |-> [k \in 1 .. Len(secret) |-> EvalPoly(i, secret[k], SubSeq(coeffs[k], 1, t - 1))]]]

\* Lagrange basis weights at x0 for the (distinct) abscissae xs:
\*   W[i] = prod_{j # i} (x0 - xs[j]) / prod_{j # i} (xs[i] - xs[j])
WeightsV(xs, x0) ==
    [i \in 1 .. Len(xs) |->
        FD(ProdSeq([j \in 1 .. Len(xs) |-> IF j = i THEN 1 ELSE x0 ^^ xs[j]]),
           ProdSeq([j \in 1 .. Len(xs) |-> IF j = i THEN 1 ELSE xs[i] ^^ xs[j]]))]
\* TLC evaluates operator arguments and LET definitions lazily and, at state level, again on every
\* use; binding through a singleton set ({TLCEval(..)}) fixes the VALUE once (measured: 45 s -> 4 s
\* for one 255-share interpolation).
Weights(xs, x0) == CHOOSE w \in { TLCEval(WeightsV(xv, x0)) : xv \in {TLCEval(xs)} } : TRUE
\* value at the weights' x0 of the polynomial through (xs[i], ys[i])
Interp(ys, w) == XorSeq([i \in 1 .. Len(ys) |-> FM(ys[i], w[i])])

Indices(shares) == [i \in 1 .. Len(shares) |-> shares[i].index]
\* all value bytes of the polynomial(s) through the shares, evaluated at x0
InterpAtV(sv, w) == [k \in 1 .. Len(sv[1].value) |-> Interp([i \in 1 .. Len(sv) |-> sv[i].value[k]], w)]
InterpAt(shares, x0) ==
    CHOOSE r \in UNION { { TLCEval(InterpAtV(sv, w)) : w \in {Weights(Indices(sv), x0)} } : sv \in {TLCEval(shares)} } : TRUE
Combine(shares) == InterpAt(shares, 0)

Invalid == [ok |-> FALSE, value |-> <<>>]
Reconstruct(shares, t) ==
    IF Len(shares) < t \/ ~Distinct(Indices(SubSeq(shares, 1, t))) THEN Invalid
    ELSE [ok |-> TRUE, value |-> IF t = 0 THEN <<>> ELSE Combine(SubSeq(shares, 1, t))]

\* ---- code-shaped reconstruction (src/crypto/Shamir.cpp: combine + interpolate) ------------------
\* per value byte: terms of shares whose byte is 0 are skipped BEFORE the denominator is looked at
\* (DevSkipZeroShares); a zero denominator makes gf_div throw invalid_argument.
CodeByte(xs, ys) ==
    LET used == {i \in 1 .. Len(xs) : ~DevSkipZeroShares \/ ys[i] # 0}
        den(i) == ProdSeq([j \in 1 .. Len(xs) |-> IF j = i THEN 1 ELSE xs[i] ^^ xs[j]])
        num(i) == ProdSeq([j \in 1 .. Len(xs) |-> IF j = i THEN 1 ELSE xs[j]])
    IN IF \E i \in used : den(i) = 0 THEN [ok |-> FALSE, v |-> 0]
       ELSE [ok |-> TRUE, v |-> XorSeq([i \in 1 .. Len(xs) |-> IF i \in used THEN FM(ys[i], FD(num(i), den(i))) ELSE 0])]
CodeCombine(shares, t) ==
    IF Len(shares) < t THEN Invalid
    ELSE LET sub == SubSeq(shares, 1, t)
             xs == Indices(sub)
             bytes == [k \in 1 .. Len(sub[1].value) |-> CodeByte(xs, [i \in 1 .. t |-> sub[i].value[k]])]
         IN IF \E k \in DOMAIN bytes : ~bytes[k].ok THEN Invalid
            ELSE [ok |-> TRUE, value |-> [k \in DOMAIN bytes |-> bytes[k].v]]
\* the share loop `for (counter i = 1; i <= n; ++i)`: with an FBits-wide counter it never ends for n = 2^FBits - 1
CodeSplitTerminates(n) == ~(DevNarrowCounter /\ n = FN - 1)

\* ---- model ----------------------------------------------------------------------------------
VARIABLE tup                      \* ordered tuple of distinct indices
Init == tup = <<>>
Next == /\ Len(tup) < MaxT
        /\ \E x \in Idx : x \notin {tup[i] : i \in DOMAIN tup} /\ tup' = Append(tup, x)
Spec == Init /\ [][Next]_tup

TL == Len(tup)
PolyAt(x, c0, cs) == EvalPoly(x, c0, cs)
SharesOf(c0, cs) == [i \in 1 .. TL |-> PolyAt(tup[i], c0, cs)]          \* one secret byte

\* PW[x + 1][k + 1] = x^k
PW == TLCEval([x \in 1 .. FN |-> FoldLeft(LAMBDA row, k : Append(row, FM(row[k], x - 1)), <<1>>, [k \in 1 .. FN - 1 |-> k])])
Inv_ReconstructBasis ==
    TL >= 1 =>
      \A w \in {Weights(tup, 0)} :     \* (binds the value once; a LET would be re-evaluated on every use)
      \A k \in 0 .. TL - 1 :
         \* the monomial x^k: sum_i w[i] * tup[i]^k must be 1 for k = 0 and 0 otherwise ...
         LET r == XorSeq([i \in 1 .. TL |-> FM(PW[tup[i] + 1][k + 1], w[i])])
         IN /\ r = (IF k = 0 THEN 1 ELSE 0)
            \* ... and every scalar multiple c * x^k reconstructs c * [k = 0]
            /\ \A c \in F : XorSeq([i \in 1 .. TL |-> FM(FM(c, PW[tup[i] + 1][k + 1]), w[i])]) = (IF k = 0 THEN c ELSE 0)
            \* ... and the shares really are the polynomial's values (ties PW to EvalPoly)
            /\ \A i \in 1 .. TL : PolyAt(tup[i], IF k = 0 THEN 1 ELSE 0, [d \in 1 .. TL - 1 |-> IF d = k THEN 1 ELSE 0]) = PW[tup[i] + 1][k + 1]

Inv_ReconstructAll ==
    (TL >= 1 /\ TL <= TFull) =>
      \A w \in {Weights(tup, 0)} :     \* (binds the value once; a LET would be re-evaluated on every use)
      \A s \in Secrets, cs \in [1 .. TL - 1 -> F] :
         /\ Interp(SharesOf(s, cs), w) = s
         \* and through the contract operators proper (records, sequences of bytes)
         /\ Reconstruct([i \in 1 .. TL |-> [index |-> tup[i], value |-> <<PolyAt(tup[i], s, cs)>>]], TL) = [ok |-> TRUE, value |-> <<s>>]

Sorted == \A i \in 1 .. TL - 1 : tup[i] < tup[i + 1]
\* k = TL shares observed, threshold t = k + 1, polynomial has k free coefficients
Inv_Secrecy ==
    (TL <= KFull /\ Sorted) =>
      \A s \in Secrets : Cardinality({SharesOf(s, cs) : cs \in [1 .. TL -> F]}) = FN ^ TL

\* m = TL shares observed, threshold TL + 2 (one more free coefficient than shares): every value
\* tuple is produced by exactly FN coefficient vectors, whatever the secret
Inv_SecrecyProjection ==
    (TL <= 2 /\ TL <= KFull /\ Sorted) =>
      \A s \in Secrets, ys \in [1 .. TL -> F] :
         Cardinality({cs \in [1 .. TL + 1 -> F] : SharesOf(s, cs) = ys}) = FN

\* malformed sets built from the tuple: too few; one index duplicated; all value vectors over BadVals
Inv_BadSetsRejected ==
    (TL >= 1 /\ TL <= TFull /\ TL <= 3) =>     \* (all value vectors: 8^TL x pairs; kept to t <= 3)
      \A ys \in [1 .. TL -> BadVals] :
         LET sh(xs) == [i \in 1 .. Len(xs) |-> [index |-> xs[i], value |-> <<ys[i]>>]]
         IN /\ CodeCombine(sh(tup), TL + 1) = Invalid /\ Reconstruct(sh(tup), TL + 1) = Invalid
            /\ \A i \in 1 .. TL, j \in 1 .. TL : i < j =>
                  LET dup == [tup EXCEPT ![j] = tup[i]]
                  IN Reconstruct(sh(dup), TL) = Invalid /\ CodeCombine(sh(dup), TL) = Invalid
            \* and on well-formed sets the code-shaped reconstruction is the contract's
            /\ CodeCombine(sh(tup), TL) = Reconstruct(sh(tup), TL)

Inv_SplitTerminates == TL >= 0 => \A n \in 1 .. FN - 1 : CodeSplitTerminates(n)

\* vacuity guards (must be VIOLATED: the scenario is reachable)
Reach_FullTuple == ~(TL = MaxT)
=============================================================================
