SPECIFICATION TSpec
CONSTANTS
  FBits = 8
  FPoly = 285
  Idx = {1}
  MaxT = 0
  TFull = 0
  KFull = 0
  Secrets = {0}
  BadVals = {0}
  DevSkipZeroShares = FALSE
  DevNarrowCounter = FALSE
INVARIANT Done
CHECK_DEADLOCK FALSE
