----------------------------- MODULE ShamirTrace -----------------------------
(* Trace specification for C10: validates an ndjson trace recorded by harness/shamir.cpp from  *)
(* the real crypto::Shamir (split / combine / gf_mul / gf_div) against the contract operators   *)
(* of Shamir.tla instantiated at GF(2^8), polynomial 0x11D (ShamirTrace.cfg).                    *)
(*                                                                                              *)
(* Clauses (only what the property statement fixes):                                            *)
(*  C10.split-terminates-with-n-shares  1 <= t <= n <= 255: split returns (no hang, no foreign   *)
(*                                      error) exactly n shares                                  *)
(*  C10.split-indices                   their indices are distinct and non-zero                  *)
(*  C10.split-shares-reconstruct        the SPEC's Combine of the probed t-subsets (any order)   *)
(*                                      of the returned shares is the secret                     *)
(*  C10.reconstruct-wrong / -refused    real combine of exactly t untouched shares with distinct *)
(*                                      indices, any order: must return the secret               *)
(*  C10.too-few-shares-accepted         fewer than t shares: must be invalid_argument            *)
(*  C10.repeated-index-accepted         repeated index among the shares reconstruction uses      *)
(*                                      (the first t): must be invalid_argument                  *)
(*  C10.abnormal-termination            crash / hang / any exception other than invalid_argument *)
(*  C10.field-mul, C10.field-div, C10.field-add   gf_mul / gf_div / gf_add are the operations of *)
(*                                      GF(2)[x]/(0x11D) on every pair (a field by GF256Lemmas)  *)
(*  C10.secrecy-not-uniform             with the coefficient of one secret byte running through  *)
(*                                      all values, fewer-than-t share values must run through   *)
(*                                      all values too (only claimed when the driver's           *)
(*                                      coefficient injection demonstrably is local to that byte)*)
(* Where the statement is silent the clause is permissive: index 0 among otherwise distinct      *)
(* indices, more than t shares, duplicates beyond the first t, modified share values with        *)
(* distinct indices, t = 0 / t > n: anything but abnormal termination is accepted.               *)
(* Design-level agreement (shares = Split(secret, injected coefficients)) is only COUNTED.       *)
EXTENDS TraceKit, Shamir

VARIABLES l, viol, pend, nsplit, ncombine, ndesign, ndesignEq, ngf, nbij, nbijSkip
vars == <<l, viol, pend, nsplit, ncombine, ndesign, ndesignEq, ngf, nbij, nbijSkip, tup>>

NoPend == [what |-> "none", t |-> 0, n |-> 0]
TInit == /\ l = 1 /\ viol = <<>> /\ pend = NoPend /\ tup = <<>>
         /\ nsplit = 0 /\ ncombine = 0 /\ ndesign = 0 /\ ndesignEq = 0 /\ ngf = 0 /\ nbij = 0 /\ nbijSkip = 0

Sh(x) == LET s == Arr(x) IN [i \in 1 .. Len(s) |-> [index |-> s[i][1], value |-> s[i][2]]]
ValidParams(t, n) == 1 <= t /\ t <= n /\ n <= 255
Pick(sh, p) == [i \in 1 .. Len(p) |-> sh[p[i]]]
CoeffRows(flat, t) == [k \in 1 .. 32 |-> SubSeq(flat, (k - 1) * (t - 1) + 1, k * (t - 1))]

\* (shares are bound through a singleton set so that TLC converts the JSON value once, see Shamir!Weights)
SplitShareClauses(e, sh) ==
    LET idx == Indices(sh) IN
    (IF Distinct(idx) /\ \A i \in DOMAIN idx : idx[i] \in 1 .. 255 THEN {} ELSE {"C10.split-indices"})
    \cup (IF \A q \in DOMAIN Arr(e.probes) :
               LET p == Arr(e.probes)[q] IN Len(p) = e.t /\ Distinct(p) => Combine(Pick(sh, p)) = e.secret
          THEN {} ELSE {"C10.split-shares-reconstruct"})
SplitClauses(e) ==
    IF ~ValidParams(e.t, e.n)
    THEN (IF e.outcome \in {"ok", "invalid_argument"} THEN {} ELSE {"C10.abnormal-termination"})
    ELSE IF e.outcome # "ok" \/ e.count # e.n THEN {"C10.split-terminates-with-n-shares"}
    ELSE UNION { SplitShareClauses(e, sh) : sh \in {TLCEval(Sh(e.shares))} }
DesignApplies(e) == ValidParams(e.t, e.n) /\ e.outcome = "ok" /\ e.count = e.n /\ e.t * e.n <= 1600
DesignEq(e) == Sh(e.shares) = Split(e.secret, CoeffRows(Arr(e.coeffs), e.t), e.t, e.n)

CombineShareClauses(e, sh) ==
    LET k == Len(sh) tc == e.tc
        first == IF k >= tc THEN SubSeq(sh, 1, tc) ELSE <<>>
        idx == Indices(first)
    IN (IF e.outcome \in {"value", "invalid_argument"} THEN {} ELSE {"C10.abnormal-termination"})
       \cup
       (IF k < tc THEN (IF e.outcome = "invalid_argument" THEN {} ELSE {"C10.too-few-shares-accepted"})
        ELSE IF ~Distinct(idx) THEN (IF e.outcome = "invalid_argument" THEN {} ELSE {"C10.repeated-index-accepted"})
        ELSE IF (\E i \in DOMAIN idx : idx[i] = 0) \/ ~e.pristine \/ tc # e.t \/ tc = 0 THEN {}
        ELSE IF e.outcome = "value" THEN (IF e.value = e.secret THEN {} ELSE {"C10.reconstruct-wrong"})
        ELSE IF k = tc /\ e.outcome = "invalid_argument" THEN {"C10.reconstruct-refused"} ELSE {})
CombineClauses(e) == UNION { CombineShareClauses(e, sh) : sh \in {TLCEval(Sh(e.shares))} }

GfClauses(e) ==
    LET a == e.a IN
    (IF \A b \in 0 .. 255 : e.mul[b + 1] = FM(a, b) THEN {} ELSE {"C10.field-mul"})
    \cup (IF \A b \in 1 .. 255 : e.div[b + 1] \in 0 .. 255 /\ FM(e.div[b + 1], b) = a THEN {} ELSE {"C10.field-div"})
    \cup (IF e.add = a ^^ 90 THEN {} ELSE {"C10.field-add"})

BijApplies(e) == e.outcome = "ok" /\ e.other_variants = 1
BijClauses(e) ==
    IF e.outcome # "ok" THEN {"C10.split-terminates-with-n-shares"}
    ELSE IF ~BijApplies(e) THEN {}
    ELSE IF Cardinality(ArrSet(e.outs)) = (IF e.t = 2 THEN 256 ELSE 65536) /\ Len(e.outs) = (IF e.t = 2 THEN 256 ELSE 65536)
         THEN {} ELSE {"C10.secrecy-not-uniform"}

\* [C10] "fewer than t shares carry no information": the t-1 coefficients of the 32 per-byte polynomials (recovered by the driver
\* from t shares, over several splits with different randomness) must be independent: no two slots agree in every split, none is constant
IndepClauses(e) ==
    IF e.outcome = "skipped" THEN {}       \* the driver could not reach the tree's field arithmetic (no verdict either way)
    ELSE IF e.outcome # "ok" THEN {"C10.split-terminates-with-n-shares"}
    ELSE (IF e.wrong_secret = 0 THEN {} ELSE {"C10.reconstruct-wrong"})
         \cup (IF e.dup = 0 /\ e.constant = 0 THEN {} ELSE {"C10.coefficients-not-independent"})

AbnormalClauses(e) ==
    IF pend.what \in {"split", "bij"} /\ ValidParams(pend.t, pend.n) THEN {"C10.split-terminates-with-n-shares"}
    ELSE {"C10.abnormal-termination"}

Note(bad, e) == IF bad = {} THEN viol
                ELSE Append(viol, Fail(l, bad, [op |-> e.op, pending |-> pend,
                                                 info |-> [k \in (DOMAIN e) \ {"shares", "coeffs", "mul", "div", "outs", "probes"} |-> e[k]]]))

Step(e) ==
  CASE e.op = "reset" ->
        /\ pend' = NoPend /\ UNCHANGED <<viol, nsplit, ncombine, ndesign, ndesignEq, ngf, nbij, nbijSkip>>
    [] e.op = "begin" ->
        /\ pend' = [what |-> e.what, t |-> e.t, n |-> e.n]
        /\ UNCHANGED <<viol, nsplit, ncombine, ndesign, ndesignEq, ngf, nbij, nbijSkip>>
    [] e.op = "split" ->
        /\ viol' = Note(SplitClauses(e), e) /\ pend' = NoPend /\ nsplit' = nsplit + 1
        /\ ndesign' = ndesign + (IF DesignApplies(e) THEN 1 ELSE 0)
        /\ ndesignEq' = ndesignEq + (IF DesignApplies(e) /\ DesignEq(e) THEN 1 ELSE 0)
        /\ UNCHANGED <<ncombine, ngf, nbij, nbijSkip>>
    [] e.op = "combine" ->
        /\ viol' = Note(CombineClauses(e), e) /\ pend' = NoPend /\ ncombine' = ncombine + 1
        /\ UNCHANGED <<nsplit, ndesign, ndesignEq, ngf, nbij, nbijSkip>>
    [] e.op = "gfrow" ->
        /\ viol' = Note(GfClauses(e), e) /\ ngf' = ngf + 1
        /\ UNCHANGED <<pend, nsplit, ncombine, ndesign, ndesignEq, nbij, nbijSkip>>
    [] e.op = "bij" ->
        /\ viol' = Note(BijClauses(e), e) /\ pend' = NoPend
        /\ nbij' = nbij + (IF BijApplies(e) THEN 1 ELSE 0) /\ nbijSkip' = nbijSkip + (IF BijApplies(e) THEN 0 ELSE 1)
        /\ UNCHANGED <<nsplit, ncombine, ndesign, ndesignEq, ngf>>
    [] e.op = "indep" ->
        /\ viol' = Note(IndepClauses(e), e) /\ pend' = NoPend /\ nbij' = nbij + 1
        /\ UNCHANGED <<nsplit, ncombine, ndesign, ndesignEq, ngf, nbijSkip>>
    [] e.op = "abnormal" ->
        /\ viol' = Note(AbnormalClauses(e), e) /\ pend' = NoPend
        /\ UNCHANGED <<nsplit, ncombine, ndesign, ndesignEq, ngf, nbij, nbijSkip>>
    [] OTHER -> UNCHANGED <<viol, pend, nsplit, ncombine, ndesign, ndesignEq, ngf, nbij, nbijSkip>>

TNext == l <= Len(T) /\ l' = l + 1 /\ Step(T[l]) /\ UNCHANGED tup
TSpec == TInit /\ [][TNext]_vars
Done == Report(l, viol, [splits |-> nsplit, combines |-> ncombine, design_checked |-> ndesign, design_equal |-> ndesignEq,
                         gfrows |-> ngf, bij_checked |-> nbij, bij_inconclusive |-> nbijSkip])
=============================================================================
