------------------------------- MODULE Stun -------------------------------
(* C33 -- datagram builder (TLC enumerates the datagrams) + a code-shaped model of          *)
(* parse_stun_response (src/network/NatTraversal.cpp) checked against the contract.        *)
(* Every reachable state is one complete datagram: header choices are made in Init, each   *)
(* AddAttr step appends one attribute from the menu.  `hist` (the only variable) carries   *)
(* the choices and the resulting bytes, so `-dump` yields the datagrams for the driver.    *)
EXTENDS StunContract, TLC

CONSTANTS MaxAttrs,        \* attributes per datagram
          Types,           \* header message types: 257 Binding Success, 273 Binding Error, 1 Binding Request
          Deltas,          \* declared message length minus the real body length
          TidModes,        \* "match" | "last" | "first": foreign transaction = last / first byte differs
          Trails,          \* bytes after the message: "none" | "addr" (a well-formed address attribute) | "junk" (3 stray bytes)
          HeaderlessBound  \* TRUE: the historical bound `attr_length > remaining` (value only, without
                           \* the 4-byte attribute header) -- the deviation the unfixed tree has
DeltasQuick == {0, -4, -8, 4, 1}
DeltasFull == {0, -4, -8, -12, 4, 1}
Tid == <<183, 231, 167, 1, 188, 52, 214, 134, 250, 135, 223, 174>>

\* ---- attribute menu: name -> bytes (k = position, makes addresses distinguishable) ----------
Hdr(t, l) == <<t \div 256, t % 256, l \div 256, l % 256>>
V4(k) == <<8, 8, 4, k>>
V6(k) == <<32, 1, 72, 96, 72, 96, 0, 0, 0, 0, 0, 0, 0, 0, 136, k>>
Port(k) == <<187, k>>                                   \* 0xBB00 + k
XPort(k) == <<187 ^^ 33, k ^^ 18>>
Fill(n) == [i \in 1..n |-> 160 + i]
Menu == {"M4", "X4", "M6", "X6", "WF", "F6S", "SH", "U0", "U1", "U2", "U3", "ZL", "M4L"}
AttrBytes(m, k) ==
  CASE m = "M4"  -> Hdr(1, 8) \o <<0, 1>> \o Port(k) \o V4(k)
    [] m = "X4"  -> Hdr(32, 8) \o <<0, 1>> \o XPort(k) \o XorSeq(V4(k), Cookie)
    [] m = "M6"  -> Hdr(1, 20) \o <<0, 2>> \o Port(k) \o V6(k)
    [] m = "X6"  -> Hdr(32, 20) \o <<0, 2>> \o XPort(k) \o XorSeq(V6(k), Cookie \o Tid)
    [] m = "WF"  -> Hdr(1, 8) \o <<0, 3>> \o Port(k) \o V4(k)             \* unknown family
    [] m = "F6S" -> Hdr(32, 8) \o <<0, 2>> \o XPort(k) \o V4(k)           \* IPv6 family, IPv4-sized value
    [] m = "SH"  -> Hdr(32, 4) \o <<0, 1>> \o XPort(k)                    \* value stops after the port
    [] m = "U0"  -> Hdr(32802, 4) \o Fill(4)                              \* SOFTWARE, padding 0
    [] m = "U1"  -> Hdr(32802, 5) \o Fill(5) \o <<0, 0, 0>>               \* padding 3
    [] m = "U2"  -> Hdr(32802, 6) \o Fill(6) \o <<0, 0>>                  \* padding 2
    [] m = "U3"  -> Hdr(32802, 7) \o Fill(7) \o <<0>>                     \* padding 1
    [] m = "ZL"  -> Hdr(32808, 0)                                         \* empty value
    [] m = "M4L" -> Hdr(1, 12) \o <<0, 1>> \o Port(k) \o V4(k) \o Fill(4) \* over-long IPv4 value
Body(attrs) == FoldLeft(LAMBDA acc, k : acc \o AttrBytes(attrs[k], k), <<>>, [k \in 1..Len(attrs) |-> k])

TidBytes(m) == IF m = "match" THEN Tid ELSE IF m = "last" THEN [Tid EXCEPT ![12] = 0] ELSE [Tid EXCEPT ![1] = 0]
TrailBytes(t) == IF t = "none" THEN <<>> ELSE IF t = "addr" THEN AttrBytes("M4", 9) ELSE <<1, 2, 3>>
Build(type, delta, tm, trail, attrs) ==
    LET b == Body(attrs)
        decl == IF Len(b) + delta < 0 THEN 0 ELSE Len(b) + delta
    IN Hdr(type, decl) \o Cookie \o TidBytes(tm) \o b \o TrailBytes(trail)

VARIABLE hist
Mk(type, delta, tm, trail, attrs) ==
    [type |-> type, delta |-> delta, tid |-> tm, trail |-> trail, attrs |-> attrs, bytes |-> Build(type, delta, tm, trail, attrs)]
Init == \E type \in Types, delta \in Deltas, tm \in TidModes, trail \in Trails : hist = Mk(type, delta, tm, trail, <<>>)
AddAttr(m) == /\ Len(hist.attrs) < MaxAttrs
              /\ hist' = Mk(hist.type, hist.delta, hist.tid, hist.trail, Append(hist.attrs, m))
Next == \E m \in Menu : AddAttr(m)
Spec == Init /\ [][Next]_hist

\* ---- design: parse_stun_response as written (0-based offsets of the C++ kept) ---------------
B(d, off) == d[off + 1]
B16(d, off) == B(d, off) * 256 + B(d, off + 1)
NoRes == [ok |-> FALSE, fam |-> 0, addr |-> <<>>, port |-> 0]
CodeStep(d, tid, st, i) ==
    IF st.done \/ ~(st.remaining >= 4 /\ st.offset + 4 <= Len(d)) THEN [st EXCEPT !.done = TRUE]
    ELSE LET at == B16(d, st.offset)
             al == B16(d, st.offset + 2)
             bad == (IF HeaderlessBound THEN al > st.remaining ELSE 4 + al > st.remaining) \/ st.offset + 4 + al > Len(d)
             v == st.offset + 4
             x == at = 32
             port == IF x THEN B16(d, v + 2) ^^ CookieHi ELSE B16(d, v + 2)
             padded == Pad4(al)
         IN IF bad THEN [st EXCEPT !.done = TRUE]
            ELSE IF at \in {1, 32} /\ al >= 4 /\ B(d, v + 1) = 1 /\ al >= 8
              THEN [st EXCEPT !.done = TRUE,
                              !.res = [ok |-> TRUE, fam |-> 4, port |-> port,
                                       addr |-> IF x THEN XorSeq(Slice(d, v + 5, 4), Cookie) ELSE Slice(d, v + 5, 4)]]
            ELSE IF at \in {1, 32} /\ al >= 4 /\ B(d, v + 1) = 2 /\ al >= 20
              THEN [st EXCEPT !.done = TRUE,
                              !.res = [ok |-> TRUE, fam |-> 6, port |-> port,
                                       addr |-> IF x THEN XorSeq(Slice(d, v + 5, 16), Cookie \o tid) ELSE Slice(d, v + 5, 16)]]
            ELSE IF st.remaining < 4 + padded THEN [st EXCEPT !.done = TRUE]
            ELSE [st EXCEPT !.offset = st.offset + 4 + padded, !.remaining = st.remaining - (4 + padded)]
CodeParse(d, tid) ==
    IF Len(d) < 20 THEN NoRes
    ELSE IF B16(d, 0) # 257 \/ Len(d) < 20 + B16(d, 2) THEN NoRes
    ELSE IF Slice(d, 9, 12) # tid THEN NoRes
    ELSE FoldLeft(LAMBDA st, i : CodeStep(d, tid, st, i),
                  [offset |-> 20, remaining |-> B16(d, 2), done |-> FALSE, res |-> NoRes],
                  [i \in 1..(Len(d) \div 4) |-> i]).res

\* ---- invariants ------------------------------------------------------------------------------
C33_DesignMeetsContract == Accepts(hist.bytes, Tid, CodeParse(hist.bytes, Tid))
\* the fixed design also reports whenever the reference has something to report (not demanded by the
\* property; kept as a model-level sanity lemma so that "never reports" is not what we verified)
DesignReportsWhenReportable ==
    HeaderlessBound \/ Len(hist.bytes) < 20 + Declared(hist.bytes) \/ (Reportable(hist.bytes, Tid) # {} <=> CodeParse(hist.bytes, Tid).ok)
\* vacuity guards: must be violated
Reach_Reported == ~(CodeParse(hist.bytes, Tid).ok /\ Len(hist.attrs) = MaxAttrs)
Reach_OverrunInsideDatagram == ~(Walk(hist.bytes).over # NoOver /\ AddrOf(hist.bytes, Tid, Walk(hist.bytes).over) # NoAddr
                                 /\ hist.type = 257 /\ hist.tid = "match")
=============================================================================
