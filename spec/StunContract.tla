--------------------------- MODULE StunContract ---------------------------
(* C33 -- what the property fixes about STUN response parsing, as pure operators.        *)
(* A datagram is a sequence of bytes (1-based).  Executable reference of the RFC 5389    *)
(* message / attribute layout and of the (XOR-)MAPPED-ADDRESS decoding; the contract      *)
(* only says when an address MAY be reported (the statement has no "must report" half).  *)
EXTENDS Integers, Sequences, FiniteSets, Bitwise, SequencesExt

Cookie == <<33, 18, 164, 66>>                  \* 0x2112A442
CookieHi == 8466                               \* 0x2112, XORed into the port
BindingSuccess == 257                          \* 0x0101
AttrMapped == 1                                \* 0x0001 MAPPED-ADDRESS
AttrXorMapped == 32                            \* 0x0020 XOR-MAPPED-ADDRESS

U16(d, i) == d[i] * 256 + d[i + 1]             \* big-endian 16 bit at 1-based index i
Pad4(n) == ((n + 3) \div 4) * 4
MinOf(a, b) == IF a < b THEN a ELSE b
Slice(d, i, n) == [k \in 1..n |-> d[i + k - 1]]
XorSeq(a, b) == [k \in 1..Len(a) |-> a[k] ^^ b[k]]

HasHeader(d) == Len(d) >= 20
MsgType(d) == U16(d, 1)
Declared(d) == U16(d, 3)                       \* message length field: bytes after the 20-byte header
TidOf(d) == Slice(d, 9, 12)
\* last byte (1-based index) that belongs to the message: inside the declared length AND the datagram
BodyEnd(d) == MinOf(20 + Declared(d), Len(d))

(* The attribute sequence of the message body (RFC 5389 section 15: type, length, value,  *)
(* value padded to a multiple of 4).  An attribute is listed only when header and value  *)
(* lie inside the message.  `over` remembers the first attribute whose value runs past    *)
(* the end of the message while still fitting in the datagram (used to name the failure). *)
NoOver == [p |-> 0, type |-> 0, len |-> 0]
WalkStep(d, st, i) ==
    IF st.stop THEN st ELSE IF st.p + 3 > BodyEnd(d) THEN [st EXCEPT !.stop = TRUE]
    ELSE LET len == U16(d, st.p + 2)
             a == [p |-> st.p, type |-> U16(d, st.p), len |-> len]
         IN IF st.p + 3 + len > BodyEnd(d)
              THEN [st EXCEPT !.stop = TRUE, !.over = IF st.p + 3 + len <= Len(d) THEN a ELSE NoOver]
              ELSE [st EXCEPT !.p = st.p + 4 + Pad4(len), !.attrs = Append(st.attrs, a)]
Walk(d) == LET n == IF BodyEnd(d) > 20 THEN (BodyEnd(d) - 20) \div 4 + 1 ELSE 0
           IN FoldLeft(LAMBDA st, i : WalkStep(d, st, i), [p |-> 21, stop |-> FALSE, attrs |-> <<>>, over |-> NoOver],
                       [i \in 1..n |-> i])
Attrs(d) == Walk(d).attrs

(* Address carried by one attribute, decoded per RFC 5389 15.1 / 15.2.                    *)
(* value: 1 reserved byte, family (1 = IPv4, 2 = IPv6), port, address (4 / 16 bytes);    *)
(* XOR form: port ^ top 16 bits of the cookie, IPv4 ^ cookie, IPv6 ^ (cookie ++ tid).     *)
(* Where the statement is silent we are permissive: a value longer than the address is    *)
(* still taken as well-formed (length >= 8 / >= 20).                                      *)
NoAddr == [fam |-> 0, addr |-> <<>>, port |-> 0]
AddrOf(d, tid, a) ==
    LET v == a.p + 4
        x == a.type = AttrXorMapped
        port == IF x THEN U16(d, v + 2) ^^ CookieHi ELSE U16(d, v + 2)
    IN IF a.type \notin {AttrMapped, AttrXorMapped} \/ a.len < 4 THEN NoAddr
       ELSE IF d[v + 1] = 1 /\ a.len >= 8
         THEN [fam |-> 4, addr |-> IF x THEN XorSeq(Slice(d, v + 4, 4), Cookie) ELSE Slice(d, v + 4, 4), port |-> port]
       ELSE IF d[v + 1] = 2 /\ a.len >= 20
         THEN [fam |-> 6, addr |-> IF x THEN XorSeq(Slice(d, v + 4, 16), Cookie \o tid) ELSE Slice(d, v + 4, 16), port |-> port]
       ELSE NoAddr

\* every address a conforming parser may report for datagram d and expected transaction id tid
Reportable(d, tid) ==
    IF ~HasHeader(d) \/ MsgType(d) # BindingSuccess \/ TidOf(d) # tid THEN {}
    ELSE LET as == Attrs(d) IN {AddrOf(d, tid, as[k]) : k \in 1..Len(as)} \ {NoAddr}

(* res = [ok |-> BOOLEAN, fam, addr, port]; the failing clauses of one parser call          *)
Clauses(d, tid, res) ==
    IF ~res.ok THEN {} ELSE
    LET rep == [fam |-> res.fam, addr |-> res.addr, port |-> res.port]
        w == Walk(d)
    IN IF ~HasHeader(d) THEN {"C33.reported-for-non-success"} ELSE
       (IF MsgType(d) # BindingSuccess THEN {"C33.reported-for-non-success"} ELSE {})
       \cup (IF TidOf(d) # tid THEN {"C33.reported-for-foreign-transaction"} ELSE {})
       \cup (IF \E k \in 1..Len(w.attrs) : AddrOf(d, tid, w.attrs[k]) = rep /\ rep # NoAddr THEN {}
             ELSE IF w.over # NoOver /\ AddrOf(d, tid, w.over) = rep /\ rep # NoAddr
               THEN {"C33.attribute-overruns-message"}
             ELSE {"C33.decode-mismatch"})
Accepts(d, tid, res) == Clauses(d, tid, res) = {}

---------------------------------------------------------------------------
(* RFC 5769 test vectors (2.2 IPv4 response, 2.3 IPv6 response): the reference must decode *)
(* them to 192.0.2.1:32853 and 2001:db8:1234:5678:11:2233:4455:6677:32853.                 *)
Rfc5769V4 == <<1,1,0,60,33,18,164,66,183,231,167,1,188,52,214,134,250,135,223,174,128,34,0,11,116,101,115,116,32,118,101,99,116,111,114,32,
               0,32,0,8,0,1,161,71,225,18,166,67,0,8,0,20,43,145,245,153,253,158,144,195,140,112,137,245,158,187,155,255,190,59,121,20,
               128,40,0,4,192,125,76,150>>
Rfc5769V6 == <<1,1,0,72,33,18,164,66,183,231,167,1,188,52,214,134,250,135,223,174,128,34,0,11,116,101,115,116,32,118,101,99,116,111,114,32,
               0,32,0,20,0,2,161,71,1,19,169,250,165,211,241,121,188,37,244,181,190,210,185,217,0,8,0,20,163,130,149,78,75,230,123,241,
               23,132,201,124,130,146,194,117,191,227,237,65,128,40,0,4,200,251,11,76>>
Rfc5769Tid == <<183,231,167,1,188,52,214,134,250,135,223,174>>
ASSUME Reportable(Rfc5769V4, Rfc5769Tid) = {[fam |-> 4, addr |-> <<192, 0, 2, 1>>, port |-> 32853]}
ASSUME Reportable(Rfc5769V6, Rfc5769Tid) =
         {[fam |-> 6, addr |-> <<32, 1, 13, 184, 18, 52, 86, 120, 0, 17, 34, 51, 68, 85, 102, 119>>, port |-> 32853]}
ASSUME Len(Attrs(Rfc5769V4)) = 4 /\ Len(Attrs(Rfc5769V6)) = 4
ASSUME Reportable(Rfc5769V4, [Rfc5769Tid EXCEPT ![12] = 0]) = {}
=============================================================================
