----------------------------- MODULE StunTrace -----------------------------
(* Trace specification for C33: every event is one call of the real parse_stun_response    *)
(* (datagram, expected transaction id, result) or a driver process that died inside one;    *)
(* the RFC 5389 reference of StunContract decides which results are admissible.             *)
EXTENDS TraceKit, StunContract

VARIABLES l, viol, nchecked, nreported
vars == <<l, viol, nchecked, nreported>>
Init == l = 1 /\ viol = <<>> /\ nchecked = 0 /\ nreported = 0

Res(e) == IF e.ok THEN [ok |-> TRUE, fam |-> e.fam, addr |-> Arr(e.addr), port |-> e.port]
          ELSE [ok |-> FALSE, fam |-> 0, addr |-> <<>>, port |-> 0]
\* a dead driver: memory-safety half of the property (the sanitizer is the monitor), or a plain crash
DiedClause(e) == "C33." \o (IF e.how = "sanitizer/undefined-behaviour" THEN "sanitizer/undefined-behaviour"
                            ELSE IF e.how = "stack-overflow" THEN "crash/stack-overflow"
                            ELSE IF e.how = "hang" THEN "crash/hang"
                            ELSE e.how)
Short(e) == [src |-> Fld(e, "src", ""), d |-> Arr(e.d), tid |-> Arr(e.tid), ok |-> Fld(e, "ok", FALSE), text |-> Fld(e, "text", ""),
             port |-> Fld(e, "port", 0), how |-> Fld(e, "how", "")]
Step(e) ==
  CASE e.op = "parse" ->
        LET bad == Clauses(Arr(e.d), Arr(e.tid), Res(e))
        IN /\ viol' = IF bad = {} THEN viol ELSE Append(viol, Fail(l, bad, Short(e)))
           /\ nchecked' = nchecked + 1 /\ nreported' = nreported + (IF e.ok THEN 1 ELSE 0)
    [] e.op = "died" ->
        /\ viol' = Append(viol, Fail(l, {DiedClause(e)}, Short(e)))
        /\ nchecked' = nchecked + 1 /\ UNCHANGED nreported
    [] OTHER -> UNCHANGED <<viol, nchecked, nreported>>
Next == l <= Len(T) /\ l' = l + 1 /\ Step(T[l])
Spec == Init /\ [][Next]_vars
Done == Report(l, viol, [checked |-> nchecked, reported |-> nreported])
=============================================================================
