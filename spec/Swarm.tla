------------------------------- MODULE Swarm -------------------------------
(* Swarm distribution plans (C22): a code-shaped DESIGN model of                            *)
(* SwarmCoordinator::compute_plan (src/core/SwarmCoordinator.cpp) on top of                 *)
(* KademliaTable::closest_peers (src/dht/KademliaTable.cpp), checked against the CONTRACT   *)
(* of SwarmContract.tla.                                                                    *)
(*                                                                                          *)
(* The routing table is a sequence of contacts in XOR-distance order to the chunk id        *)
(* (rank 1 = closest; a contact's id is its rank).  Contacts are long-lived (expiry 9) or   *)
(* short-lived (expiry 1); the clock runs 0..MaxNow, so a short-lived contact is live at    *)
(* 0, exactly at its expiry at 1 (the code treats it as expired) and expired at 2.  The     *)
(* table may hold a live contact carrying the planning node's own id (SelfModes).           *)
(*                                                                                          *)
(* One behaviour: pick a table + swarm configuration, let the clock advance, compute ONE    *)
(* plan for a manifest (shards 1..s, threshold) and replica settings.  compute_plan is one  *)
(* critical section of the real code (Node holds the scheduler lock), hence one action.     *)
(* `hist` records the choices; VIEW hides it, so `-dump` exports one input sequence per      *)
(* distinct case, which checks/swarm.py replays on the real code.                           *)
EXTENDS Integers, Sequences, FiniteSets, TLC, SwarmContract

CONSTANTS LiveCounts,   \* numbers of long-lived non-self contacts tried
          ShortCounts,  \* numbers of short-lived non-self contacts tried
          SelfModes,    \* subset of {"none", "near", "far"}: own-id contact absent / closest / farthest
          ShortNear,    \* subset of BOOLEAN: short-lived contacts closer (TRUE) or farther than the others
          Samples,      \* swarm_candidate_sample values
          Orders,       \* subset of {"flat-asc", "flat-desc", "busy"}: load picture / jitter outcome
          ShardCounts, Thrs, Targets, Mins,
          MaxNow,
          DevKeepSelf,      \* BOOLEAN deviation: own id not removed from the candidates
          DevKeepExpired,   \* BOOLEAN deviation: expired contacts not filtered
          DevBlockAssign    \* BOOLEAN deviation: shards dealt in blocks of ceil(s/k) instead of round-robin

VARIABLES now, tab, selfId, scfg, planned, plan, man, cfg, hist
vars == <<now, tab, selfId, scfg, planned, plan, man, cfg, hist>>
View == <<now, tab, selfId, scfg, planned, plan, man, cfg>>

NoSelf == 99
Long  == 9
Short == 1

MkTable(nl, ns, sm, near) ==
    LET shorts == [i \in 1..ns |-> [exp |-> Short, self |-> FALSE]]
        longs  == [i \in 1..nl |-> [exp |-> Long, self |-> FALSE]]
        body   == IF near THEN shorts \o longs ELSE longs \o shorts
        me     == <<[exp |-> Long, self |-> TRUE]>>
        all    == CASE sm = "none" -> body [] sm = "near" -> me \o body [] sm = "far" -> body \o me
    IN [i \in DOMAIN all |-> [id |-> i, exp |-> all[i].exp, self |-> all[i].self]]

SelfOf(t) == IF \E i \in DOMAIN t : t[i].self THEN (CHOOSE i \in DOMAIN t : t[i].self) ELSE NoSelf

-----------------------------------------------------------------------------
(* CONTRACT view of the table at the planning instant *)
Cand == [live |-> {tab[i].id : i \in {j \in DOMAIN tab : tab[j].exp > now}},
         edge |-> {tab[i].id : i \in {j \in DOMAIN tab : tab[j].exp = now}},
         dead |-> {tab[i].id : i \in {j \in DOMAIN tab : tab[j].exp < now}}]

-----------------------------------------------------------------------------
(* DESIGN: the code, stage by stage *)

\* KademliaTable.cpp  expired(): now >= contact.expires_at
Expired(c, t) == t >= c.exp

\* KademliaTable::closest_peers(target, limit): skip expired, sort by distance, first `limit`
ClosestPeers(t, limit) ==
    LET liveSeq == SelectSeq(tab, LAMBDA c : DevKeepExpired \/ ~Expired(c, t))
    IN IF limit = 0 THEN <<>> ELSE SubSeq(liveSeq, 1, Min2(limit, Len(liveSeq)))

\* SwarmCoordinator::candidate_peers: sample max(swarm_candidate_sample, 1) closest, THEN drop own id
CandidatePeers(t, sample) ==
    SelectSeq(ClosestPeers(t, Max2(sample, 1)), LAMBDA c : DevKeepSelf \/ c.id # selfId)

\* load snapshot (the harness builds the same one): "busy" = uploads id%3, reputation 10*(id%2)
Uploads(c, order) == IF order = "busy" THEN c.id % 3 ELSE 0
Rep(c, order)     == IF order = "busy" THEN 10 * (c.id % 2) ELSE 0
TtlRemaining(c, t) == IF c.exp > t THEN c.exp - t ELSE 0
\* score in units of 0.01: availability 0.02/s (window 900 s) + reputation*0.05 - uploads*2.5 (jitter < 0.01 only breaks ties)
Score(c, t, order) == 2 * Min2(TtlRemaining(c, t), 900) + 5 * Rep(c, order) - 250 * Uploads(c, order)
Better(a, b, t, order) ==
    \/ Score(a, t, order) > Score(b, t, order)
    \/ /\ Score(a, t, order) = Score(b, t, order)
       /\ IF order = "flat-desc" THEN a.id > b.id ELSE a.id < b.id     \* jitter decides among equals: either way

Evaluated(t, sample, order) ==
    SortSeq(CandidatePeers(t, sample), LAMBDA a, b : Better(a, b, t, order))

DesignPlan(t, sample, order, s, thr, tg, mn) ==
    IF s = 0 THEN <<>> ELSE
    LET ev == Evaluated(t, sample, order) IN
    IF Len(ev) = 0 THEN <<>> ELSE
    LET minProviders  == Max2(mn, thr)
        clampedMin    == Min3(minProviders, Len(ev), s)
        desiredTarget == Max2(tg, clampedMin)
        pc            == Min3(Len(ev), desiredTarget, s)
        block         == IF pc = 0 THEN 0 ELSE (s + pc - 1) \div pc
    IN IF pc = 0 THEN <<>> ELSE
       [i \in 1..pc |->
           [peer |-> ev[i].id,
            sh   |-> SelectSeq([k \in 1..s |-> k],
                               LAMBDA k : IF DevBlockAssign THEN (k - 1) \div block = i - 1
                                                            ELSE (k - 1) % pc = i - 1)]]

-----------------------------------------------------------------------------
Init ==
    /\ now = 0 /\ planned = FALSE /\ plan = <<>>
    /\ man = [shards |-> {}, thr |-> 0]
    /\ \E nl \in LiveCounts, ns \in ShortCounts, sm \in SelfModes, near \in ShortNear,
          sample \in Samples, order \in Orders :
          /\ tab = MkTable(nl, ns, sm, near)
          /\ selfId = SelfOf(tab)
          /\ scfg = [sample |-> sample, order |-> order]
          /\ cfg = [target |-> 0, minp |-> 0, sample |-> sample]
          /\ hist = <<[op |-> "table", nl |-> nl, ns |-> ns, sm |-> sm, near |-> near, sample |-> sample, order |-> order]>>

Adv ==
    /\ ~planned /\ now < MaxNow
    /\ now' = now + 1
    /\ hist' = Append(hist, [op |-> "adv"])
    /\ UNCHANGED <<tab, selfId, scfg, planned, plan, man, cfg>>

ComputePlan(s, thr, tg, mn) ==
    /\ ~planned
    /\ planned' = TRUE
    /\ plan' = DesignPlan(now, scfg.sample, scfg.order, s, thr, tg, mn)
    /\ man' = [shards |-> 1..s, thr |-> thr]
    /\ cfg' = [target |-> tg, minp |-> mn, sample |-> scfg.sample]
    /\ hist' = Append(hist, [op |-> "plan", s |-> s, thr |-> thr, tg |-> tg, mn |-> mn])
    /\ UNCHANGED <<now, tab, selfId, scfg>>

Next == Adv \/ \E s \in ShardCounts, thr \in Thrs, tg \in Targets, mn \in Mins : ComputePlan(s, thr, tg, mn)

MCSpec == Init /\ [][Next]_vars

-----------------------------------------------------------------------------
(* Design => Contract *)
C22_EveryShardOnce    == planned => AllAssigned(plan, man.shards) /\ NoneTwice(plan, man.shards)
C22_ProvidersEligible == planned => Distinct(plan) /\ AllEligible(plan, Cand, selfId)
C22_EvenShare         == planned => NoneEmpty(plan, man.shards) /\ Balanced(plan, man.shards)
C22_ProviderCount     == planned => CountOk(plan, man, Cand, selfId, cfg)
C22_PlanOk            == planned => PlanOk(plan, man, Cand, selfId, cfg)

(* vacuity guards: each must be VIOLATED (= the corner case is reachable) *)
NLive == Cardinality(Cand.live \ {selfId})
NSh   == Cardinality(man.shards)
Reach_ZeroCandidates          == ~(planned /\ NSh > 0 /\ NLive = 0 /\ Cand.edge = {} /\ plan = <<>>)
Reach_MoreProvidersThanShards == ~(planned /\ NSh >= 1 /\ NLive > NSh /\ cfg.target > NSh /\ cfg.sample > NSh /\ Len(plan) = NSh)
Reach_ThresholdAboveCandidates == ~(planned /\ NLive >= 1 /\ man.thr > NLive /\ cfg.target < NLive /\ NSh >= NLive /\ Len(plan) = NLive)
Reach_ExpiredAndSelfPresent   == ~(planned /\ Cand.dead # {} /\ selfId \in Cand.live /\ Len(plan) >= 2)
Reach_SampleCaps              == ~(planned /\ cfg.sample >= 1 /\ NLive > cfg.sample /\ Len(plan) = cfg.sample)
Reach_SelfUsesSlot            == ~(planned /\ selfId \in Cand.live /\ cfg.sample >= 2 /\ NLive >= cfg.sample /\ Len(plan) = cfg.sample - 1
                                   /\ cfg.target >= cfg.sample /\ NSh >= cfg.sample)
Reach_UnevenShare             == ~(planned /\ Len(plan) >= 2 /\ NSh % Len(plan) # 0)
Reach_EdgeContact             == ~(planned /\ Cand.edge # {} /\ Len(plan) >= 1)
=============================================================================
