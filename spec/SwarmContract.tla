--------------------------- MODULE SwarmContract ---------------------------
(* What C22 fixes about a swarm distribution plan, as pure operators.  Used by the design  *)
(* model (Swarm.tla, as invariants) and by the trace specification (SwarmTrace.tla, on      *)
(* plans observed from the real SwarmCoordinator::compute_plan / Node::swarm_plan).         *)
(*                                                                                          *)
(* Statement: "A distribution plan assigns every manifest shard to exactly one provider;    *)
(* providers are distinct live peers other than the node itself, each receives at least     *)
(* one shard, shard counts differ by at most one, and the number of providers is            *)
(* min(candidates, shards, max(target replicas, min(max(minimum providers, threshold),      *)
(* candidates, shards)))."                                                                  *)
(*                                                                                          *)
(* Values                                                                                   *)
(*   plan      sequence of assignments [peer |-> id, sh |-> sequence of shard labels]       *)
(*   manifest  [shards |-> set of the manifest's shard labels, thr |-> manifest threshold]  *)
(*   cand      what the routing table holds at the instant the plan is made:                *)
(*               [live |-> ids whose expiry is after that instant,                          *)
(*                edge |-> ids whose expiry is exactly that instant,                        *)
(*                dead |-> ids whose expiry has passed]     (self may occur in any of them) *)
(*   self      the planning node's own id                                                   *)
(*   cfg       [target |-> swarm_target_replicas, minp |-> swarm_min_providers,             *)
(*              sample |-> swarm_candidate_sample]                                          *)
(*                                                                                          *)
(* READING OF "candidates" (the statement does not define the word).  compute_plan takes    *)
(* its candidates from candidate_peers(): the live contacts the routing table returns for   *)
(* closest_peers(chunk id, max(swarm_candidate_sample, 1)), with the node's own id removed  *)
(* afterwards.  So "candidates" = live non-self contacts of the table, capped by the        *)
(* documented sample size (docs/03-operations/01-configuration.md: "Sample size passed to   *)
(* the DHT when picking replica targets") when that is smaller.  Points the statement and   *)
(* the documentation leave open are accepted either way (no false alarms):                  *)
(*   - a contact exactly at its expiry instant may or may not count as live (edge);         *)
(*   - a live contact carrying the node's own id may or may not use up one slot of the      *)
(*     sample before it is dropped (the code drops it after sampling);                      *)
(*   - sample size 0 may mean "no candidates" (documented: the value is passed on) or 1     *)
(*     (the code clamps to 1);                                                              *)
(*   - WHICH candidates become providers (score, distance, jitter) and WHICH shards go to   *)
(*     whom is free: any plan satisfying the clauses below is accepted.                     *)
EXTENDS Integers, FiniteSets, Sequences

Min2(a, b) == IF a <= b THEN a ELSE b
Max2(a, b) == IF a >= b THEN a ELSE b
Min3(a, b, c) == Min2(a, Min2(b, c))

\* the provider-count formula of the statement, literally
ProviderCount(c, s, target, minp, thr) ==
    Min3(c, s, Max2(target, Min3(Max2(minp, thr), c, s)))

\* admissible values of "candidates" under the reading above
CandCounts(cand, self, sample) ==
    LET L      == Cardinality(cand.live \ {self})
        E      == Cardinality(cand.edge \ {self})
        caps0  == IF sample = 0 THEN {0, 1} ELSE {sample}
        caps   == IF self \in cand.live \cup cand.edge
                    THEN caps0 \cup {k - 1 : k \in caps0 \ {0}} ELSE caps0
    IN {Min2(n, k) : n \in L..(L + E), k \in caps}

Providers(plan) == {plan[i].peer : i \in DOMAIN plan}

\* how often shard label s is handed out by the whole plan
Times(plan, s) ==
    Cardinality(UNION {{<<i, j>> : j \in {k \in DOMAIN plan[i].sh : plan[i].sh[k] = s}} : i \in DOMAIN plan})
\* number of manifest shards assignment i carries
Load(plan, shards, i) == Cardinality({j \in DOMAIN plan[i].sh : plan[i].sh[j] \in shards})

\* ---- the clauses (each returns TRUE when the clause holds) ---------------------------------
\* every manifest shard is assigned ...  (a plan with NO provider distributes nothing -- the code
\* "retains local exclusivity"; whether zero providers is right is decided by CountOk alone, which
\* admits it only when the formula yields 0: no candidates, no shards, or target = min = thr = 0)
AllAssigned(plan, shards)   == Len(plan) = 0 \/ \A s \in shards : Times(plan, s) >= 1
\* ... to exactly one provider
NoneTwice(plan, shards)     == \A s \in shards : Times(plan, s) <= 1
\* providers are distinct
Distinct(plan)              == Cardinality(Providers(plan)) = Len(plan)
\* providers are live peers other than the node itself (edge contacts accepted)
Eligible(cand, self, p)     == p # self /\ p \in cand.live \cup cand.edge
AllEligible(plan, cand, self) == \A p \in Providers(plan) : Eligible(cand, self, p)
\* why p is not eligible: "self", "expired" (known to the table, expiry passed) or "unknown"
WhyNot(cand, self, p)       == IF p = self THEN "self" ELSE IF p \in cand.dead THEN "expired" ELSE "unknown"
\* each provider receives at least one shard
NoneEmpty(plan, shards)     == \A i \in DOMAIN plan : Load(plan, shards, i) >= 1
\* shard counts differ by at most one
Balanced(plan, shards)      == \A i, j \in DOMAIN plan : Load(plan, shards, i) - Load(plan, shards, j) <= 1
\* number of providers
CountOk(plan, manifest, cand, self, cfg) ==
    \E c \in CandCounts(cand, self, cfg.sample) :
        Len(plan) = ProviderCount(c, Cardinality(manifest.shards), cfg.target, cfg.minp, manifest.thr)

\* [C22]
PlanOk(plan, manifest, cand, self, cfg) ==
    /\ AllAssigned(plan, manifest.shards)
    /\ NoneTwice(plan, manifest.shards)
    /\ Distinct(plan)
    /\ AllEligible(plan, cand, self)
    /\ NoneEmpty(plan, manifest.shards)
    /\ Balanced(plan, manifest.shards)
    /\ CountOk(plan, manifest, cand, self, cfg)
=============================================================================
