----------------------------- MODULE SwarmTrace -----------------------------
(* Trace specification: validates an ndjson trace recorded from the real                    *)
(* SwarmCoordinator::compute_plan on a real KademliaTable (level "store") or from a real    *)
(* Node (register_peer_contact / store_chunk / tick -> swarm_plan, level "node") against    *)
(* the C22 contract (SwarmContract.tla).                                                    *)
(*                                                                                          *)
(* Ghost state: the expiry instant (virtual ms) of every contact the driver handed to the   *)
(* table (last registration wins, as in the table), the node's own id, the swarm config.    *)
(* A plan is judged at the instant it was created (plan.created_at, logged as e.t).         *)
(* Peer ids are small integers (the driver maps PeerIds back; -1 = a PeerId it never made). *)
EXTENDS TraceKit, SwarmContract

Ids == 0..255
None == -1
NoExp == [i \in {} |-> 0]     \* exp: peer number -> expiry instant, defined for the contacts handed in so far

VARIABLES l, viol, poisoned, exp, self, cfg, nchecked, nonempty, nfailed
vars == <<l, viol, poisoned, exp, self, cfg, nchecked, nonempty, nfailed>>

Init == /\ l = 1 /\ viol = <<>> /\ poisoned = FALSE
        /\ exp = NoExp /\ self = None
        /\ cfg = [target |-> 0, minp |-> 0, sample |-> 0]
        /\ nchecked = 0 /\ nonempty = 0 /\ nfailed = 0

\* the table as the contract sees it at instant t.  When the driver says buckets may have evicted
\* contacts (e.evict = 1: more than a bucket's worth of contacts were inserted) membership is the
\* table's own answer `present` (closest_peers with a huge limit); liveness always comes from the
\* expiry instants the driver itself handed in, never from the code under test.
CandAt(e, t) ==
    LET pres == ArrSet(Arr(Fld(e, "present", <<>>)))
        In(i) == Fld(e, "evict", 0) = 0 \/ i \in pres
    IN [live |-> {i \in DOMAIN exp : In(i) /\ exp[i] > t},
        edge |-> {i \in DOMAIN exp : In(i) /\ exp[i] = t},
        dead |-> {i \in DOMAIN exp : exp[i] < t}]

PlanOf(e) == LET p == Arr(e.plan) IN [i \in DOMAIN p |-> [peer |-> p[i].peer, sh |-> Arr(p[i].sh)]]

PlanClauses(e) ==
    LET plan   == PlanOf(e)
        shards == ArrSet(Arr(e.shards))
        man    == [shards |-> shards, thr |-> e.thr]
        cand   == CandAt(e, e.t)
    IN (IF AllAssigned(plan, shards) THEN {} ELSE {"C22.shard-unassigned"})
       \cup (IF NoneTwice(plan, shards) THEN {} ELSE {"C22.shard-assigned-twice"})
       \cup (IF Distinct(plan) THEN {} ELSE {"C22.provider-duplicate"})
       \cup {"C22.provider-not-eligible/" \o WhyNot(cand, self, p) : p \in {q \in Providers(plan) : ~Eligible(cand, self, q)}}
       \cup (IF NoneEmpty(plan, shards) THEN {} ELSE {"C22.provider-empty"})
       \cup (IF Balanced(plan, shards) THEN {} ELSE {"C22.unbalanced"})
       \cup (IF CountOk(plan, man, cand, self, cfg) THEN {} ELSE {"C22.provider-count"})

\* every failing plan is counted (stats.failed); at most 3 failures per distinct set of failing clauses
\* are kept with their event (a tree on which every plan fails would otherwise make the state huge)
Keep(bad) == bad # {} /\ Cardinality({i \in DOMAIN viol : viol[i].clause = bad}) < 3

Step(e) ==
  CASE e.op = "reset" ->
        /\ exp' = NoExp /\ self' = e.self
        /\ cfg' = [target |-> e.target, minp |-> e.minp, sample |-> e.sample]
        /\ poisoned' = FALSE /\ UNCHANGED <<viol, nchecked, nonempty, nfailed>>
    [] poisoned -> UNCHANGED <<viol, poisoned, exp, self, cfg, nchecked, nonempty, nfailed>>
    [] e.op = "cfg" ->
        /\ cfg' = [target |-> e.target, minp |-> e.minp, sample |-> e.sample]
        /\ UNCHANGED <<viol, poisoned, exp, self, nchecked, nonempty, nfailed>>
    [] e.op = "contact" ->
        /\ exp' = IF e.id \in Ids THEN (e.id :> e.exp) @@ exp ELSE exp
        /\ UNCHANGED <<viol, poisoned, self, cfg, nchecked, nonempty, nfailed>>
    [] e.op = "plan" ->
        LET bad == PlanClauses(e)
        IN /\ viol' = IF Keep(bad) THEN Append(viol, Fail(l, bad, e)) ELSE viol
           /\ nfailed' = nfailed + (IF bad = {} THEN 0 ELSE 1)
           /\ poisoned' = (bad # {}) /\ nchecked' = nchecked + 1
           /\ nonempty' = nonempty + (IF Len(PlanOf(e)) > 0 THEN 1 ELSE 0)
           /\ UNCHANGED <<exp, self, cfg>>
    [] OTHER -> UNCHANGED <<viol, poisoned, exp, self, cfg, nchecked, nonempty, nfailed>>

Next == l <= Len(T) /\ l' = l + 1 /\ Step(T[l])
Spec == Init /\ [][Next]_vars
Done == Report(l, viol, [checked |-> nchecked, nonempty |-> nonempty, failed |-> nfailed])
=============================================================================
