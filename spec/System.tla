------------------------------- MODULE System -------------------------------
(* End-to-end composition (DESIGN.md §6.4): several nodes, each with the TTL life-cycle of  *)
(* NodeTtl.tla, connected by message channels, for ONE chunk id.  The flow of                *)
(* src/core/Node.cpp:  store_chunk -> swarm plan -> broadcast_manifest (ANNOUNCE with         *)
(* assigned shards) -> handle_announce -> schedule_assigned_fetch -> request_chunk (REQUEST)  *)
(* -> handle_request -> CHUNK -> handle_chunk / receive_chunk -> re-broadcast; plus ticks,    *)
(* message loss and arbitrarily late delivery.                                                *)
(* End-to-end claim (README): after the manifest of the chunk has expired no node serves it,  *)
(* advertises it or holds key shares for it; nothing derived from the manifest outlives it    *)
(* anywhere in the system, however late a message arrives.                                    *)
EXTENDS Integers, Sequences, FiniteSets, TLC
CONSTANTS Nodes, MinT, MaxT, DefT, CleanInt, TtlReqs, MaxNow, MaxMsgs, MaxHist,
          CheckOnArrival   \* BOOLEAN: receivers re-validate the manifest expiry on every arrival (FALSE = deviation)
None == -1
NoPend == [exp |-> -1, from |-> -1]
VARIABLES now,
          hold,    \* hold[n]  : deadline of the local chunk record
          cache,   \* cache[n] : expiry of the cached manifest
          share,   \* share[n] : expiry of the key-share record
          prov,    \* prov[n][m] : expiry of the provider contact for m held by n (m = n: own announcement)
          pend,    \* pend[n]  : [exp, from] of the pending fetch, or None
          told,    \* told[n]  : peers to which n already delivered the manifest
          lastClean,
          msgs,    \* messages in flight: set of records
          E,       \* expiry of the (latest) origin manifest of the chunk, None before the first store
          served,  \* ghost: instants at which a CHUNK was sent
          hist
vars == <<now, hold, cache, share, prov, pend, told, lastClean, msgs, E, served, hist>>
Max2(a, b) == IF a > b THEN a ELSE b
Min2(a, b) == IF a < b THEN a ELSE b
Clamp(t) == Min2(Max2(t, MinT), MaxT)
Ttl(x) == IF x = None \/ x <= now \/ x - now < MinT THEN None ELSE Min2(x - now, MaxT)
Live(x) == x # None /\ now < x

Init == /\ now = 0 /\ hold = [n \in Nodes |-> None] /\ cache = [n \in Nodes |-> None] /\ share = [n \in Nodes |-> None]
        /\ prov = [n \in Nodes |-> [m \in Nodes |-> None]] /\ pend = [n \in Nodes |-> NoPend]
        /\ told = [n \in Nodes |-> {}] /\ lastClean = [n \in Nodes |-> 0] /\ msgs = {} /\ E = None /\ served = {} /\ hist = <<>>

\* broadcast_manifest at n for manifest expiry x: ANNOUNCE (with assignment) to every peer not yet told
Announces(n, x, toldN) == {[type |-> "ann", from |-> n, to |-> m, exp |-> x, adv |-> Ttl(x)] : m \in (Nodes \ {n}) \ toldN}

Store(n, req) ==
    LET t == Clamp(IF req > 0 THEN req ELSE DefT)  x == now + t IN
    /\ hold' = [hold EXCEPT ![n] = x] /\ cache' = [cache EXCEPT ![n] = x] /\ share' = [share EXCEPT ![n] = x]
    /\ prov' = [prov EXCEPT ![n][n] = x]
    /\ E' = Max2(E, x)      \* several nodes may publish the chunk id: the latest-expiring origin manifest bounds everything
    /\ msgs' = msgs \cup Announces(n, x, {})          \* a new store starts a new plan
    /\ told' = [told EXCEPT ![n] = Nodes \ {n}]
    /\ UNCHANGED <<now, pend, lastClean, served>>

\* handle_announce at m.to
DeliverAnn(m) ==
    LET r == m.to  t == IF CheckOnArrival THEN Ttl(m.exp) ELSE (IF m.exp = None THEN None ELSE Max2(Min2(m.exp - now, MaxT), MinT)) IN
    /\ m \in msgs /\ m.type = "ann"
    /\ IF t = None
         THEN /\ msgs' = msgs \ {m} /\ UNCHANGED <<cache, share, prov, pend, told>>
         ELSE LET wantFetch == ~Live(hold[r])
                  adv == Clamp(Min2(IF m.adv # None /\ m.adv > 0 THEN m.adv ELSE t, t)) IN
              /\ cache' = [cache EXCEPT ![r] = m.exp]
              /\ share' = [share EXCEPT ![r] = now + t]
              /\ prov'  = [prov EXCEPT ![r][m.from] = now + adv]
              /\ pend'  = IF wantFetch THEN [pend EXCEPT ![r] = [exp |-> Min2(m.exp, now + MaxT), from |-> m.from]] ELSE pend
              \* schedule_assigned_fetch dispatches at once (REQUEST to the announcer); then the manifest is re-broadcast
              /\ msgs' = (msgs \ {m}) \cup (IF wantFetch THEN {[type |-> "req", from |-> r, to |-> m.from, exp |-> m.exp, adv |-> None]} ELSE {})
                            \cup Announces(r, m.exp, told[r] \cup {m.from})
              /\ told' = [told EXCEPT ![r] = Nodes \ {r}]
    /\ UNCHANGED <<now, hold, lastClean, E, served>>

\* handle_request at the provider
DeliverReq(m) ==
    LET p == m.to IN
    /\ m \in msgs /\ m.type = "req"
    /\ IF Live(hold[p]) /\ cache[p] # None /\ Ttl(cache[p]) # None
         THEN /\ msgs' = (msgs \ {m}) \cup {[type |-> "chunk", from |-> p, to |-> m.from, exp |-> cache[p], adv |-> None]}
              /\ served' = served \cup {now}
         ELSE /\ msgs' = msgs \ {m} /\ UNCHANGED served
    /\ UNCHANGED <<now, hold, cache, share, prov, pend, told, lastClean, E>>

\* handle_chunk at the requester: receive_chunk with the manifest IT has cached
DeliverChunk(m) ==
    LET r == m.to  t == IF CheckOnArrival THEN Ttl(cache[r]) ELSE (IF cache[r] = None THEN None ELSE Max2(Min2(cache[r] - now, MaxT), MinT)) IN
    /\ m \in msgs /\ m.type = "chunk"
    /\ IF t = None
         THEN msgs' = msgs \ {m} /\ UNCHANGED <<hold, share, prov, pend, told>>
         ELSE /\ hold' = [hold EXCEPT ![r] = now + t] /\ share' = [share EXCEPT ![r] = now + t]
              /\ prov' = [prov EXCEPT ![r][r] = now + t] /\ pend' = [pend EXCEPT ![r] = NoPend]
              /\ msgs' = (msgs \ {m}) \cup Announces(r, cache[r], told[r])
              /\ told' = [told EXCEPT ![r] = Nodes \ {r}]
    /\ UNCHANGED <<now, cache, lastClean, E, served>>

Lose(m) == m \in msgs /\ msgs' = msgs \ {m} /\ UNCHANGED <<now, hold, cache, share, prov, pend, told, lastClean, E, served>>

Dead(x) == x # None /\ x <= now
Tick(n) ==
    /\ IF now - lastClean[n] < CleanInt
         THEN /\ pend' = [pend EXCEPT ![n] = IF pend[n].exp # None /\ (pend[n].exp <= now \/ Live(hold[n])) THEN NoPend ELSE pend[n]]
              /\ UNCHANGED <<hold, cache, share, prov, lastClean>>
         ELSE LET h2 == IF Dead(hold[n]) THEN None ELSE hold[n]
                  s2 == IF Dead(share[n]) THEN None ELSE share[n]
                  p2 == IF pend[n].exp # None /\ (pend[n].exp <= now \/ h2 # None) THEN NoPend ELSE pend[n]
                  c2 == IF cache[n] # None /\ (cache[n] <= now \/ (p2.exp = None /\ h2 = None /\ s2 = None)) THEN None ELSE cache[n]
              IN /\ hold' = [hold EXCEPT ![n] = h2] /\ share' = [share EXCEPT ![n] = s2] /\ cache' = [cache EXCEPT ![n] = c2]
                 /\ prov' = [prov EXCEPT ![n] = [m \in Nodes |-> IF Dead(prov[n][m]) \/ (m = n /\ Dead(hold[n])) THEN None ELSE prov[n][m]]]
                 /\ pend' = [pend EXCEPT ![n] = p2]
                 /\ lastClean' = [lastClean EXCEPT ![n] = now]
    /\ UNCHANGED <<now, told, msgs, E, served>>

Advance == now' = now + 1 /\ UNCHANGED <<hold, cache, share, prov, pend, told, lastClean, msgs, E, served>>

Step(a) == CASE a.op = "store" -> Store(a.n, a.ttl)
             [] a.op = "ann" -> \E m \in msgs : m.type = "ann" /\ m.from = a.from /\ m.to = a.to /\ DeliverAnn(m)
             [] a.op = "req" -> \E m \in msgs : m.type = "req" /\ m.from = a.from /\ m.to = a.to /\ DeliverReq(m)
             [] a.op = "chunk" -> \E m \in msgs : m.type = "chunk" /\ m.from = a.from /\ m.to = a.to /\ DeliverChunk(m)
             [] a.op = "lose" -> \E m \in msgs : m.type = a.type /\ m.from = a.from /\ m.to = a.to /\ Lose(m)
             [] a.op = "tick" -> Tick(a.n)
             [] a.op = "adv" -> Advance
Acts == {[op |-> "store", n |-> n, ttl |-> t] : n \in Nodes, t \in TtlReqs}
   \cup {[op |-> o, from |-> f, to |-> t] : o \in {"ann", "req", "chunk"}, f \in Nodes, t \in Nodes}
   \cup {[op |-> "lose", type |-> ty, from |-> f, to |-> t] : ty \in {"ann", "req", "chunk"}, f \in Nodes, t \in Nodes}
   \cup {[op |-> "tick", n |-> n] : n \in Nodes} \cup {[op |-> "adv"]}
Next == \E a \in Acts : Step(a) /\ hist' = Append(hist, a)
Spec == Init /\ [][Next]_vars
View == <<now, hold, cache, share, prov, pend, told, lastClean, msgs, E, served>>
Bound == now <= MaxNow /\ Cardinality(msgs) <= MaxMsgs /\ Len(hist) <= MaxHist

\* ---- end-to-end properties -----------------------------------------------------------------------
\* nothing dated that any node holds for the chunk outlives the origin manifest
E2E_NothingOutlivesManifest == \A n \in Nodes :
    /\ hold[n] # None => hold[n] <= E
    /\ share[n] # None => share[n] <= E
    /\ pend[n].exp # None => pend[n].exp <= E
    /\ \A m \in Nodes : prov[n][m] # None => prov[n][m] <= E
\* the chunk is only ever served before the manifest expires
E2E_ServedOnlyWhileLive == \A s \in served : s < E
\* once the manifest has expired and a node has run a cleanup since, that node holds nothing -- and no
\* message, however late, brings anything back
E2E_GoneAfterExpiry == \A n \in Nodes : (E # None /\ now >= E /\ lastClean[n] >= E) =>
    (hold[n] = None /\ share[n] = None /\ cache[n] = None /\ pend[n].exp = None /\ \A m \in Nodes : prov[n][m] = None)
Reach_Replicated == ~(\E n, m \in Nodes : n # m /\ Live(hold[n]) /\ Live(hold[m]))
Reach_LateAnnounce == ~(E # None /\ now >= E /\ \E m \in msgs : m.type = "ann")
=============================================================================
