------------------------------ MODULE TraceKit ------------------------------
(* Shared plumbing of the trace specifications: the recorded ndjson trace, the cursor,   *)
(* the list of contract clauses that failed (with the line they failed at) and the        *)
(* "poisoned" flag that suspends checking until the next behaviour (reset event).         *)
EXTENDS Integers, Sequences, FiniteSets, TLC, Json, IOUtils

T == ndJsonDeserialize(IOEnv.TRACE)

Has(e, k) == k \in DOMAIN e
Fld(e, k, d) == IF k \in DOMAIN e THEN e[k] ELSE d
\* JSON arrays arrive as sequences (an empty array as an empty sequence or function)
Arr(x) == IF DOMAIN x = {} THEN <<>> ELSE x
ArrSet(x) == {x[i] : i \in DOMAIN x}

\* one failing clause report
Fail(l, clause, detail) == [l |-> l, clause |-> clause, detail |-> detail]

\* printed once, in the final state; tools/vlib.py picks the line up
Report(l, viol, stats) ==
    l <= Len(T) \/ PrintT(<<"VERIF_RESULT", ToJson([events |-> Len(T), viol |-> viol, stats |-> stats])>>)
=============================================================================
