------------------------------ MODULE Transport ------------------------------
(* One transport session of src/network/SessionManager.cpp, design level:                 *)
(*   Send(p)      = SessionManager::send: refuse above the limit, otherwise draw a nonce,  *)
(*                  encrypt, append nonce|len|ciphertext to the byte stream;               *)
(*   RawFrame     = a peer that does not use SessionManager::send writes a frame by hand    *)
(*                  (any announced length, body present or not);                            *)
(*   Recv         = one iteration of SessionManager::receive_loop: read nonce and length,   *)
(*                  length above the limit => leave the loop (socket closed, session        *)
(*                  erased) before any body byte is read; else read body, decrypt, hand to  *)
(*                  the message handler.                                                    *)
(* with the ghost state the C14 contract talks about (sends, delivered, nonces used).       *)
(* The limit is scaled to MAX = 2..3 "bytes": only the comparison with the limit matters    *)
(* (size classes empty / small / exactly MAX / above); the replay maps the classes to       *)
(* 0, {1,63,64,65}, {2^20-1, 2^20}, {2^20+1, 2^31, 2^32-1}.  The cipher is an abstract      *)
(* XOR keystream whose first bit is 1 (so that "ciphertext differs from plaintext" is       *)
(* meaningful in the model; on real traces TLC recomputes ChaCha20 instead).                *)
EXTENDS Integers, Sequences, FiniteSets, TLC, TransportContract

CONSTANTS MAX,              \* scaled size limit (kMaxPayloadSize)
          Payloads,         \* payloads the honest sender tries (sequences over {0,1}, lengths 0..MAX+1)
          RawValid,         \* bodies of hand-written frames with a correct length
          RawOversized,     \* <<announced length, body>> of hand-written oversized frames
          MaxFrames,        \* bound: frames put on the wire / sends attempted
          BufferOversized,  \* deviation: an oversized frame is read into a buffer and the loop continues
          NonceReuse,       \* deviation: every frame uses the same nonce
          DupDeliver,       \* deviation: a frame is handed to the handler twice
          AllowReconnect,   \* the session may end and be established again under the SAME key (peer drops, manager connects again)
          NoncePerSession   \* deviation: the nonce source restarts with every session (a per-session counter under a per-manager prefix)

VARIABLES wire,         \* frames in flight, in stream order
          open,         \* the session exists
          sends,        \* GHOST: payloads whose frame was put on the wire with a correct length
          delivered,    \* payloads handed to the message handler, in order
          sentNonces,   \* GHOST: nonces drawn by Send, in order
          nextNonce,    \* the random source (fresh values)
          buffered,     \* bytes of an oversized frame kept by the receiver
          sawOversized, \* GHOST: Recv met an oversized announcement
          attempts,     \* sends attempted + raw frames written (bound)
          obs,          \* last observable result
          hist
cvars == <<wire, open, sends, delivered, sentNonces, nextNonce, buffered, sawOversized, attempts, obs>>
vars  == <<wire, open, sends, delivered, sentNonces, nextNonce, buffered, sawOversized, attempts, obs, hist>>

\* abstract cipher: XOR with a keystream depending on nonce and position, first bit set
KS(n, i) == IF i = 1 THEN 1 ELSE (n + i) % 2
Enc(n, p) == [i \in 1..Len(p) |-> (p[i] + KS(n, i)) % 2]
Dec(n, c) == Enc(n, c)
AdvNonce == 9

Init == /\ wire = <<>> /\ open = TRUE /\ sends = <<>> /\ delivered = <<>> /\ sentNonces = <<>> /\ nextNonce = 0
        /\ buffered = <<>> /\ sawOversized = FALSE /\ attempts = 0 /\ obs = <<"init">>

\* SessionManager::send
Send(p) ==
    /\ open /\ attempts < MaxFrames /\ attempts' = attempts + 1
    /\ IF Len(p) > MAX
         THEN /\ obs' = <<"send", Len(p), FALSE>>
              /\ UNCHANGED <<wire, open, sends, delivered, sentNonces, nextNonce, buffered, sawOversized>>
         ELSE LET n == IF NonceReuse THEN 0 ELSE nextNonce IN
              /\ wire' = Append(wire, [nonce |-> n, len |-> Len(p), body |-> Enc(n, p), pt |-> p, src |-> "send"])
              /\ sends' = Append(sends, p) /\ sentNonces' = Append(sentNonces, n) /\ nextNonce' = nextNonce + 1
              /\ obs' = <<"send", Len(p), TRUE>>
              /\ UNCHANGED <<open, delivered, buffered, sawOversized>>

\* a frame written by hand with a correct length field: the peer must treat it as sent
RawOk(body) ==
    /\ open /\ attempts < MaxFrames /\ attempts' = attempts + 1
    /\ wire' = Append(wire, [nonce |-> AdvNonce, len |-> Len(body), body |-> body, pt |-> Dec(AdvNonce, body), src |-> "raw"])
    /\ sends' = Append(sends, Dec(AdvNonce, body))
    /\ obs' = <<"raw", Len(body)>>
    /\ UNCHANGED <<open, delivered, sentNonces, nextNonce, buffered, sawOversized>>

\* a frame announcing more than the limit, with or without (part of) a body
RawBig(len, body) ==
    /\ open /\ attempts < MaxFrames /\ attempts' = attempts + 1
    /\ wire' = Append(wire, [nonce |-> AdvNonce, len |-> len, body |-> body, pt |-> <<>>, src |-> "raw"])
    /\ obs' = <<"raw", len>>
    /\ UNCHANGED <<open, sends, delivered, sentNonces, nextNonce, buffered, sawOversized>>

\* one iteration of receive_loop
Recv ==
    /\ open /\ wire # <<>>
    /\ LET f == Head(wire) IN
       IF OversizedAnnounced(MAX, f.len)
         THEN /\ sawOversized' = TRUE /\ obs' = <<"oversized", f.len>>
              /\ IF BufferOversized
                   THEN /\ buffered' = f.body /\ wire' = Tail(wire) /\ UNCHANGED open
                   ELSE /\ open' = FALSE /\ wire' = <<>> /\ UNCHANGED buffered    \* break: socket closed, rest of the stream discarded
              /\ UNCHANGED delivered
         ELSE LET m == Dec(f.nonce, f.body) IN
              /\ delivered' = delivered \o (IF DupDeliver THEN <<m, m>> ELSE <<m>>)
              /\ wire' = Tail(wire) /\ obs' = <<"deliver", Len(m)>>
              /\ UNCHANGED <<open, buffered, sawOversized>>
    /\ UNCHANGED <<sends, sentNonces, nextNonce, attempts>>

\* the peer drops the connection / the manager connects again to the same peer: the key (and with it everything sent under it)
\* stays, so "a fresh nonce" spans sessions
Drop == /\ AllowReconnect /\ open /\ open' = FALSE /\ wire' = <<>> /\ obs' = <<"drop">>
        /\ UNCHANGED <<sends, delivered, sentNonces, nextNonce, buffered, sawOversized, attempts>>
Reconnect == /\ AllowReconnect /\ ~open /\ open' = TRUE /\ wire' = <<>> /\ sawOversized' = FALSE /\ obs' = <<"reconnect">>
             /\ nextNonce' = IF NoncePerSession THEN 0 ELSE nextNonce
             \* what was cut off by the drop is no longer owed to the handler: the ghost starts over (the nonces do not)
             /\ sends' = <<>> /\ delivered' = <<>>
             /\ UNCHANGED <<sentNonces, buffered, attempts>>

-----------------------------------------------------------------------------
(* CONTRACT invariants (C14)                                                               *)
C14_InOrderExactlyOnce == DeliveredOk(delivered, sends)
C14_NothingLost        == (open /\ wire = <<>>) => DrainedOk(delivered, sends)
C14_FreshNonce         == NoncesFresh(sentNonces)
C14_Encrypted          == \A i \in 1..Len(wire) : wire[i].src = "send" =>
                             /\ FrameEncrypted(wire[i].pt, wire[i].body, Enc(wire[i].nonce, wire[i].pt))
                             /\ Dec(wire[i].nonce, wire[i].body) = wire[i].pt
C14_OversizedNotSent   == /\ (obs[1] = "send" => SendOutcomeOk(MAX, obs[2], obs[3]))
                          /\ \A i \in 1..Len(wire) : wire[i].src = "send" => wire[i].len <= MAX
C14_OversizedNotAccepted == \A i \in 1..Len(delivered) : DeliverSizeOk(MAX, Len(delivered[i]))
C14_OversizedCloses    == sawOversized => ~open
C14_NotBuffered        == buffered = <<>>
\* a refused send changes nothing (action property, checked as a step invariant through obs)
C14_RefusedSendNoEffect == [][(obs'[1] = "send" /\ ~obs'[3]) => UNCHANGED <<wire, open, sends, delivered, sentNonces, nextNonce, buffered>>]_vars

-----------------------------------------------------------------------------
(* Model-checking harness                                                                  *)
Acts == {[op |-> "send", p |-> p] : p \in Payloads}
   \cup {[op |-> "rawok", body |-> b] : b \in RawValid}
   \cup {[op |-> "rawbig", len |-> x[1], body |-> x[2]] : x \in RawOversized}
   \cup {[op |-> "recv"], [op |-> "drop"], [op |-> "reconnect"]}

Do(a) == CASE a.op = "send"   -> Send(a.p)
           [] a.op = "rawok"  -> RawOk(a.body)
           [] a.op = "rawbig" -> RawBig(a.len, a.body)
           [] a.op = "recv"   -> Recv
           [] a.op = "drop"   -> Drop
           [] a.op = "reconnect" -> Reconnect

MCInit == Init /\ hist = <<>>
MCNext == \E a \in Acts : Do(a) /\ hist' = Append(hist, a)
MCSpec == MCInit /\ [][MCNext]_vars
View == cvars

\* concrete constant sets for the cfgs (MAX = 2 and MAX = 3)
Pay2 == {<<>>, <<0>>, <<1>>, <<0, 1>>, <<1, 0>>, <<0, 0, 0>>}
RawValid2 == {<<>>, <<1>>, <<1, 1>>}
RawBig2 == {<<3, <<>>>>, <<3, <<0, 0, 0>>>>, <<4, <<>>>>, <<4, <<0, 0, 0>>>>}
Pay3 == UNION {[1..k -> {0, 1}] : k \in 0..4}
RawValid3 == {<<>>, <<1, 0, 1>>}
RawBig3 == {<<4, <<>>>>, <<5, <<0, 0, 0, 0>>>>}

\* vacuity guards (expected to be VIOLATED)
Reach_OversizedClosed   == ~(sawOversized /\ ~open /\ Len(delivered) > 0)
Reach_LimitDelivered    == ~(\E i \in 1..Len(delivered) : Len(delivered[i]) = MAX /\ \E j \in 1..Len(delivered) : Len(delivered[j]) = 0)
Reach_SendRefused       == ~(obs = <<"send", MAX + 1, FALSE>> /\ Len(sends) > 0)
Reach_Backlog           == ~(Len(wire) >= 3 /\ \E i \in 1..Len(wire) : wire[i].len > MAX)
Reach_ValidBehindOversized == ~(~open /\ Len(sends) > Len(delivered))
=============================================================================
