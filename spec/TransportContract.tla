-------------------------- MODULE TransportContract --------------------------
(* What C14 fixes about one transport session, as pure operators.  Used by the design     *)
(* model (Transport.tla, as invariants over its ghost state) and by the trace             *)
(* specification (TransportTrace.tla, on what the harness observed on the real code).      *)
(*                                                                                         *)
(* A message is any value; "sends" is the sequence of messages whose send was accepted     *)
(* (size at most the limit, peer connected), "delivered" the sequence handed to the peer's *)
(* message handler.  The statement fixes:                                                  *)
(*   - exactly once, in order, byte for byte : delivered is a prefix of sends at all times *)
(*     and equal to it once the wire has drained;                                          *)
(*   - encrypted with a fresh nonce          : the nonces of the frames one side produced  *)
(*     under one session key are pairwise distinct, the body of a non-empty frame is the   *)
(*     cipher of the payload and not the payload;                                          *)
(*   - the limit                             : a send above the limit is refused and has   *)
(*     no effect, nothing above the limit is delivered, and a frame that announces more    *)
(*     than the limit closes the session without the announced body being read or kept.    *)
(* The statement is silent on: what a send to a session that is closing returns, the order *)
(* between payloads sent concurrently from different threads (each thread's own order is   *)
(* fixed), and how fast anything happens.                                                  *)
EXTENDS Integers, Sequences, FiniteSets

IsPrefixOf(s, t) == Len(s) <= Len(t) /\ \A i \in 1..Len(s) : s[i] = t[i]

\* [order, exactly once, byte for byte]
DeliveredOk(delivered, sends) == IsPrefixOf(delivered, sends)
\* nothing is lost: once everything in flight has been consumed on an open session
DrainedOk(delivered, sends) == delivered = sends

\* [fresh nonce] over the sequence of nonces one side used under one key
NoncesFresh(ns) == \A i, j \in 1..Len(ns) : i # j => ns[i] # ns[j]

\* [encrypted] body/plaintext of a produced frame, under the cipher Enc(nonce, plaintext)
FrameEncrypted(pt, body, ref) == body = ref /\ (Len(pt) > 0 => body # pt)

\* [limit, sender] the outcome of send(n bytes) with the peer connected
SendOutcomeOk(max, n, accepted) == IF n > max THEN ~accepted ELSE accepted
\* [limit, receiver]
DeliverSizeOk(max, n) == n <= max
OversizedAnnounced(max, len) == len > max

-----------------------------------------------------------------------------
(* Matching a delivery against what is pending, for the trace specification.  pend is the  *)
(* sequence of accepted-and-not-yet-delivered records [dir, lane, n, h] in the order the    *)
(* sends returned; a lane is one sending thread (its own order is fixed, lanes of one       *)
(* direction may interleave).                                                               *)
LaneHead(pend, i) == \A j \in 1..(i - 1) : ~(pend[j].dir = pend[i].dir /\ pend[j].lane = pend[i].lane)
Matches(r, d, n, h) == r.dir = d /\ r.n = n /\ r.h = h
HeadMatches(pend, d, n, h) == {i \in 1..Len(pend) : Matches(pend[i], d, n, h) /\ LaneHead(pend, i)}
AnyMatches(pend, d, n, h)  == {i \in 1..Len(pend) : Matches(pend[i], d, n, h)}
MinOf(S) == CHOOSE x \in S : \A y \in S : x <= y
DropAt(s, i) == SubSeq(s, 1, i - 1) \o SubSeq(s, i + 1, Len(s))
PendingOf(pend, d) == {i \in 1..Len(pend) : pend[i].dir = d}
=============================================================================
