--------------------------- MODULE TransportTrace ---------------------------
(* Trace specification for C14: validates what harness/transport.cpp observed on REAL      *)
(* SessionManager sessions over loopback against TransportContract.  Events (one per line): *)
(*   reset   a new behaviour: mode (pair/out/in), session key, max = 2^20                   *)
(*   send    the real send() returned: dir (sender,receiver), lane (sending thread), n, h,   *)
(*           ok, conn (is_connected just before)                                             *)
(*   raw     the harness wrote a frame by hand towards the real node: announced length L as  *)
(*           [hi16, lo16], valid (correct length + reference-style encryption of a payload   *)
(*           n/h), hdr (the 16 header bytes went out), for small frames nonce, pt, ct        *)
(*   wire    the harness read a frame the real node produced: nonce, L, n/h of the body      *)
(*           decrypted (counter 0, session key), cth hash of the body, small frames: ct, pt  *)
(*   deliver the real message handler was called: dir, n, h                                  *)
(*   alloc   a SessionManager thread asked for more than max + 4096 bytes in one allocation  *)
(*   state   quiescent point: ca / cb is_connected of the real nodes (-1: no such node), hc   *)
(*           the harness' socket saw EOF or RST, alloc largest single request so far         *)
(* Clause ids (C14.):                                                                        *)
(*   lost                   an accepted payload had not reached the handler at a quiescent point *)
(*   lost/send-refused      send() of at most max bytes to a connected peer returned false    *)
(*   duplicated             a payload reached the handler again                               *)
(*   reordered              everything arrived, but a lane's payloads not in its send order   *)
(*   corrupted              something reached the handler / the wire that was never sent      *)
(*   nonce-reused           two frames of one producer under one key carry the same nonce     *)
(*   plaintext-on-wire      the body of a non-empty frame is the payload itself               *)
(*   cipher-mismatch        small frame: the body is not ChaCha20(key, nonce, counter 0)(payload), *)
(*                          recomputed here with the executable reference; /decrypt: a (large) *)
(*                          frame of the right length does not decrypt to the payload; /crafted-frame: *)
(*                          the harness' own frame is not the reference encryption            *)
(*   oversized-sent         send() above max returned true, or a frame above max is on the wire *)
(*   oversized-accepted     the handler received more than max bytes                           *)
(*   oversized-frame-session-stays-open   after an announcement above max the session is still *)
(*                          connected / the socket still open at the next quiescent point, or   *)
(*                          (/later-frame-delivered) a frame written after it was delivered     *)
(*   oversized-buffered     after such an announcement a SessionManager thread allocated more   *)
(*                          than max + 4096 bytes at once                                        *)
EXTENDS TraceKit, TransportContract, ChaCha20

VARIABLES l, viol, poisoned, key, max, pend, done, nonces, closing, later, ooo, stats, res
vars == <<l, viol, poisoned, key, max, pend, done, nonces, closing, later, ooo, stats, res>>

Stat0 == [behaviours |-> 0, sends |-> 0, refusedbig |-> 0, delivered |-> 0, wire |-> 0, atlimit |-> 0, empty |-> 0,
          cipher |-> 0, blocks |-> 0, oversized |-> 0, closed |-> 0, quiescent |-> 0, lanes |-> 0]
Inc(s, k, d) == [s EXCEPT ![k] = @ + d]

Init == /\ l = 1 /\ viol = <<>> /\ poisoned = FALSE /\ key = <<>> /\ max = 1048576 /\ pend = <<>> /\ done = {}
        /\ nonces = {} /\ closing = {} /\ later = {} /\ ooo = FALSE /\ stats = Stat0 /\ res = <<>>

\* 32-bit quantity as [hi16, lo16] (TLC integers are 32-bit signed)
Over(L, m) == L[1] > m \div 65536 \/ (L[1] = m \div 65536 /\ L[2] > m % 65536)
\* dir is "<sender><receiver>" over the real nodes "A", "B" and the harness "H"
Sender(dir) == CASE dir \in {"AB", "AH"} -> "A" [] dir \in {"BA", "BH"} -> "B" [] OTHER -> "H"
Receiver(dir) == CASE dir \in {"BA", "HA"} -> "A" [] dir \in {"AB", "HB"} -> "B" [] OTHER -> "H"

Bytes(x) == Arr(x)
NBlocks(n) == (n + 63) \div 64

\* reference cipher of the event's plaintext, evaluated once per event (bound to res')
Ref(e) == IF e.op \in {"wire", "raw"} /\ Has(e, "ct") /\ Has(e, "pt") /\ key # <<>>
            THEN ChaCha20Xor(key, Bytes(e.nonce), <<0, 0>>, Bytes(e.pt)) ELSE <<>>

\* delivery of (d, n, h) against pend: <<class, index>>
Classify(d, n, h) ==
    LET hm == HeadMatches(pend, d, n, h)
        am == AnyMatches(pend, d, n, h)
    IN IF hm # {} THEN <<"head", MinOf(hm)>>
       ELSE IF am # {} THEN <<"later", MinOf(am)>>
       ELSE IF <<d, n, h>> \in done THEN <<"dup", 0>>
       ELSE <<"unknown", 0>>

SameLenHead(d, n) == \E i \in 1..Len(pend) : pend[i].dir = d /\ pend[i].n = n /\ LaneHead(pend, i)

Step(e) ==
  /\ res' = Ref(e)
  /\ CASE e.op = "reset" ->
        \* keep = 1: the same real manager connects again under the same key -- the nonces it used so far stay used
        /\ key' = Bytes(e.key) /\ max' = e.max /\ pend' = <<>> /\ done' = {}
        /\ nonces' = IF "keep" \in DOMAIN e /\ e.keep = 1 /\ Bytes(e.key) = key THEN nonces ELSE {}
        /\ closing' = {} /\ later' = {}
        /\ ooo' = FALSE /\ poisoned' = FALSE /\ stats' = Inc(stats, "behaviours", 1)
        /\ UNCHANGED viol      \* a session that does not come up is not C14's business (the driver reports it)
    [] e.op = "send" ->
        LET snd == Sender(e.dir)
            quiet == snd \notin closing /\ Receiver(e.dir) \notin closing
            bad == (IF e.n > max /\ e.ok THEN {"C14.oversized-sent"} ELSE {})
                   \cup (IF e.n <= max /\ ~e.ok /\ e.conn /\ quiet THEN {"C14.lost/send-refused"} ELSE {})
        \* (a node that is about to end the session may still get frames out: they are expected on the wire but not owed, see state)
        IN /\ pend' = IF e.ok /\ e.n <= max THEN Append(pend, [dir |-> e.dir, lane |-> e.lane, n |-> e.n, h |-> e.h]) ELSE pend
           /\ viol' = IF bad = {} THEN viol ELSE Append(viol, Fail(l, bad, [op |-> "send", dir |-> e.dir, n |-> e.n, ok |-> e.ok]))
           /\ stats' = Inc(Inc(Inc(stats, "sends", 1), "refusedbig", IF e.n > max /\ ~e.ok THEN 1 ELSE 0), "lanes", IF e.lane \notin {"0", "ack", "H"} THEN 1 ELSE 0)
           /\ UNCHANGED <<key, max, done, nonces, closing, later, ooo, poisoned>>
    [] e.op = "raw" ->
        LET rcv == Receiver(e.dir)
            big == Over(e.L, max)
            bad == IF Has(e, "ct") /\ Has(e, "pt") /\ Bytes(e.ct) # res' THEN {"C14.cipher-mismatch/crafted-frame"} ELSE {}
        IN /\ closing' = IF big /\ e.hdr THEN closing \cup {rcv} ELSE closing
           /\ pend' = IF ~big /\ e.valid /\ e.wok /\ rcv \notin closing THEN Append(pend, [dir |-> e.dir, lane |-> "H", n |-> e.n, h |-> e.h]) ELSE pend
           /\ later' = IF ~big /\ e.valid /\ rcv \in closing THEN later \cup {<<e.dir, e.n, e.h>>} ELSE later
           /\ viol' = IF bad = {} THEN viol ELSE Append(viol, Fail(l, bad, [op |-> "raw", n |-> e.n]))
           /\ stats' = Inc(Inc(Inc(stats, "oversized", IF big THEN 1 ELSE 0), "cipher", IF Has(e, "ct") THEN 1 ELSE 0), "blocks", IF Has(e, "ct") THEN NBlocks(e.n) ELSE 0)
           /\ UNCHANGED <<key, max, done, nonces, ooo, poisoned>>
    [] e.op \in {"deliver", "wire"} ->
        LET isw == e.op = "wire"
            rcv == Receiver(e.dir)
            \* a frame cut short by the end of the session is not a frame: it is only looked at for its announced length
            cut == isw /\ e.trunc
            cl == IF cut THEN <<"cut", 0>> ELSE Classify(e.dir, e.n, e.h)
            afterBig == rcv \in closing /\ cl[1] \in {"unknown", "dup"}
            match == IF poisoned \/ afterBig THEN {}
                     ELSE IF cl[1] = "dup" THEN {"C14.duplicated"}
                     ELSE IF cl[1] = "unknown" THEN
                          (IF isw /\ ~Over(e.L, max) /\ SameLenHead(e.dir, e.n) THEN {"C14.cipher-mismatch/decrypt"} ELSE {"C14.corrupted"})
                     ELSE {}
            big == (IF ~isw /\ e.n > max THEN {"C14.oversized-accepted"} ELSE {})
                   \cup (IF isw /\ Over(e.L, max) THEN {"C14.oversized-sent"} ELSE {})
                   \cup (IF afterBig /\ <<e.dir, e.n, e.h>> \in later THEN {"C14.oversized-frame-session-stays-open/later-frame-delivered"}
                         ELSE IF afterBig /\ e.n <= max THEN {"C14.oversized-frame-session-stays-open"} ELSE {})
            nz == IF isw /\ <<Sender(e.dir), e.nonce>> \in nonces THEN {"C14.nonce-reused"} ELSE {}   \* (also for a cut frame: its nonce was drawn)
            enc == IF ~isw \/ cut \/ e.n = 0 \/ Over(e.L, max) THEN {}
                   ELSE IF Has(e, "ct") /\ Has(e, "pt")
                        THEN (IF Bytes(e.ct) # res' THEN {"C14.cipher-mismatch"} ELSE {})
                             \cup (IF Bytes(e.ct) = Bytes(e.pt) /\ res' # Bytes(e.pt) THEN {"C14.plaintext-on-wire"} ELSE {})
                        ELSE (IF e.cth = e.h /\ e.n >= 16 THEN {"C14.plaintext-on-wire"} ELSE {})
            \* the body is byte for byte a payload this node was asked to send (whatever the harness' decryption made of it)
            clear == IF isw /\ ~cut /\ e.n >= 16 /\ (\E i \in 1..Len(pend) : pend[i].dir = e.dir /\ pend[i].n = e.n /\ pend[i].h = e.cth /\ LaneHead(pend, i))
                     THEN {"C14.plaintext-on-wire"} ELSE {}
            bad == match \cup big \cup nz \cup enc \cup clear
        IN /\ pend' = IF cl[1] \in {"head", "later"} THEN DropAt(pend, cl[2]) ELSE pend
           /\ done' = IF cl[1] \in {"head", "later"} THEN done \cup {<<e.dir, e.n, e.h>>} ELSE done
           /\ ooo' = (ooo \/ cl[1] = "later")
           /\ nonces' = IF isw THEN nonces \cup {<<Sender(e.dir), e.nonce>>} ELSE nonces
           /\ poisoned' = (poisoned \/ match # {})
           /\ viol' = IF bad = {} THEN viol ELSE Append(viol, Fail(l, bad, [op |-> e.op, dir |-> e.dir, n |-> e.n, h |-> e.h]))
           /\ stats' = Inc(Inc(Inc(Inc(Inc(stats, IF isw THEN "wire" ELSE "delivered", 1), "atlimit", IF e.n = max THEN 1 ELSE 0), "empty", IF e.n = 0 THEN 1 ELSE 0),
                                   "cipher", IF isw /\ Has(e, "ct") THEN 1 ELSE 0), "blocks", IF isw /\ Has(e, "ct") THEN NBlocks(e.n) ELSE 0)
           /\ UNCHANGED <<key, max, closing, later>>
    [] e.op = "alloc" ->
        LET bad == IF closing # {} THEN {"C14.oversized-buffered"} ELSE {}
        IN /\ viol' = IF bad = {} THEN viol ELSE Append(viol, Fail(l, bad, [op |-> "alloc", n |-> e.n]))
           /\ UNCHANGED <<key, max, pend, done, nonces, closing, later, ooo, poisoned, stats>>
    [] e.op = "state" ->
        LET flag(x) == IF x = "A" THEN e.ca ELSE e.cb
            open == {x \in closing : flag(x) = 1 \/ ~e.hc}
            \* what a node had in flight when it ended the session over an oversized announcement is not covered by the statement
            owed == {i \in 1..Len(pend) : Sender(pend[i].dir) \notin closing}
            bad == (IF ~poisoned /\ owed # {} THEN {"C14.lost"} ELSE {})
                   \cup (IF ~poisoned /\ owed = {} /\ ooo THEN {"C14.reordered"} ELSE {})
                   \cup (IF open # {} THEN {"C14.oversized-frame-session-stays-open"} ELSE {})
                   \cup (IF closing # {} /\ Over(e.alloc, max + 4096) THEN {"C14.oversized-buffered"} ELSE {})
        IN /\ viol' = IF bad = {} THEN viol ELSE Append(viol, Fail(l, bad, [op |-> "state", pending |-> Len(pend), ca |-> e.ca, cb |-> e.cb, hc |-> e.hc, timedout |-> e.timedout]))
           /\ poisoned' = (poisoned \/ bad \cap {"C14.lost", "C14.reordered"} # {})
           /\ stats' = Inc(Inc(stats, "quiescent", 1), "closed", IF closing # {} /\ open = {} THEN 1 ELSE 0)
           /\ UNCHANGED <<key, max, pend, done, nonces, closing, later, ooo>>
    [] OTHER -> UNCHANGED <<viol, poisoned, key, max, pend, done, nonces, closing, later, ooo, stats>>

Next == l <= Len(T) /\ l' = l + 1 /\ Step(T[l])
Spec == Init /\ [][Next]_vars
Done == Report(l, viol, stats)
=============================================================================
