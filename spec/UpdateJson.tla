---------------------------- MODULE UpdateJson ----------------------------
(* C38 -- document builder (TLC enumerates the documents) and a code-shaped model of          *)
(* parse_update_metadata (src/core/UpdateCheck.cpp) checked against the contract.  One state  *)
(* = one document, derived from a base document by one builder step: a string variant in a  *)
(* slot (every escape incl. surrogate pairs, raw UTF-8), a field made missing / non-string,   *)
(* an extra nested member, white space, or truncation after n bytes (every prefix, hence      *)
(* every token boundary).  Deep nesting (10^3, 10^5) is exported as a descriptor only; the    *)
(* driver builds those bytes and only totality is judged for them.                            *)
EXTENDS UpdateJsonContract, TLC

CONSTANTS SplitSurrogates,   \* TRUE: each \uXXXX unit is encoded on its own (historical decoding) -- must violate the contract
          Depths             \* nesting depths whose bytes are built here (small); big depths are descriptors

Variants == {"u07ff", "u0800", "u0080", "plain", "quote", "backslash", "slash", "b", "f", "n", "r", "t", "u0041", "u00e9", "u00E9", "u20ac", "u0000", "uffff", "ud7ff", "ue000", "pair", "PAIR", "pairmid", "pairmin", "pairmax", "pairpair", "raw2", "raw3", "raw4", "empty"}
VSrc(x) == CASE x = "u07ff" -> <<92, 117, 48, 55, 102, 102>>
           [] x = "u0800" -> <<92, 117, 48, 56, 48, 48>>
           [] x = "u0080" -> <<92, 117, 48, 48, 56, 48>>
           [] x = "plain" -> <<97, 98, 99>>
           [] x = "quote" -> <<92, 34>>
           [] x = "backslash" -> <<92, 92>>
           [] x = "slash" -> <<92, 47>>
           [] x = "b" -> <<92, 98>>
           [] x = "f" -> <<92, 102>>
           [] x = "n" -> <<92, 110>>
           [] x = "r" -> <<92, 114>>
           [] x = "t" -> <<92, 116>>
           [] x = "u0041" -> <<92, 117, 48, 48, 52, 49>>
           [] x = "u00e9" -> <<92, 117, 48, 48, 101, 57>>
           [] x = "u00E9" -> <<92, 117, 48, 48, 69, 57>>
           [] x = "u20ac" -> <<92, 117, 50, 48, 97, 99>>
           [] x = "u0000" -> <<120, 92, 117, 48, 48, 48, 48, 121>>
           [] x = "uffff" -> <<92, 117, 102, 102, 102, 102>>
           [] x = "ud7ff" -> <<92, 117, 100, 55, 102, 102>>
           [] x = "ue000" -> <<92, 117, 101, 48, 48, 48>>
           [] x = "pair" -> <<92, 117, 100, 56, 51, 100, 92, 117, 100, 101, 48, 48>>
           [] x = "PAIR" -> <<92, 117, 68, 56, 51, 68, 92, 117, 68, 69, 48, 48>>
           [] x = "pairmid" -> <<97, 92, 117, 100, 56, 51, 100, 92, 117, 100, 101, 48, 48, 98>>
           [] x = "pairmin" -> <<92, 117, 100, 56, 48, 48, 92, 117, 100, 99, 48, 48>>
           [] x = "pairmax" -> <<92, 117, 100, 98, 102, 102, 92, 117, 100, 102, 102, 102>>
           [] x = "pairpair" -> <<92, 117, 100, 56, 51, 100, 92, 117, 100, 101, 48, 48, 92, 117, 100, 56, 51, 100, 92, 117, 100, 101, 48, 49>>
           [] x = "raw2" -> <<195, 169>>
           [] x = "raw3" -> <<226, 130, 172>>
           [] x = "raw4" -> <<240, 159, 152, 128>>
           [] x = "empty" -> <<>>
VVal(x) == CASE x = "u07ff" -> <<223, 191>>
           [] x = "u0800" -> <<224, 160, 128>>
           [] x = "u0080" -> <<194, 128>>
           [] x = "plain" -> <<97, 98, 99>>
           [] x = "quote" -> <<34>>
           [] x = "backslash" -> <<92>>
           [] x = "slash" -> <<47>>
           [] x = "b" -> <<8>>
           [] x = "f" -> <<12>>
           [] x = "n" -> <<10>>
           [] x = "r" -> <<13>>
           [] x = "t" -> <<9>>
           [] x = "u0041" -> <<65>>
           [] x = "u00e9" -> <<195, 169>>
           [] x = "u00E9" -> <<195, 169>>
           [] x = "u20ac" -> <<226, 130, 172>>
           [] x = "u0000" -> <<120, 0, 121>>
           [] x = "uffff" -> <<239, 191, 191>>
           [] x = "ud7ff" -> <<237, 159, 191>>
           [] x = "ue000" -> <<238, 128, 128>>
           [] x = "pair" -> <<240, 159, 152, 128>>
           [] x = "PAIR" -> <<240, 159, 152, 128>>
           [] x = "pairmid" -> <<97, 240, 159, 152, 128, 98>>
           [] x = "pairmin" -> <<240, 144, 128, 128>>
           [] x = "pairmax" -> <<244, 143, 191, 191>>
           [] x = "pairpair" -> <<240, 159, 152, 128, 240, 159, 152, 129>>
           [] x = "raw2" -> <<195, 169>>
           [] x = "raw3" -> <<226, 130, 172>>
           [] x = "raw4" -> <<240, 159, 152, 128>>
           [] x = "empty" -> <<>>

Slots == {"version", "notes_url", "platform", "url", "sha256", "arch"}
Fields == {"version", "tag", "commit", "channel", "generated_at", "notes_url", "downloads", "url", "arch", "format", "sha256"}
Disps == {"missing", "number", "null", "array", "object", "true"}
DispSrc(d) == CASE d = "number" -> <<45, 49, 46, 53, 101, 51>> [] d = "null" -> <<110, 117, 108, 108>> [] d = "array" -> <<91, 34, 120, 34, 93>> [] d = "object" -> <<123, 34, 121, 34, 58, 34, 122, 34, 125>> [] d = "true" -> <<116, 114, 117, 101>>

Q(src) == <<34>> \o src \o <<34>>
Join(parts, sep) == FoldLeft(LAMBDA acc, i : acc \o (IF i > 1 THEN sep ELSE <<>>) \o parts[i], <<>>, [i \in 1..Len(parts) |-> i])
\* default JSON source of every string value (between the quotes); notes_url carries escapes so that
\* truncation also cuts inside escapes and inside a surrogate pair
Default(f) == CASE f = "version" -> <<49, 46, 50, 46, 51>> [] f = "tag" -> <<118, 49, 46, 50, 46, 51>> [] f = "commit" -> <<97, 98, 99, 49, 50, 51>> [] f = "channel" -> <<115, 116, 97, 98, 108, 101>> [] f = "generated_at" -> <<50, 48, 50, 53, 45, 49, 49, 45, 50, 52, 84, 48, 48, 58, 48, 48, 58, 48, 48, 90>>
                [] f = "notes_url" -> <<104, 116, 116, 112, 115, 58, 47, 47, 101, 46, 120, 47, 114, 92, 117, 48, 48, 101, 57, 92, 117, 100, 56, 51, 100, 92, 117, 100, 101, 48, 48, 92, 110>> [] f = "url" -> <<104, 116, 116, 112, 115, 58, 47, 47, 101, 46, 120, 47, 108, 105, 110, 117, 120>> [] f = "arch" -> <<120, 54, 52>> [] f = "format" -> <<116, 97, 114, 46, 103, 122>> [] f = "sha256" -> <<100, 101, 97, 100, 98, 101, 101, 102>>
                [] f = "platform" -> <<108, 105, 110, 117, 120>>

KeyOf(f) == CASE f = "version" -> K_version [] f = "tag" -> K_tag [] f = "commit" -> K_commit [] f = "channel" -> K_channel
              [] f = "generated_at" -> K_generated_at [] f = "notes_url" -> K_notes_url [] f = "downloads" -> K_downloads
              [] f = "url" -> K_url [] f = "arch" -> K_arch [] f = "format" -> K_format [] f = "sha256" -> K_sha256
\* c = [slot, variant, field, disp, extra, ws]: the value source of string field f
Src(c, f) == IF c.slot = f THEN VSrc(c.variant) ELSE Default(f)
Member(c, f, valueSrc) == IF c.field = f /\ c.disp = "missing" THEN <<>>
                          ELSE <<Q(KeyOf(f)) \o c.ws \o <<58>> \o c.ws \o (IF c.field = f THEN DispSrc(c.disp) ELSE valueSrc)>>
Nest(open, close, d) == FoldLeft(LAMBDA acc, i : open \o acc \o close, <<>>, [i \in 1..d |-> i])
ObjNest(d) == FoldLeft(LAMBDA acc, i : <<123, 34, 97, 34, 58>> \o acc \o <<125>>, <<123, 125>>, [i \in 1..(d - 1) |-> i])   \* d objects deep
ExtraSrc(e) == CASE e.k = "none" -> <<>>
                 [] e.k = "arr" -> <<Q(<<120>>) \o <<58>> \o Nest(<<91>>, <<93>>, e.d)>>
                 [] e.k = "obj" -> <<Q(<<120>>) \o <<58>> \o ObjNest(e.d)>>
                 [] e.k = "nums" -> <<Q(<<120>>) \o <<58>> \o <<91, 48, 44, 45, 49, 44, 49, 46, 53, 44, 49, 101, 57, 44, 45, 50, 46, 53, 69, 45, 51, 44, 48, 46, 48, 44, 116, 114, 117, 101, 44, 102, 97, 108, 115, 101, 44, 110, 117, 108, 108, 44, 34, 115, 34, 44, 123, 125, 44, 91, 93, 93>>>>
Platform(c) ==
    LET inner == Member(c, "url", Q(Src(c, "url"))) \o Member(c, "arch", Q(Src(c, "arch"))) \o Member(c, "format", Q(Src(c, "format")))
                 \o Member(c, "sha256", Q(Src(c, "sha256")))
    IN Q(Src(c, "platform")) \o <<58>> \o <<123>> \o Join(inner, <<44>> \o c.ws) \o <<125>>
Doc(c) ==
    LET ms == Member(c, "version", Q(Src(c, "version"))) \o Member(c, "tag", Q(Default("tag"))) \o Member(c, "commit", Q(Default("commit")))
              \o Member(c, "channel", Q(Default("channel"))) \o Member(c, "generated_at", Q(Default("generated_at")))
              \o Member(c, "notes_url", Q(Src(c, "notes_url")))
              \o Member(c, "downloads", <<123>> \o c.ws \o Platform(c) \o c.ws \o <<125>>)
              \o ExtraSrc(c.extra)
    IN c.ws \o <<123>> \o c.ws \o Join(ms, <<44>> \o c.ws) \o c.ws \o <<125>> \o c.ws
Base == [slot |-> "none", variant |-> "plain", field |-> "none", disp |-> "none", extra |-> [k |-> "none", d |-> 0], ws |-> <<>>]
BaseDoc == Doc(Base)

VARIABLE hist
Mk(kind, c, cut, bytes) == [kind |-> kind, slot |-> c.slot, variant |-> c.variant, field |-> c.field, disp |-> c.disp,
                            extra |-> c.extra.k, depth |-> c.extra.d, cut |-> cut, bytes |-> bytes]
Init == hist = Mk("base", Base, -1, BaseDoc)
SetString == \E s \in Slots, v \in Variants : LET c == [Base EXCEPT !.slot = s, !.variant = v] IN hist' = Mk("string", c, -1, Doc(c))
SetDisp == \E f \in Fields, d \in Disps : LET c == [Base EXCEPT !.field = f, !.disp = d] IN hist' = Mk("disp", c, -1, Doc(c))
AddNest == \E k \in {"arr", "obj"}, d \in Depths : LET c == [Base EXCEPT !.extra = [k |-> k, d |-> d]] IN hist' = Mk("nest", c, -1, Doc(c))
AddNums == LET c == [Base EXCEPT !.extra = [k |-> "nums", d |-> 0]] IN hist' = Mk("nums", c, -1, Doc(c))
TopNest == \E k \in {"arr", "obj"}, d \in Depths :
             hist' = Mk("topnest", [Base EXCEPT !.extra = [k |-> k, d |-> d]], -1,
                        IF k = "arr" THEN Nest(<<91>>, <<93>>, d) ELSE ObjNest(d))
WhiteSpace == \E w \in {<<32>>, <<10>>, <<13, 10, 9>>} : LET c == [Base EXCEPT !.ws = w] IN hist' = Mk("ws", c, -1, Doc(c))
Truncate == \E n \in 0..(Len(BaseDoc) - 1) : hist' = Mk("cut", Base, n, SubSeq(BaseDoc, 1, n))
Next == hist.kind = "base" /\ (SetString \/ SetDisp \/ AddNest \/ AddNums \/ TopNest \/ WhiteSpace \/ Truncate)
Spec == Init /\ [][Next]_hist

\* ---- design: parse_update_metadata as written, on top of the lexer/grammar (SplitSurrogates = its \u decoding) ----
FirstAt(mem, path) == LET I == {i \in DOMAIN mem : mem[i].path = path} IN IF I = {} THEN 0 ELSE CHOOSE i \in I : \A j \in I : i <= j
StrField(mem, path) == LET i == FirstAt(mem, path) IN IF i # 0 /\ mem[i].k = "s" THEN [has |-> TRUE, v |-> mem[i].v] ELSE [has |-> FALSE, v |-> <<>>]
NoResult(msg) == [ok |-> FALSE, err |-> msg, fields |-> [version |-> <<>>, tag |-> <<>>, commit |-> <<>>, channel |-> <<>>, generated_at |-> <<>>],
                  has_notes |-> FALSE, notes |-> <<>>, downloads |-> <<>>]
Design(doc) ==
    LET p == ParseWith(doc, SplitSurrogates)
        mem == p.mem
        req(k) == StrField(mem, <<k>>)
        di == FirstAt(mem, <<K_downloads>>)
        platIdx == SelectSeq([i \in 1..Len(mem) |-> i], LAMBDA i : Len(mem[i].path) = 2 /\ mem[i].path[1] = K_downloads /\ mem[i].k = "{")
        dl == [j \in 1..Len(platIdx) |->
                 LET pl == mem[platIdx[j]].path[2]
                     f(k) == StrField(mem, <<K_downloads, pl, k>>)
                 IN [platform |-> pl, url |-> f(K_url).v, hasurl |-> f(K_url).has, arch |-> f(K_arch).v, format |-> f(K_format).v,
                     has_sha |-> f(K_sha256).has, sha256 |-> f(K_sha256).v]]
    IN IF ~p.ok THEN NoResult(p.err)
       ELSE IF ~TopIsObject(mem) THEN NoResult("Version metadata must be a JSON object")
       ELSE IF \E i \in 1..Len(Required) : ~req(Required[i].k).has THEN NoResult("Missing or invalid string field")
       ELSE IF di = 0 \/ mem[di].k # "{" THEN NoResult("Downloads block missing or invalid")
       ELSE IF \E j \in 1..Len(dl) : ~dl[j].hasurl THEN NoResult("Missing or invalid string field: url")
       ELSE IF dl = <<>> THEN NoResult("No valid downloads found in metadata")
       ELSE [ok |-> TRUE, err |-> "",
             fields |-> [version |-> req(K_version).v, tag |-> req(K_tag).v, commit |-> req(K_commit).v, channel |-> req(K_channel).v,
                         generated_at |-> req(K_generated_at).v],
             has_notes |-> req(K_notes_url).has, notes |-> req(K_notes_url).v, downloads |-> dl]

\* ---- invariants ---------------------------------------------------------------------------------
C38_DesignMeetsContract == ResultClauses(hist.bytes, Design(hist.bytes)) = {}
\* the reference decodes every string variant to the bytes written down independently in VVal
SlotPath(s) == CASE s = "version" -> <<K_version>> [] s = "notes_url" -> <<K_notes_url>> [] s = "url" -> <<K_downloads, Default("platform"), K_url>>
                 [] s = "sha256" -> <<K_downloads, Default("platform"), K_sha256>> [] s = "arch" -> <<K_downloads, Default("platform"), K_arch>>
RefDecodesIntended ==
    hist.kind = "string" =>
       LET p == Parse(hist.bytes) IN
       /\ Determined(p)
       /\ IF hist.slot = "platform" THEN Platforms(p.mem) = {VVal(hist.variant)}
          ELSE HasStr(p.mem, SlotPath(hist.slot)) /\ StrAt(p.mem, SlotPath(hist.slot)) = VVal(hist.variant)
\* every proper prefix of the base document is rejected by the reference; the untouched variants are accepted
RefValidity == /\ (hist.kind = "cut" => ~Parse(hist.bytes).ok)
               /\ (hist.kind \in {"base", "string", "disp", "nest", "nums", "ws", "topnest"} => Parse(hist.bytes).ok)
DesignTotalOnCases == Design(hist.bytes).ok \/ Design(hist.bytes).err # ""
Reach_SuccessWithPair == ~(hist.kind = "string" /\ hist.variant = "pair" /\ Design(hist.bytes).ok)
Reach_CutInsidePair == ~(hist.kind = "cut" /\ hist.cut > 0 /\ hist.bytes[hist.cut] = 92 /\ Lex(hist.bytes, FALSE).hi # 0)
=============================================================================
