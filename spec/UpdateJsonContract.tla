------------------------ MODULE UpdateJsonContract ------------------------
(* C38 -- what the property fixes about parse_update_metadata: a result is produced for     *)
(* every byte string (the driver reports crashes / hangs as events), a failure carries a     *)
(* message, and on success every reported field equals the RFC 8259 value of the             *)
(* corresponding JSON string of the document (reference: JsonRef).  Where the statement is   *)
(* silent -- documents that are not valid JSON, unpaired surrogates, duplicate keys, fields  *)
(* that are absent -- nothing is demanded.                                                     *)
EXTENDS JsonRef

K_version == <<118, 101, 114, 115, 105, 111, 110>>    \* "version"
K_tag == <<116, 97, 103>>    \* "tag"
K_commit == <<99, 111, 109, 109, 105, 116>>    \* "commit"
K_channel == <<99, 104, 97, 110, 110, 101, 108>>    \* "channel"
K_generated_at == <<103, 101, 110, 101, 114, 97, 116, 101, 100, 95, 97, 116>>    \* "generated_at"
K_notes_url == <<110, 111, 116, 101, 115, 95, 117, 114, 108>>    \* "notes_url"
K_downloads == <<100, 111, 119, 110, 108, 111, 97, 100, 115>>    \* "downloads"
K_url == <<117, 114, 108>>    \* "url"
K_arch == <<97, 114, 99, 104>>    \* "arch"
K_format == <<102, 111, 114, 109, 97, 116>>    \* "format"
K_sha256 == <<115, 104, 97, 50, 53, 54>>    \* "sha256"

Required == <<[n |-> "version", k |-> K_version], [n |-> "tag", k |-> K_tag], [n |-> "commit", k |-> K_commit],
              [n |-> "channel", k |-> K_channel], [n |-> "generated_at", k |-> K_generated_at]>>
TopIsObject(mem) == Len(mem) >= 1 /\ mem[1].path = <<>> /\ mem[1].k = "{"
Platforms(mem) == {mem[i].path[2] : i \in {j \in DOMAIN mem : Len(mem[j].path) = 2 /\ mem[j].path[1] = K_downloads /\ mem[j].k = "{"}}
\* the document determines the fields: valid JSON, an object, no unpaired surrogate escape, no duplicate key
Determined(p) == p.ok /\ ~p.lone /\ TopIsObject(p.mem) /\ Unambiguous(p.mem)

(* r = [ok, err, fields (record name -> bytes), has_notes, notes, downloads (sequence of      *)
(* [platform, url, arch, format, has_sha, sha256])].  A mismatch that is exactly the           *)
(* unit-by-unit (CESU-8) decoding of an escaped surrogate pair gets its own clause id.          *)
Mis(name, mem, smem, path, reported) ==
    IF ~HasStr(mem, path) \/ reported = StrAt(mem, path) THEN {}
    ELSE IF HasStr(smem, path) /\ reported = StrAt(smem, path) THEN {"C38.surrogate-pair-split"}
    ELSE {"C38.field-mismatch/" \o name}
DownloadClauses(mem, smem, d) ==
    IF d.platform \notin Platforms(mem)
      THEN {IF d.platform \in Platforms(smem) THEN "C38.surrogate-pair-split" ELSE "C38.field-mismatch/downloads.platform"} ELSE
    LET at(k) == <<K_downloads, d.platform, k>> IN
    Mis("downloads.url", mem, smem, at(K_url), d.url) \cup Mis("downloads.arch", mem, smem, at(K_arch), d.arch)
    \cup Mis("downloads.format", mem, smem, at(K_format), d.format)
    \cup (IF ~d.has_sha THEN {} ELSE IF ~HasStr(mem, at(K_sha256)) THEN {"C38.field-mismatch/downloads.sha256"}
          ELSE Mis("downloads.sha256", mem, smem, at(K_sha256), d.sha256))
ResultClauses(doc, r) ==
    IF ~r.ok THEN (IF r.err = "" THEN {"C38.failure-without-message"} ELSE {})
    ELSE LET p == Parse(doc)
             smem == ParseWith(doc, TRUE).mem
         IN
         IF ~Determined(p) THEN {} ELSE
         UNION {Mis(Required[i].n, p.mem, smem, <<Required[i].k>>, r.fields[Required[i].n]) : i \in 1..Len(Required)}
         \cup (IF ~r.has_notes THEN {} ELSE IF ~HasStr(p.mem, <<K_notes_url>>) THEN {"C38.field-mismatch/notes_url"}
               ELSE Mis("notes_url", p.mem, smem, <<K_notes_url>>, r.notes))
         \cup UNION {DownloadClauses(p.mem, smem, r.downloads[i]) : i \in DOMAIN r.downloads}
\* a driver process that died inside the call
DiedClause(how) == "C38." \o (IF how \in {"stack-overflow", "sanitizer/stack-overflow"} THEN "crash/stack-overflow"
                              ELSE IF how = "hang" THEN "crash/hang"
                              ELSE IF how = "sanitizer/undefined-behaviour" THEN "sanitizer/undefined-behaviour"
                              ELSE IF SubSeq(how, 1, 10) = "sanitizer/" THEN how ELSE "crash/" \o how)
=============================================================================
