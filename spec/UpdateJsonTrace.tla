--------------------------- MODULE UpdateJsonTrace ---------------------------
(* Trace specification for C38: every event is one call of the real parse_update_metadata   *)
(* (document, result, reported fields) or a driver process that died inside the call         *)
(* (stack overflow, crash, sanitizer abort, watchdog).  Documents too large to log carry no   *)
(* bytes: only totality is judged for them.                                                   *)
EXTENDS TraceKit, UpdateJsonContract

VARIABLES l, viol, nchecked, nok, ncompared
vars == <<l, viol, nchecked, nok, ncompared>>
Init == l = 1 /\ viol = <<>> /\ nchecked = 0 /\ nok = 0 /\ ncompared = 0

Dl(e) == LET d == Arr(e.downloads) IN
         [i \in DOMAIN d |-> [platform |-> Arr(d[i].platform), url |-> Arr(d[i].url), arch |-> Arr(d[i].arch), format |-> Arr(d[i].format),
                              has_sha |-> d[i].has_sha, sha256 |-> Arr(d[i].sha256)]]
Res(e) == IF e.ok THEN [ok |-> TRUE, err |-> e.err,
                        fields |-> [version |-> Arr(e.fields.version), tag |-> Arr(e.fields.tag), commit |-> Arr(e.fields.commit),
                                    channel |-> Arr(e.fields.channel), generated_at |-> Arr(e.fields.generated_at)],
                        has_notes |-> e.has_notes, notes |-> Arr(e.notes), downloads |-> Dl(e)]
          ELSE [ok |-> FALSE, err |-> e.err]
Brief(e) == [src |-> Fld(e, "src", ""), n |-> Fld(e, "n", 0), ok |-> Fld(e, "ok", FALSE), err |-> Fld(e, "err", ""), how |-> Fld(e, "how", ""),
             detail |-> Fld(e, "detail", "")]
Step(e) ==
  CASE e.op = "parse" ->
        LET bad == IF Has(e, "doc") THEN ResultClauses(Arr(e.doc), Res(e))
                   ELSE (IF ~e.ok /\ e.err = "" THEN {"C38.failure-without-message"} ELSE {})
        IN /\ viol' = IF bad = {} THEN viol ELSE Append(viol, Fail(l, bad, Brief(e)))
           /\ nchecked' = nchecked + 1 /\ nok' = nok + (IF e.ok THEN 1 ELSE 0)
           /\ ncompared' = ncompared + (IF e.ok /\ Has(e, "doc") /\ Determined(Parse(Arr(e.doc))) THEN 1 ELSE 0)
    [] e.op = "died" ->
        /\ viol' = Append(viol, Fail(l, {DiedClause(e.how)}, Brief(e)))
        /\ nchecked' = nchecked + 1 /\ UNCHANGED <<nok, ncompared>>
    [] OTHER -> UNCHANGED <<viol, nchecked, nok, ncompared>>
Next == l <= Len(T) /\ l' = l + 1 /\ Step(T[l])
Spec == Init /\ [][Next]_vars
Done == Report(l, viol, [checked |-> nchecked, ok |-> nok, compared |-> ncompared])
=============================================================================
