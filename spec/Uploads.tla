------------------------------ MODULE Uploads ------------------------------
(* Upload scheduler of a node (C23): design level shaped like src/core/Node.cpp             *)
(*   handle_request -> enqueue_upload_request -> process_pending_uploads                    *)
(*   process_pending_uploads = prune_stale_uploads ; rotation ; loop over the queue         *)
(*       (can_accept_more_uploads / can_dispatch_upload / dispatch_upload)                  *)
(*   dispatch_upload -> note_upload_start   (map keyed peer:chunk + counter per peer)       *)
(*   handle_acknowledge -> note_upload_end -> process_pending_uploads                       *)
(* plus the ghost state the contract (UploadsContract.tla) talks about: the chunk frames    *)
(* actually sent, their acknowledgements and their age.                                     *)
(*                                                                                          *)
(* Time is relative: every running upload carries its age (saturating at Timeout), so the   *)
(* state space is finite without bounding the clock.                                        *)
EXTENDS Integers, Sequences, FiniteSets, TLC, UploadsContract

CONSTANTS Peers, Chunks,
          Mortal,      \* chunks stored with a short lifetime (they become unservable as time passes)
          MortalLife,  \* that lifetime
          Flaky,       \* peers whose session may go away
          DupPeers, DupChunks,  \* model bound: only these peers x chunks are requested again while a send is unsettled
          Limits,      \* values tried for the two limits (0 = unlimited)
          Timeout,     \* upload_transfer_timeout (> 0)
          Recon,       \* upload_reconsider_interval (0 = no rotation)
          MaxQueue,    \* model bound: requests are injected only while the queue is shorter
          MaxBag,      \* model bound on unsettled sends of one (peer, chunk)
          Budget,      \* 99: unlimited requests; n < 99: at most n requests (liveness runs)
          DupCounts    \* BOOLEAN deviation (historical): a repeated start of the same peer:chunk key
                       \* overwrites the map entry but still increments the per-peer counter

Keys == Peers \X Chunks
None == -1
Forever == 99
Other == [k |-> "other", nakok |-> TRUE, qnak |-> FALSE, pruned |-> FALSE]

VARIABLES maxPar, perPeer,      \* configuration (chosen in Init, never changed)
          life,                 \* [Chunks -> Nat] remaining lifetime of the stored chunk and its manifest (0: cannot be served)
          sess,                 \* [Peers -> BOOLEAN]  peer has a transport session (it always has a key)
          queue,                \* DESIGN pending_uploads_ : Seq(Keys)
          active,               \* DESIGN active_uploads_  : [Keys -> None | age]
          inUse,                \* DESIGN active_uploads_per_peer_ : [Peers -> Nat]  (0 = no entry)
          rot,                  \* DESIGN time since last_upload_rotation_ (saturating at Recon)
          loose,                \* GHOST  [Keys -> None | age of the latest send not followed by an ack]
          strict,               \* GHOST  [Keys -> Seq(age)] sends not yet acknowledged one-for-one nor timed out
          budget,               \* requests left (liveness runs)
          last                  \* abstract of the last step: [k: "req"|"sched"|"other", nakok, qnak]
dvars == <<maxPar, perPeer, life, sess, queue, active, inUse, rot, loose, strict, budget, last>>

Min(a, b) == IF a < b THEN a ELSE b
Max(a, b) == IF a > b THEN a ELSE b
Range(s) == {s[i] : i \in DOMAIN s}

Init == /\ maxPar \in Limits /\ perPeer \in Limits
        /\ life = [c \in Chunks |-> IF c \in Mortal THEN MortalLife ELSE Forever] /\ sess = [p \in Peers |-> TRUE]
        /\ queue = <<>> /\ active = [k \in Keys |-> None] /\ inUse = [p \in Peers |-> 0] /\ rot = 0
        /\ loose = [k \in Keys |-> None] /\ strict = [k \in Keys |-> <<>>]
        /\ budget = Budget
        /\ last = Other

-----------------------------------------------------------------------------
(* DESIGN                                                                                   *)
ActiveKeys(act) == {k \in Keys : act[k] # None}

\* note_upload_end for a set of keys (each found in the map): erase, decrement (erase at <= 1)
EndAll(act, use, ks) ==
    [act |-> [k \in Keys |-> IF k \in ks THEN None ELSE act[k]],
     use |-> [p \in Peers |-> Max(0, use[p] - Cardinality({k \in ks : k[1] = p}))]]
NoteEnd(act, use, k) == IF act[k] = None THEN [act |-> act, use |-> use] ELSE EndAll(act, use, {k})
\* prune_stale_uploads: now - started_at >= timeout
Prune(act, use) == EndAll(act, use, {k \in Keys : act[k] # None /\ act[k] >= Timeout})

CanAccept(act) == maxPar = 0 \/ Cardinality(ActiveKeys(act)) < maxPar
CanDispatch(act, use, p) == CanAccept(act) /\ (perPeer = 0 \/ use[p] < perPeer)

\* the loop of process_pending_uploads; s = [q, act, use, fr, st]  (fr: frames sent, st: keys started)
RECURSIVE Loop(_, _)
Loop(s, n) ==
    IF n = 0 \/ ~CanAccept(s.act) THEN s
    ELSE LET r == Head(s.q)
             rest == Tail(s.q) IN
         IF ~CanDispatch(s.act, s.use, r[1]) THEN Loop([s EXCEPT !.q = Append(rest, r)], n - 1)
         ELSE IF life[r[2]] = 0        \* dispatch_upload: no record / manifest -> negative ack, request dropped
              THEN Loop([s EXCEPT !.q = rest, !.fr = IF sess[r[1]] THEN Append(@, <<r[1], "nak", r[2]>>) ELSE @], n - 1)
         ELSE IF ~sess[r[1]]            \* send fails: request dropped
              THEN Loop([s EXCEPT !.q = rest], n - 1)
         ELSE Loop([s EXCEPT !.q = rest,          \* note_upload_start
                             !.act[r] = 0,
                             !.use[r[1]] = IF DupCounts \/ s.act[r] = None THEN @ + 1 ELSE @,
                             !.fr = Append(@, <<r[1], "chunk", r[2]>>),
                             !.st = Append(@, r)], n - 1)

Process(q, act, use, fr) ==
    LET pr == Prune(act, use)
        rotate == Len(q) > 1 /\ Recon > 0 /\ rot >= Recon
        q1 == IF rotate THEN Append(Tail(q), Head(q)) ELSE q
        s == Loop([q |-> q1, act |-> pr.act, use |-> pr.use, fr |-> fr, st |-> <<>>], Len(q1))
    IN s @@ [rotated |-> rotate, pruned |-> (pr.act # act)]

\* ghost bookkeeping for the sends of one step (st = sequence of started keys)
RECURSIVE Started(_, _, _)
Started(lo, sr, st) ==
    IF st = <<>> THEN [lo |-> lo, sr |-> sr]
    ELSE Started([lo EXCEPT ![Head(st)] = 0], [sr EXCEPT ![Head(st)] = Append(@, 0)], Tail(st))

Apply(s, lo, sr, rec) ==
    LET g == Started(lo, sr, s.st) IN
    /\ queue' = s.q /\ active' = s.act /\ inUse' = s.use
    /\ rot' = IF s.rotated THEN 0 ELSE rot
    /\ loose' = g.lo /\ strict' = g.sr
    /\ last' = [k |-> rec, nakok |-> TRUE, qnak |-> (rec = "sched" /\ \E i \in DOMAIN s.fr : s.fr[i][2] = "nak"), pruned |-> s.pruned]

\* handle_request (the sender has a key)
Request(p, c) ==
    /\ Len(queue) < MaxQueue /\ budget # 0
    /\ Len(strict[<<p, c>>]) < (IF p \in DupPeers /\ c \in DupChunks THEN MaxBag ELSE 1)
    /\ budget' = IF budget < 99 THEN budget - 1 ELSE budget
    /\ IF life[c] = 0
         THEN \* send_negative_ack reaches the wire when the peer has a session
              /\ LET fr == IF sess[p] THEN <<<<p, "nak", c>>>> ELSE <<>> IN
                 last' = [k |-> "req", nakok |-> NakOk(sess[p], life[c] > 0, <<p, "nak", c>> \in Range(fr)), qnak |-> FALSE, pruned |-> FALSE]
              /\ UNCHANGED <<queue, active, inUse, rot, loose, strict>>
         ELSE Apply(Process(Append(queue, <<p, c>>), active, inUse, <<>>), loose, strict, "req")
    /\ UNCHANGED <<maxPar, perPeer, life, sess>>

\* handle_acknowledge (positive or negative: both end the upload)
Ack(p, c) ==
    LET k == <<p, c>>
        e == NoteEnd(active, inUse, k)
    IN /\ Apply(Process(queue, e.act, e.use, <<>>),
                [loose EXCEPT ![k] = None],
                [strict EXCEPT ![k] = IF @ = <<>> THEN @ ELSE Tail(@)],
                "sched")
       /\ UNCHANGED <<maxPar, perPeer, life, sess, budget>>

Tick == /\ Apply(Process(queue, active, inUse, <<>>), loose, strict, "sched")
        /\ UNCHANGED <<maxPar, perPeer, life, sess, budget>>

Age(a) == IF a = None THEN None ELSE Min(a + 1, Timeout)
Advance ==
    /\ active' = [k \in Keys |-> Age(active[k])]
    /\ loose' = [k \in Keys |-> IF loose[k] = None \/ loose[k] + 1 >= Timeout THEN None ELSE loose[k] + 1]   \* timed out = no longer running
    /\ strict' = [k \in Keys |-> SelectSeq([i \in DOMAIN strict[k] |-> strict[k][i] + 1], LAMBDA a : a < Timeout)]
    /\ rot' = Min(rot + 1, Recon)
    /\ last' = Other
    /\ life' = [c \in Chunks |-> IF life[c] = Forever THEN Forever ELSE Max(0, life[c] - 1)]
    /\ UNCHANGED <<maxPar, perPeer, sess, queue, inUse, budget>>

Unlink(p) == /\ p \in Flaky /\ sess[p] /\ sess' = [sess EXCEPT ![p] = FALSE]
             /\ last' = Other
             /\ UNCHANGED <<maxPar, perPeer, life, queue, active, inUse, rot, loose, strict, budget>>

-----------------------------------------------------------------------------
(* CONTRACT (C23) over the ghost state                                                      *)
RunKeys  == {k \in Keys : loose[k] # None}
BusyPeers == {k[1] : k \in {j \in Keys : strict[j] # <<>>}}

C23_Limits == LimitOk(RunKeys, maxPar, perPeer)
C23_Nak == last.nakok
\* checked where the scheduler has just run (it cannot notice a time-out before its next run)
C23_SlotsReleased == last.k = "sched" => ReleaseOk(BusyPeers, inUse, Peers)
\* design sanity: the counter is the number of map entries of the peer
D_CounterIsMapSize == \A p \in Peers : inUse[p] = Cardinality({k \in ActiveKeys(active) : k[1] = p})
TypeOK == /\ queue \in Seq(Keys) /\ \A k \in Keys : active[k] \in None..Timeout /\ loose[k] \in None..Timeout
          /\ \A p \in Peers : inUse[p] \in Nat

\* liveness (Budget < 99: finitely many requests): every started upload is eventually acked or
\* timed out and its slot freed; the queue drains
Idle == queue = <<>> /\ ActiveKeys(active) = {} /\ \A p \in Peers : inUse[p] = 0
C23_Live_SlotFreed == \A p \in Peers : (inUse[p] > 0) ~> (inUse[p] = 0)
C23_Live_Drains == <>[]Idle

-----------------------------------------------------------------------------
(* Model-checking harness                                                                   *)
VARIABLE hist
vars == <<maxPar, perPeer, life, sess, queue, active, inUse, rot, loose, strict, budget, last, hist>>

Step(H(_)) == \/ \E p \in Peers, c \in Chunks : \/ Request(p, c) /\ H([op |-> "req", p |-> p, c |-> c])
                                                \/ Ack(p, c) /\ H([op |-> "ack", p |-> p, c |-> c])
              \/ Tick /\ H([op |-> "tick"])
              \/ Advance /\ H([op |-> "adv"])
              \/ \E p \in Peers : Unlink(p) /\ H([op |-> "unlink", p |-> p])
MCInit == Init /\ hist = <<[op |-> "reset", maxpar |-> maxPar, perpeer |-> perPeer]>>
Log(a) == hist' = Append(hist, a)
NoLog(a) == hist' = hist
MCNext == Step(Log)
MCSpec == MCInit /\ [][MCNext]_vars
View == dvars

\* liveness runs: no history, weak fairness of time and of the node's tick
LInit == Init /\ hist = <<>>
LNext == Step(NoLog)
LiveSpec == LInit /\ [][LNext]_vars /\ WF_vars(Tick /\ hist' = hist) /\ WF_vars(Advance /\ hist' = hist)

\* vacuity guards (invariants that must be VIOLATED = the scenario is reachable)
Reach_DupStartWhileActive == ~(\E k \in Keys : Len(strict[k]) >= 2 /\ active[k] # None)
Reach_QueuedBehindLimit   == ~(Len(queue) >= 2 /\ ActiveKeys(active) # {})
Reach_TimeoutPrune        == ~(last.k = "sched" /\ last.pruned)
Reach_NakFromQueue        == ~last.qnak
=============================================================================
