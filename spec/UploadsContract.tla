-------------------------- MODULE UploadsContract --------------------------
(* What C23 fixes about the upload scheduler, as pure operators.  They are used by the    *)
(* design model (Uploads.tla, as invariants over its ghost state) and by the trace         *)
(* specification (UploadsTrace.tla, over the frames and the friend view logged from the    *)
(* real Node).                                                                             *)
(*                                                                                         *)
(* An upload of chunk c to peer p is evidenced by a chunk frame sent to p.  It is settled  *)
(* by an acknowledgement of (p, c) or by the transfer time-out.  Where the statement does  *)
(* not say how repeated sends of the same chunk to the same peer are counted, the contract *)
(* is permissive in both directions:                                                       *)
(*  - for the LIMITS the smallest defensible count is used: re-sending c to p while the    *)
(*    earlier send is unsettled is the same upload (one slot), and one acknowledgement     *)
(*    settles it;                                                                          *)
(*  - for RELEASE the strongest antecedent is used: every single send must have been       *)
(*    acknowledged (one acknowledgement per send, oldest first) or have timed out before   *)
(*    the peer's in-use count is required to be zero.                                      *)
EXTENDS Integers, FiniteSets

\* [C23] limits: run = set of <<peer, chunk>> uploads running (limit-side count); 0 = unlimited
OverallOk(run, maxPar) == maxPar = 0 \/ Cardinality(run) <= maxPar
PerPeerOk(run, perPeer) == perPeer = 0 \/ \A k \in run : Cardinality({j \in run : j[1] = k[1]}) <= perPeer
LimitOk(run, maxPar, perPeer) == OverallOk(run, maxPar) /\ PerPeerOk(run, perPeer)

\* [C23] a request of a peer with a session for a chunk the node cannot serve is answered
\* with a negative acknowledgement (nothing is demanded for servable chunks / session-less peers)
NakOk(hasSession, servable, nakSent) == (hasSession /\ ~servable) => nakSent

\* [C23] release: busy = peers that still have an unsettled upload (release-side count);
\* inUse(p) = the node's in-use slot count of p.  Leaking = peers whose count is stuck.
Leaking(busy, inUse, peers) == {p \in peers : p \notin busy /\ inUse[p] # 0}
ReleaseOk(busy, inUse, peers) == Leaking(busy, inUse, peers) = {}
=============================================================================
