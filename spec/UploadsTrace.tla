---------------------------- MODULE UploadsTrace ----------------------------
(* Trace specification for C23: validates an ndjson trace recorded by harness/sched.cpp     *)
(* from a real Node against UploadsContract.  Ghost state is built only from what went over *)
(* the wire (chunk frames, negative acks), the injected acknowledgements and the clock; the *)
(* node's in-use slot count is the friend view of active_uploads_per_peer_.                 *)
EXTENDS TraceKit, UploadsContract

PeerIds == 1..8
ChunkIds == 1..16
PK == PeerIds \X ChunkIds

VARIABLES l, viol, poisoned,
          maxPar, perPeer, uto,   \* configuration of the behaviour (uto in ms; <= 0: uploads never time out)
          exp,                    \* [ChunkIds -> ms] expiry of the chunk stored on the node (-1: never stored)
          loose,                  \* [PK -> ms | -1] time of the latest chunk frame not followed by an ack
          strict,                 \* [PK -> Seq(ms)] chunk frames not acknowledged one-for-one and not timed out
          stats
vars == <<l, viol, poisoned, maxPar, perPeer, uto, exp, loose, strict, stats>>

Stats0 == [sends |-> 0, dupsends |-> 0, nakdue |-> 0, releasechecks |-> 0, releasedue |-> 0, atlimit |-> 0]
Init == /\ l = 1 /\ viol = <<>> /\ poisoned = FALSE
        /\ maxPar = 0 /\ perPeer = 0 /\ uto = 0
        /\ exp = [c \in ChunkIds |-> -1]
        /\ loose = [k \in PK |-> -1] /\ strict = [k \in PK |-> <<>>]
        /\ stats = Stats0

Rows(x) == LET a == Arr(x) IN [i \in DOMAIN a |-> a[i]]
\* chunk frames of the event, in order: sequence of <<p, c>>
ChunkSends(e) == LET fr == Arr(e.fr) IN SelectSeq([i \in DOMAIN fr |-> <<fr[i][1], fr[i][3], fr[i][2]>>], LAMBDA f : f[3] = 1 /\ f[1] \in PeerIds /\ f[2] \in ChunkIds)
NakSent(e, p, c) == \E i \in DOMAIN Arr(e.fr) : e.fr[i][1] = p /\ e.fr[i][2] = 2 /\ e.fr[i][3] = c /\ e.fr[i][4] = 0
InUse(e) == [p \in PeerIds |-> IF \E i \in DOMAIN Arr(e.per) : e.per[i][1] = p /\ e.per[i][2] # 0 THEN 1 ELSE 0]
TimedOutLoose(t0, now) == uto > 0 /\ now - t0 >= uto      \* limit side: at the time-out the upload no longer runs
TimedOutStrict(t0, now) == uto > 0 /\ now - t0 > uto      \* release side: only strictly after it

RECURSIVE ApplySends(_, _, _, _)
ApplySends(lo, sr, snd, now) ==
    IF snd = <<>> THEN [lo |-> lo, sr |-> sr]
    ELSE LET k == <<Head(snd)[1], Head(snd)[2]>> IN
         ApplySends([lo EXCEPT ![k] = now], [sr EXCEPT ![k] = Append(@, now)], Tail(snd), now)

Step(e) ==
  CASE e.op = "reset" ->
        /\ maxPar' = e.maxpar /\ perPeer' = e.perpeer /\ uto' = e.uto * 1000
        /\ exp' = [c \in ChunkIds |-> -1] /\ loose' = [k \in PK |-> -1] /\ strict' = [k \in PK |-> <<>>]
        /\ poisoned' = FALSE /\ UNCHANGED <<viol, stats>>
    [] poisoned -> UNCHANGED <<viol, poisoned, maxPar, perPeer, uto, exp, loose, strict, stats>>
    [] OTHER ->
        LET now == e.t
            isAck == e.op = "ack" /\ e.p \in PeerIds /\ e.c \in ChunkIds
            lo0 == IF isAck THEN [loose EXCEPT ![<<e.p, e.c>>] = -1] ELSE loose
            sr0 == IF isAck THEN [strict EXCEPT ![<<e.p, e.c>>] = IF @ = <<>> THEN @ ELSE Tail(@)] ELSE strict
            snd == IF Has(e, "fr") THEN ChunkSends(e) ELSE <<>>
            g == ApplySends(lo0, sr0, snd, now)
            sr1 == [k \in PK |-> SelectSeq(g.sr[k], LAMBDA t0 : ~TimedOutStrict(t0, now))]
            run == {k \in PK : g.lo[k] >= 0 /\ ~TimedOutLoose(g.lo[k], now)}
            busy == {k[1] : k \in {j \in PK : sr1[j] # <<>>}}
            exp1 == IF e.op = "store" /\ e.c \in ChunkIds THEN [exp EXCEPT ![e.c] = e.exp] ELSE exp
            nakDue == e.op = "req" /\ e.p \in PeerIds /\ e.c \in ChunkIds /\ e.key = 1
                      /\ (exp[e.c] < 0 \/ now >= exp[e.c]) /\ e.p \in ArrSet(Arr(e.sess))
            relCheck == e.op \in {"ack", "tick"}
            leaking == IF relCheck THEN Leaking(busy, InUse(e), PeerIds) ELSE {}
            bad == (IF snd = <<>> \/ OverallOk(run, maxPar) THEN {} ELSE {"C23.limit-overall"})
                   \cup (IF snd = <<>> \/ PerPeerOk(run, perPeer) THEN {} ELSE {"C23.limit-per-peer"})
                   \cup (IF nakDue /\ ~NakOk(TRUE, FALSE, NakSent(e, e.p, e.c)) THEN {"C23.nak-missing"} ELSE {})
                   \cup (IF leaking = {} THEN {} ELSE {"C23.slot-leak"})
        IN /\ loose' = g.lo /\ strict' = sr1 /\ exp' = exp1
           /\ viol' = IF bad = {} THEN viol ELSE Append(viol, Fail(l, bad, e))
           /\ poisoned' = (bad # {})
           /\ stats' = [stats EXCEPT !.sends = @ + Len(snd),
                                     !.dupsends = @ + Cardinality({k \in PK : Len(sr1[k]) >= 2 /\ Len(strict[k]) < 2}),
                                     !.nakdue = @ + (IF nakDue THEN 1 ELSE 0),
                                     !.releasechecks = @ + (IF relCheck THEN 1 ELSE 0),
                                     !.releasedue = @ + (IF relCheck /\ busy # {k[1] : k \in {j \in PK : strict[j] # <<>>}} THEN 1 ELSE 0),
                                     !.atlimit = @ + (IF snd # <<>> /\ maxPar # 0 /\ Cardinality(run) = maxPar THEN 1 ELSE 0)]
           /\ UNCHANGED <<maxPar, perPeer, uto>>

Next == l <= Len(T) /\ l' = l + 1 /\ Step(T[l])
Spec == Init /\ [][Next]_vars
Done == Report(l, viol, stats)
=============================================================================
