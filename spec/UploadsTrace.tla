---------------------------- MODULE UploadsTrace ----------------------------
(* Trace specification for C23: validates an ndjson trace recorded by harness/sched.cpp     *)
(* from a real Node against UploadsContract.  Ghost state is built only from what went over *)
(* the wire (chunk frames, negative acks), the injected acknowledgements and the clock; the *)
(* node's in-use slot count is the friend view of active_uploads_per_peer_.                 *)
EXTENDS TraceKit, UploadsContract

PeerIds == 1..8
ChunkIds == 1..16

VARIABLES l, viol, poisoned,
          maxPar, perPeer, uto,   \* configuration of the behaviour (uto in ms; <= 0: uploads never time out)
          exp,                    \* set of <<chunk, ms>>: expiry of the chunks stored on the node
          loose,                  \* set of <<p, c, ms>>: latest chunk frame of (p, c) not followed by an ack, not timed out
          strict,                 \* Seq(<<p, c, ms>>): chunk frames not acknowledged one-for-one and not timed out, in send order
          pend,                   \* set of <<p, c>>: requests of peers with a session that were neither served nor refused yet (deferred)
          stats
vars == <<l, viol, poisoned, maxPar, perPeer, uto, exp, loose, strict, pend, stats>>

Stats0 == [sends |-> 0, dupsends |-> 0, nakdue |-> 0, releasechecks |-> 0, releasedue |-> 0, atlimit |-> 0]
Init == /\ l = 1 /\ viol = <<>> /\ poisoned = FALSE
        /\ maxPar = 0 /\ perPeer = 0 /\ uto = 0
        /\ exp = {} /\ loose = {} /\ strict = <<>> /\ pend = {}
        /\ stats = Stats0

\* chunk frames of the event, in order: sequence of <<p, c>>
ChunkSends(e) == LET fr == Arr(e.fr) IN SelectSeq([i \in DOMAIN fr |-> <<fr[i][1], fr[i][3], fr[i][2]>>], LAMBDA f : f[3] = 1)
NakSent(e, p, c) == \E i \in DOMAIN Arr(e.fr) : e.fr[i][1] = p /\ e.fr[i][2] = 2 /\ e.fr[i][3] = c /\ e.fr[i][4] = 0
InUsePeers(e) == {e.per[i][1] : i \in {j \in DOMAIN Arr(e.per) : e.per[j][2] # 0}}
TimedOutLoose(t0, now) == uto > 0 /\ now - t0 >= uto      \* limit side: at the time-out the upload no longer runs
TimedOutStrict(t0, now) == uto > 0 /\ now - t0 > uto      \* release side: only strictly after it
IsKey(x, p, c) == x[1] = p /\ x[2] = c
RemoveFirst(sq, p, c) ==
    IF \E i \in DOMAIN sq : IsKey(sq[i], p, c)
      THEN LET i == CHOOSE j \in DOMAIN sq : IsKey(sq[j], p, c) /\ \A m \in 1..(j - 1) : ~IsKey(sq[m], p, c)
           IN SubSeq(sq, 1, i - 1) \o SubSeq(sq, i + 1, Len(sq))
      ELSE sq

RECURSIVE ApplySends(_, _, _, _, _)
ApplySends(lo, sr, snd, now, dups) ==
    IF snd = <<>> THEN [lo |-> lo, sr |-> sr, dups |-> dups]
    ELSE LET p == Head(snd)[1]
             c == Head(snd)[2] IN
         ApplySends({x \in lo : ~IsKey(x, p, c)} \cup {<<p, c, now>>}, Append(sr, <<p, c, now>>), Tail(snd), now,
                    dups + (IF \E i \in DOMAIN sr : IsKey(sr[i], p, c) THEN 1 ELSE 0))

Step(e) ==
  CASE e.op = "reset" ->
        /\ maxPar' = e.maxpar /\ perPeer' = e.perpeer /\ uto' = e.uto * 1000
        /\ exp' = {} /\ loose' = {} /\ strict' = <<>> /\ pend' = {}
        /\ poisoned' = FALSE /\ UNCHANGED <<viol, stats>>
    [] poisoned -> UNCHANGED <<viol, poisoned, maxPar, perPeer, uto, exp, loose, strict, pend, stats>>
    [] OTHER ->
        LET now == e.t
            isAck == e.op = "ack"
            lo0 == IF isAck THEN {x \in loose : ~IsKey(x, e.p, e.c)} ELSE loose
            sr0 == IF isAck THEN RemoveFirst(strict, e.p, e.c) ELSE strict
            snd == IF Has(e, "fr") THEN ChunkSends(e) ELSE <<>>
            g == ApplySends(lo0, sr0, snd, now, 0)
            lo1 == {x \in g.lo : ~TimedOutLoose(x[3], now)}
            sr1 == SelectSeq(g.sr, LAMBDA x : ~TimedOutStrict(x[3], now))
            run == {<<x[1], x[2]>> : x \in lo1}
            busy == {sr1[i][1] : i \in DOMAIN sr1}
            exp1 == IF e.op = "store" THEN {x \in exp : x[1] # e.c} \cup {<<e.c, e.exp>>} ELSE exp
            nakDue == e.op = "req" /\ e.key = 1 /\ e.p \in ArrSet(Arr(e.sess))
                      /\ ~\E x \in exp : x[1] = e.c /\ now < x[2]
            relCheck == e.op \in {"ack", "tick"}
            \* deferred requests: a request of a peer with a session that this event neither serves nor refuses waits in the node's queue;
            \* it leaves the ghost when a chunk frame or a negative acknowledgement for it goes out, or when the peer's session is gone
            sessNow == IF Has(e, "sess") THEN ArrSet(Arr(e.sess)) ELSE PeerIds
            sentNow == {<<snd[i][1], snd[i][2]>> : i \in DOMAIN snd}
            answered(x) == x \in sentNow \/ NakSent(e, x[1], x[2])
            pend1 == {x \in pend \cup (IF e.op = "req" /\ e.key = 1 /\ e.p \in sessNow THEN {<<e.p, e.c>>} ELSE {}) : ~answered(x) /\ x[1] \in sessNow}
            \* once no upload is running any more after an acknowledgement or a tick, nothing can hold a deferred request back:
            \* it has been served, or -- the chunk has expired meanwhile, too little lifetime is left -- refused with a negative acknowledgement
            starved == relCheck /\ run = {} /\ pend1 # {}
            leaking == IF relCheck THEN Leaking(busy, [p \in PeerIds |-> IF p \in InUsePeers(e) THEN 1 ELSE 0], PeerIds) ELSE {}
            bad == (IF snd = <<>> \/ OverallOk(run, maxPar) THEN {} ELSE {"C23.limit-overall"})
                   \cup (IF snd = <<>> \/ PerPeerOk(run, perPeer) THEN {} ELSE {"C23.limit-per-peer"})
                   \cup (IF nakDue /\ ~NakOk(TRUE, FALSE, NakSent(e, e.p, e.c)) THEN {"C23.nak-missing"} ELSE {})
                   \cup (IF leaking = {} THEN {} ELSE {"C23.slot-leak"})
                   \cup (IF starved THEN {"C23.nak-missing/deferred"} ELSE {})
        IN /\ loose' = lo1 /\ strict' = sr1 /\ exp' = exp1 /\ pend' = pend1
           /\ viol' = IF bad = {} THEN viol ELSE Append(viol, Fail(l, bad, e))
           /\ poisoned' = (bad # {})
           /\ stats' = [stats EXCEPT !.sends = @ + Len(snd),
                                     !.dupsends = @ + g.dups,
                                     !.nakdue = @ + (IF nakDue THEN 1 ELSE 0),
                                     !.releasechecks = @ + (IF relCheck THEN 1 ELSE 0),
                                     !.releasedue = @ + (IF relCheck /\ busy # {strict[i][1] : i \in DOMAIN strict} THEN 1 ELSE 0),
                                     !.atlimit = @ + (IF snd # <<>> /\ maxPar # 0 /\ Cardinality(run) = maxPar THEN 1 ELSE 0)]
           /\ UNCHANGED <<maxPar, perPeer, uto>>

Next == l <= Len(T) /\ l' = l + 1 /\ Step(T[l])
Spec == Init /\ [][Next]_vars
Done == Report(l, viol, stats)
=============================================================================
