-------------------------------- MODULE Wire --------------------------------
(* Executable reference of the EphemeralNet message wire grammar (properties C15 / C16).  *)
(*                                                                                        *)
(* Written from the field lists of include/ephemeralnet/protocol/Message.hpp and the      *)
(* property statements: it says what a CORRECT codec does.                                *)
(*   C15  for versions 1..4, Decode(Encode(m)) = Norm(m): the same message, the announce  *)
(*        PoW nonce carried from version 3 on; a version outside 1..4 is encoded as the   *)
(*        nearest supported one.                                                          *)
(*   C16  Decode is total on byte strings, and whatever it accepts has its fields taken   *)
(*        verbatim from the input: Encode(Decode(b).m) is a prefix of b.                  *)
(* Bytes are 0..255; every multi-byte integer of a message (ttl, nonces, identities) is   *)
(* kept as its big-endian byte string because TLC integers are 32-bit.  Length fields     *)
(* are evaluated only when they can matter (first byte 0, i.e. < 2^24): inputs are        *)
(* assumed shorter than 2^24 bytes, so anything larger cannot fit and is "Huge".          *)
(*                                                                                        *)
(* The three CONSTANTS exist so that the deviations this codec is suspected of can be     *)
(* switched on in a model (MC_Wire_dev_*.cfg) and shown to break the lemmas; the contract *)
(* is EncNonceFrom = DecNonceFrom = 3, StrictBool = TRUE.                                  *)
EXTENDS Integers, Sequences, FiniteSets, TLC, SequencesExt

CONSTANTS EncNonceFrom,   \* first version whose ANNOUNCE encoding carries the PoW nonce
          DecNonceFrom,   \* first version whose ANNOUNCE decoding requires the PoW nonce
          StrictBool      \* TRUE: a boolean byte other than 0/1 is refused

Byte == 0..255
MinVersion == 1
MaxVersion == 4
TAnnounce == 1
TRequest == 2
TChunk == 3
TAcknowledge == 4
THandshake == 5
THandshakeAck == 6
Types == 1..6
IdSize == 32
Huge == 268435456            \* 2^28: stands for every length >= 2^24 (3 * Huge < 2^31)

Rep(x, n) == [i \in 1..n |-> x]
Zero8 == Rep(0, 8)

(* ---- messages: records with the header's field names ---------------------------------- *)
(* Announce      [v, ty=1, chunk_id(32), peer_id(32), endpoint, ttl(4), manifest_uri,        *)
(*                assigned_shards, work_nonce(8)]                                            *)
(* Request       [v, ty=2, chunk_id(32), requester(32)]                                      *)
(* Chunk         [v, ty=3, chunk_id(32), data, ttl(4)]                                       *)
(* Acknowledge   [v, ty=4, chunk_id(32), peer_id(32), accepted \in BOOLEAN]                  *)
(* Handshake     [v, ty=5, public_identity(4), work_nonce(8), requested_version \in Byte]    *)
(* HandshakeAck  [v, ty=6, accepted \in BOOLEAN, negotiated_version \in Byte,                *)
(*                responder_public(4)]                                                       *)
IsBytes(s, n) == DOMAIN s = 1..n /\ \A i \in 1..n : s[i] \in Byte
IsStr(s) == IsBytes(s, Len(s))
WellFormed(m) ==
    /\ m.v \in Byte /\ m.ty \in Types
    /\ CASE m.ty = TAnnounce -> /\ IsBytes(m.chunk_id, IdSize) /\ IsBytes(m.peer_id, IdSize) /\ IsStr(m.endpoint)
                                /\ IsBytes(m.ttl, 4) /\ IsStr(m.manifest_uri) /\ IsStr(m.assigned_shards)
                                /\ IsBytes(m.work_nonce, 8)
         [] m.ty = TRequest -> IsBytes(m.chunk_id, IdSize) /\ IsBytes(m.requester, IdSize)
         [] m.ty = TChunk -> IsBytes(m.chunk_id, IdSize) /\ IsStr(m.data) /\ IsBytes(m.ttl, 4)
         [] m.ty = TAcknowledge -> IsBytes(m.chunk_id, IdSize) /\ IsBytes(m.peer_id, IdSize) /\ m.accepted \in BOOLEAN
         [] m.ty = THandshake -> IsBytes(m.public_identity, 4) /\ IsBytes(m.work_nonce, 8) /\ m.requested_version \in Byte
         [] m.ty = THandshakeAck -> m.accepted \in BOOLEAN /\ m.negotiated_version \in Byte /\ IsBytes(m.responder_public, 4)

Clamp(v) == IF v < MinVersion THEN MinVersion ELSE IF v > MaxVersion THEN MaxVersion ELSE v

(* what decoding the encoding of m must give (C15) *)
Norm(m) ==
    LET w == Clamp(m.v) IN
    IF m.ty = TAnnounce
      THEN [m EXCEPT !.v = w, !.work_nonce = IF w >= 3 THEN @ ELSE Zero8]
      ELSE [m EXCEPT !.v = w]

(* equality of a decoded message with the expectation; below version 3 the announce nonce  *)
(* is not on the wire and the statement does not say what a decoder reports for it         *)
SameMsg(got, want) ==
    IF want.ty = TAnnounce /\ want.v < 3 /\ got.ty = TAnnounce
      THEN [got EXCEPT !.work_nonce = Zero8] = [want EXCEPT !.work_nonce = Zero8]
      ELSE got = want

(* ---- integers on the wire --------------------------------------------------------------- *)
U32(n) == <<0, (n \div 65536) % 256, (n \div 256) % 256, n % 256>>      \* 0 <= n < 2^24
LenVal(b4) == IF b4[1] # 0 THEN Huge ELSE b4[2] * 65536 + b4[3] * 256 + b4[4]
BoolByte(x) == IF x THEN 1 ELSE 0

(* ---- encoding: a list of <<kind, bytes>> parts, so that the layout (field boundaries,     *)
(*      which part is a length / a boolean) is derived from the same definition ----------- *)
Parts(m) ==
    LET v == Clamp(m.v) IN
    <<  <<"ver", <<v>> >>, <<"type", <<m.ty>> >>  >> \o
    CASE m.ty = TAnnounce ->
           << <<"u32", m.ttl>>,
              <<"len", U32(Len(m.endpoint))>>, <<"len", U32(Len(m.manifest_uri))>>, <<"len", U32(Len(m.assigned_shards))>>,
              <<"id", m.chunk_id>>, <<"id", m.peer_id>>,
              <<"bytes", m.endpoint>>, <<"bytes", m.manifest_uri>>, <<"bytes", m.assigned_shards>> >>
           \o (IF v >= EncNonceFrom THEN << <<"u64", m.work_nonce>> >> ELSE <<>>)
      [] m.ty = TRequest -> << <<"id", m.chunk_id>>, <<"id", m.requester>> >>
      [] m.ty = TChunk -> << <<"u32", m.ttl>>, <<"len", U32(Len(m.data))>>, <<"id", m.chunk_id>>, <<"bytes", m.data>> >>
      [] m.ty = TAcknowledge -> << <<"bool", <<BoolByte(m.accepted)>> >>, <<"id", m.chunk_id>>, <<"id", m.peer_id>> >>
      [] m.ty = THandshake -> << <<"u32", m.public_identity>>, <<"u64", m.work_nonce>>, <<"u8", <<m.requested_version>> >> >>
      [] m.ty = THandshakeAck -> << <<"bool", <<BoolByte(m.accepted)>> >>, <<"u8", <<m.negotiated_version>> >>, <<"u32", m.responder_public>> >>

Encode(m) == LET P == Parts(m) IN FlattenSeq([i \in DOMAIN P |-> P[i][2]])

(* layout of Encode(m): one [k, off, n] per part, off 0-based *)
Layout(m) ==
    LET P == Parts(m)
        step(acc, p) == Append(acc, [k |-> p[1], off |-> (IF acc = <<>> THEN 0 ELSE acc[Len(acc)].off + acc[Len(acc)].n), n |-> Len(p[2])])
    IN FoldLeft(step, <<>>, P)

(* ---- decoding --------------------------------------------------------------------------- *)
Rej == [ok |-> FALSE]
Acc(m) == [ok |-> TRUE, m |-> m]
Sub(b, off, n) == SubSeq(b, off + 1, off + n)          \* off is 0-based
BoolOk(x) == x \in {0, 1} \/ ~StrictBool

Decode(b) ==
    IF Len(b) < 2 THEN Rej ELSE
    LET v == b[1]
        ty == b[2]
        n == Len(b)
    IN
    IF v < MinVersion \/ v > MaxVersion THEN Rej ELSE
    CASE ty = TAnnounce ->
           LET pow == IF v >= DecNonceFrom THEN 8 ELSE 0
               fixed == 2 + 16 + 2 * IdSize + pow
           IN IF n < fixed THEN Rej ELSE
              LET el == LenVal(Sub(b, 6, 4))
                  ml == LenVal(Sub(b, 10, 4))
                  al == LenVal(Sub(b, 14, 4))
              IN IF n < fixed + el + ml + al THEN Rej ELSE
                 Acc([v |-> v, ty |-> ty, ttl |-> Sub(b, 2, 4),
                      chunk_id |-> Sub(b, 18, IdSize), peer_id |-> Sub(b, 18 + IdSize, IdSize),
                      endpoint |-> Sub(b, 82, el), manifest_uri |-> Sub(b, 82 + el, ml),
                      assigned_shards |-> Sub(b, 82 + el + ml, al),
                      work_nonce |-> IF pow = 8 THEN Sub(b, 82 + el + ml + al, 8) ELSE Zero8])
      [] ty = TRequest ->
           IF n < 2 + 2 * IdSize THEN Rej ELSE
           Acc([v |-> v, ty |-> ty, chunk_id |-> Sub(b, 2, IdSize), requester |-> Sub(b, 2 + IdSize, IdSize)])
      [] ty = TChunk ->
           IF n < 2 + 8 + IdSize THEN Rej ELSE
           LET dl == LenVal(Sub(b, 6, 4)) IN
           IF n < 2 + 8 + IdSize + dl THEN Rej ELSE
           Acc([v |-> v, ty |-> ty, ttl |-> Sub(b, 2, 4), chunk_id |-> Sub(b, 10, IdSize), data |-> Sub(b, 10 + IdSize, dl)])
      [] ty = TAcknowledge ->
           IF n < 2 + 1 + 2 * IdSize \/ ~BoolOk(b[3]) THEN Rej ELSE
           Acc([v |-> v, ty |-> ty, accepted |-> (b[3] # 0), chunk_id |-> Sub(b, 3, IdSize), peer_id |-> Sub(b, 3 + IdSize, IdSize)])
      [] ty = THandshake ->
           IF n < 2 + 13 THEN Rej ELSE
           Acc([v |-> v, ty |-> ty, public_identity |-> Sub(b, 2, 4), work_nonce |-> Sub(b, 6, 8), requested_version |-> b[15]])
      [] ty = THandshakeAck ->
           IF n < 2 + 6 \/ ~BoolOk(b[3]) THEN Rej ELSE
           Acc([v |-> v, ty |-> ty, accepted |-> (b[3] # 0), negotiated_version |-> b[4], responder_public |-> Sub(b, 4, 4)])
      [] OTHER -> Rej

(* ---- the contract lemmas (checked exhaustively on small domains by MC_Wire) --------------- *)
RoundTripOk(m) == Decode(Encode(m)) = Acc(Norm(m))
ClampOk(m) == Encode(m)[1] = Clamp(m.v) /\ Encode(m) = Encode([m EXCEPT !.v = Clamp(m.v)])
AcceptedPrefixOk(b) == LET d == Decode(b) IN d.ok => /\ WellFormed(d.m)
                                                    /\ IsPrefix(Encode(d.m), b)
                                                    /\ Decode(Encode(d.m)) = d

(* ---- structural mutations of an encoding (C16 inputs) ------------------------------------- *)
(* each element is <<label, bytes>>                                                           *)
Put(b, off, r) == SubSeq(b, 1, off) \o r \o SubSeq(b, off + Len(r) + 1, Len(b))
Filler(n) == [i \in 1..n |-> (i * 37) % 256]
Mutations(m) ==
    LET b == Encode(m)
        L == Layout(m)
        n == Len(b)
        lens == {i \in DOMAIN L : L[i].k = "len"}
        bools == {i \in DOMAIN L : L[i].k = "bool"}
        bounds == {L[i].off : i \in DOMAIN L} \cup {n}
        cur(i) == LenVal(Sub(b, L[i].off, 4))
    IN  \* every length field set to 0, actual-1, actual+1, 2^31, 2^32-1 (and actual+1 with one byte appended,
        \* actual-1 with the byte removed, so that the shifted message is again consistent)
           {<<"len/zero", Put(b, L[i].off, U32(0))>> : i \in lens}
      \cup {<<"len/minus1", Put(b, L[i].off, U32(cur(i) - 1))>> : i \in {j \in lens : cur(j) > 0}}
      \cup {<<"len/plus1", Put(b, L[i].off, U32(cur(i) + 1))>> : i \in lens}
      \cup {<<"len/plus1-padded", Put(b, L[i].off, U32(cur(i) + 1)) \o <<170>> >> : i \in lens}
      \cup {<<"len/minus1-cut", SubSeq(Put(b, L[i].off, U32(cur(i) - 1)), 1, n - 1)>> : i \in {j \in lens : cur(j) > 0}}
      \cup {<<"len/2^31", Put(b, L[i].off, <<128, 0, 0, 0>>)>> : i \in lens}
      \cup {<<"len/2^32-1", Put(b, L[i].off, <<255, 255, 255, 255>>)>> : i \in lens}
      \cup {<<"len/2^24", Put(b, L[i].off, <<1, 0, 0, 0>>)>> : i \in lens}
        \* truncation at every field boundary -1, 0, +1 (beyond the end: one byte appended)
      \cup ({<<"trunc", IF p + d <= n THEN SubSeq(b, 1, p + d) ELSE b \o <<0>> >> : p \in bounds, d \in {-1, 0, 1}} \ {<<"trunc", b>>})
        \* trailing bytes (one, two, a MAC-sized trailer, the message twice)
      \cup {<<"trailing", b \o <<0>> >>, <<"trailing", b \o <<255, 255>> >>, <<"trailing", b \o Filler(32)>>, <<"trailing", b \o b>>}
        \* non-canonical booleans
      \cup {<<"bool", Put(b, L[i].off, <<x>>)>> : i \in bools, x \in {2, 128, 255}}
        \* other / unknown versions and types (the same bytes read as another message kind)
      \cup {<<"version", Put(b, 0, <<x>>)>> : x \in ({0, 1, 2, 3, 4, 5, 6, 255} \ {b[1]})}
      \cup {<<"type", Put(b, 1, <<x>>)>> : x \in ({0, 1, 2, 3, 4, 5, 6, 7, 255} \ {b[2]})}
      \cup {<<"identity", b>>}
=============================================================================
