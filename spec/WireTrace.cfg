SPECIFICATION Spec
CONSTANTS
  EncNonceFrom = 3
  DecNonceFrom = 3
  StrictBool = TRUE
INVARIANT Done
CHECK_DEADLOCK FALSE
