------------------------------ MODULE WireTrace ------------------------------
(* Trace specification for the message wire codec (C15 / C16): every logged event of       *)
(* harness/wire.cpp is one independent case; the contract is evaluated by TLC on the       *)
(* logged values with the operators of the executable reference (Wire).                    *)
(*   rt   a message m, the real encode(m), the real decode of it, the re-encoding, the     *)
(*        encoding of m with the version clamped, the signed round trip                    *)
(*   dec  an input byte string (plain or signed), the real decode result, its re-encoding  *)
(* The property statements do not fix the byte layout, so raw bytes are NOT compared with  *)
(* the reference encoding (agreement is only counted in the statistics, it tells how well  *)
(* the spec-generated mutations hit the real length fields); what is demanded is:          *)
(*   C15.roundtrip-mismatch   decode(encode(m)) is not Norm(m)  (…/signed: only the signed  *)
(*                            round trip fails)                                            *)
(*   C15.version-clamp        a version outside 1..4 is not encoded as the nearest one      *)
(*   C16.accepted-not-prefix  an accepted input whose re-encoding is not a prefix of it     *)
(*   C16.threw                a decoder let an exception escape                             *)
EXTENDS TraceKit, Wire

VARIABLES l, viol, cnt, stats
vars == <<l, viol, cnt, stats>>

MaxPerClause == 3          \* failures kept per clause id (all are counted in stats.fail)
RefLimit == 2048           \* reference comparison (statistics only) for inputs up to this size

Stat0 == [rt |-> 0, dec |-> 0, accepted |-> 0, rejected |-> 0, signed_accepted |-> 0,
          enc_ref_agree |-> 0, enc_ref_differ |-> 0, dec_ref_agree |-> 0, dec_ref_differ |-> 0, fail |-> 0]
Init == l = 1 /\ viol = <<>> /\ cnt = [c \in {} |-> 0] /\ stats = Stat0

Coherent(e) == Fld(e, "coherent", TRUE)
DecThrew(e) == Has(e, "threw_in") /\ e.threw_in \in {"decode", "decode_signed"}

RtClauses(e) ==
    LET m == e.m
        want == Norm(m)
        inrange == m.v >= MinVersion /\ m.v <= MaxVersion
        verOk == /\ e.dec.ok /\ e.dec.m.v = Clamp(m.v)
                 /\ (Has(e, "encc") => e.encc = e.enc)
        decOk == e.dec.ok /\ Coherent(e) /\ SameMsg(e.dec.m, want)
        sOk == e.sdec.ok /\ SameMsg(e.sdec.m, want)
    IN  (IF ~inrange /\ ~verOk THEN {"C15.version-clamp"}
         ELSE IF ~decOk THEN {"C15.roundtrip-mismatch"}
         ELSE IF ~sOk THEN {"C15.roundtrip-mismatch/signed"} ELSE {})
        \cup (IF e.dec.ok /\ ~IsPrefix(e.reenc, e.enc) THEN {"C16.accepted-not-prefix"} ELSE {})
        \cup (IF DecThrew(e) THEN {"C16.threw"} ELSE {})

DecClauses(e) ==
    (IF Has(e, "threw") THEN {"C16.threw"} ELSE {})
    \cup (IF e.res.ok /\ (~Coherent(e) \/ ~Has(e, "reenc") \/ ~IsPrefix(e.reenc, e["in"])) THEN {"C16.accepted-not-prefix"} ELSE {})

\* statistics only: does the real codec agree with the reference byte for byte?
RefDecAgree(e) == LET d == Decode(e["in"]) IN IF d.ok THEN e.res.ok /\ e.res.m = d.m ELSE ~e.res.ok

Bump(s, k) == [s EXCEPT ![k] = @ + 1]
Record(bad, e) ==
    LET fresh == {c \in bad : Fld(cnt, c, 0) < MaxPerClause}
    IN /\ viol' = IF fresh = {} THEN viol ELSE Append(viol, Fail(l, fresh, e))
       /\ cnt' = [c \in DOMAIN cnt \cup bad |-> Fld(cnt, c, 0) + (IF c \in bad THEN 1 ELSE 0)]

Step(e) ==
  CASE e.op = "rt" ->
        LET bad == RtClauses(e)
            s1 == Bump(stats, "rt")
            s2 == IF Len(e.enc) > RefLimit THEN s1 ELSE Bump(s1, IF e.enc = Encode(e.m) THEN "enc_ref_agree" ELSE "enc_ref_differ")
        IN /\ Record(bad, e)
           /\ stats' = IF bad = {} THEN s2 ELSE Bump(s2, "fail")
    [] e.op = "dec" ->
        LET bad == DecClauses(e)
            s1 == Bump(Bump(stats, "dec"), IF e.res.ok THEN "accepted" ELSE "rejected")
            s2 == IF e.res.ok /\ e.signed = 1 THEN Bump(s1, "signed_accepted") ELSE s1
            s3 == IF e.signed = 1 \/ ~Has(e, "in") \/ e.n > RefLimit THEN s2
                  ELSE Bump(s2, IF RefDecAgree(e) THEN "dec_ref_agree" ELSE "dec_ref_differ")
        IN /\ Record(bad, e)
           /\ stats' = IF bad = {} THEN s3 ELSE Bump(s3, "fail")
    [] OTHER -> UNCHANGED <<viol, cnt, stats>>

Next == l <= Len(T) /\ l' = l + 1 /\ Step(T[l])
Spec == Init /\ [][Next]_vars
Done == Report(l, viol, [s |-> stats, per_clause |-> cnt])
=============================================================================
