------------------------------- MODULE Word32 -------------------------------
(* 32-bit unsigned word arithmetic for the executable crypto references (Sha256, Hmac,    *)
(* ChaCha20, and whatever extends them).                                                   *)
(*                                                                                         *)
(* TLC integers are 32-bit SIGNED, so a 32-bit word is never formed as one integer: a      *)
(* word is the pair <<hi, lo>> of its two 16-bit limbs (0..65535 each).  Every             *)
(* intermediate value below stays < 2^31 (largest: a 17-bit limb sum, a 16-bit product).   *)
(*                                                                                         *)
(* PUBLIC OPERATORS                                                                        *)
(*   W32(hi, lo)            the word hi*2^16 + lo                                          *)
(*   IsW32(w)               w is a well-formed word                                        *)
(*   Zero32, One32                                                                         *)
(*   Add32(a, b)            (a + b) mod 2^32            Add32n(<<a, b, ...>>) sum of a seq  *)
(*   AddSmall32(a, k)       (a + k) mod 2^32 for an integer 0 <= k < 2^30                  *)
(*   Xor32, And32, Or32, Not32   bitwise                                                   *)
(*   RotR32(a, n), RotL32(a, n)  rotation by 0 <= n <= 32                                  *)
(*   ShR32(a, n)            logical shift right by 0 <= n < 32                             *)
(*   FromBE(b1,b2,b3,b4)    word from 4 bytes, most significant first;  BytesBE(w) inverse *)
(*   FromLE(b1,b2,b3,b4)    word from 4 bytes, least significant first; BytesLE(w) inverse *)
(*   WordsBE(bytes), WordsLE(bytes)   byte sequence (length multiple of 4) -> word seq     *)
(*   BytesOfBE(words), BytesOfLE(words)  word sequence -> byte sequence                    *)
(*   IsBytes(s)             s is a sequence of 0..255                                      *)
(*   XorBytes(a, b)         bytewise xor of two equally long byte sequences                *)
(*   Lt32(a, b), Le32(a, b) unsigned comparison                                            *)
(* Names And/Or/Xor/Not are avoided: they belong to the Bitwise module.                    *)
EXTENDS Naturals, Sequences, Bitwise, SequencesExt

M16 == 65536
\* P2[n+1] = 2^n for n in 0..16 (table look-up is cheaper than ^ in TLC)
P2 == <<1, 2, 4, 8, 16, 32, 64, 128, 256, 512, 1024, 2048, 4096, 8192, 16384, 32768, 65536>>

W32(hi, lo) == <<hi, lo>>
IsW32(w) == /\ DOMAIN w = 1..2 /\ w[1] \in 0..(M16 - 1) /\ w[2] \in 0..(M16 - 1)
Zero32 == <<0, 0>>
One32 == <<0, 1>>

Add32(a, b) == LET lo == a[2] + b[2]
                   hi == a[1] + b[1] + (lo \div M16)
               IN <<hi % M16, lo % M16>>
Add32n(ws) == FoldLeft(Add32, Zero32, ws)
AddSmall32(a, k) == LET lo == a[2] + (k % M16)
                        hi == a[1] + (k \div M16) + (lo \div M16)
                    IN <<hi % M16, lo % M16>>

Xor32(a, b) == <<a[1] ^^ b[1], a[2] ^^ b[2]>>
And32(a, b) == <<a[1] & b[1], a[2] & b[2]>>
Or32(a, b) == <<a[1] | b[1], a[2] | b[2]>>
Not32(a) == <<(M16 - 1) - a[1], (M16 - 1) - a[2]>>

\* rotate right: swap the limbs for n >= 16, then move k = n mod 16 bits across the limbs
RotR32(a, n) == LET s == IF (n % 32) >= 16 THEN <<a[2], a[1]>> ELSE a
                    k == n % 16
                IN IF k = 0 THEN s
                   ELSE << (s[1] \div P2[k + 1]) + (s[2] % P2[k + 1]) * P2[17 - k],
                           (s[2] \div P2[k + 1]) + (s[1] % P2[k + 1]) * P2[17 - k] >>
RotL32(a, n) == RotR32(a, (32 - (n % 32)) % 32)

ShR32(a, n) == IF n >= 16 THEN <<0, a[1] \div P2[n - 15]>>
               ELSE IF n = 0 THEN a
               ELSE << a[1] \div P2[n + 1], (a[2] \div P2[n + 1]) + (a[1] % P2[n + 1]) * P2[17 - n] >>

FromBE(b1, b2, b3, b4) == <<b1 * 256 + b2, b3 * 256 + b4>>
FromLE(b1, b2, b3, b4) == <<b4 * 256 + b3, b2 * 256 + b1>>
BytesBE(w) == <<w[1] \div 256, w[1] % 256, w[2] \div 256, w[2] % 256>>
BytesLE(w) == <<w[2] % 256, w[2] \div 256, w[1] % 256, w[1] \div 256>>

IsBytes(s) == /\ DOMAIN s = 1..Len(s) /\ \A i \in 1..Len(s) : s[i] \in 0..255

\* the k-th (1-based) word of a byte sequence
WordAtBE(p, k) == FromBE(p[4 * k - 3], p[4 * k - 2], p[4 * k - 1], p[4 * k])
WordAtLE(p, k) == FromLE(p[4 * k - 3], p[4 * k - 2], p[4 * k - 1], p[4 * k])
WordsBE(bytes) == [k \in 1..(Len(bytes) \div 4) |-> WordAtBE(bytes, k)]
WordsLE(bytes) == [k \in 1..(Len(bytes) \div 4) |-> WordAtLE(bytes, k)]
\* byte j (1-based) of the serialisation of a word sequence
BytesOfBE(words) == [j \in 1..(4 * Len(words)) |-> BytesBE(words[((j - 1) \div 4) + 1])[((j - 1) % 4) + 1]]
BytesOfLE(words) == [j \in 1..(4 * Len(words)) |-> BytesLE(words[((j - 1) \div 4) + 1])[((j - 1) % 4) + 1]]

XorBytes(a, b) == [i \in 1..Len(a) |-> a[i] ^^ b[i]]

Lt32(a, b) == a[1] < b[1] \/ (a[1] = b[1] /\ a[2] < b[2])
Le32(a, b) == a = b \/ Lt32(a, b)

---------------------------------------------------------------------------------------
(* Self-checks, evaluated when TLC loads the module.  Small words (< 2^15) are compared    *)
(* with plain integer arithmetic; the wrap-around cases are spelled out.                   *)
LOCAL Small == {0, 1, 2, 3, 255, 256, 4095, 32767}
LOCAL Samples == {<<0, 0>>, <<0, 1>>, <<65535, 65535>>, <<32768, 0>>, <<0, 32768>>, <<4660, 22136>>,
                  <<43981, 61185>>, <<1, 65535>>, <<65535, 0>>, <<27145, 58983>>}
ASSUME \A a \in Small, b \in Small : Add32(<<0, a>>, <<0, b>>) = <<(a + b) \div M16, (a + b) % M16>>
ASSUME Add32(<<65535, 65535>>, <<0, 1>>) = <<0, 0>>
ASSUME Add32(<<65535, 65535>>, <<65535, 65535>>) = <<65535, 65534>>
ASSUME Add32(<<0, 65535>>, <<0, 1>>) = <<1, 0>>
ASSUME AddSmall32(<<65535, 65535>>, 1) = <<0, 0>> /\ AddSmall32(<<65535, 65534>>, 1) = <<65535, 65535>>
ASSUME AddSmall32(<<0, 65535>>, 65537) = <<2, 0>>
ASSUME \A a \in Samples, b \in Samples : Add32(a, b) = Add32(b, a) /\ IsW32(Add32(a, b))
ASSUME \A a \in Samples, b \in Samples, c \in Samples : Add32(Add32(a, b), c) = Add32(a, Add32(b, c))
ASSUME \A a \in Samples : Add32n(<<a, Not32(a), One32>>) = Zero32
ASSUME \A a \in Samples, n \in 0..32 : /\ IsW32(RotR32(a, n)) /\ RotL32(RotR32(a, n), n) = a
                                        /\ RotR32(a, n) = RotL32(a, 32 - n)
ASSUME \A a \in Samples, n \in 0..31 : RotR32(RotR32(a, n), 32 - n) = a
ASSUME RotR32(<<0, 1>>, 1) = <<32768, 0>> /\ RotL32(<<32768, 0>>, 1) = <<0, 1>> /\ RotR32(<<4660, 22136>>, 16) = <<22136, 4660>>
ASSUME RotR32(<<4660, 22136>>, 4) = <<33059, 17767>>    \* 0x12345678 ror 4 = 0x81234567
ASSUME RotL32(<<4660, 22136>>, 8) = <<13398, 30738>>    \* 0x12345678 rol 8 = 0x34567812
ASSUME ShR32(<<4660, 22136>>, 4) = <<291, 17767>> /\ ShR32(<<4660, 22136>>, 20) = <<0, 291>> /\ ShR32(<<65535, 65535>>, 31) = <<0, 1>>
ASSUME ShR32(<<4660, 22136>>, 16) = <<0, 4660>> /\ ShR32(<<4660, 22136>>, 0) = <<4660, 22136>>
ASSUME \A a \in Samples, n \in 1..31 : \* a ror n = (a >> n) | (a << (32-n)), and the two parts do not overlap
          And32(ShR32(a, n), Xor32(RotR32(a, n), ShR32(a, n))) = Zero32 /\ Or32(ShR32(a, n), RotR32(a, n)) = RotR32(a, n)
ASSUME \A a \in Samples : Xor32(a, a) = Zero32 /\ Xor32(a, Not32(a)) = <<65535, 65535>> /\ And32(a, Not32(a)) = Zero32 /\ Or32(a, Zero32) = a
ASSUME \A a \in Samples : /\ FromBE(BytesBE(a)[1], BytesBE(a)[2], BytesBE(a)[3], BytesBE(a)[4]) = a
                          /\ FromLE(BytesLE(a)[1], BytesLE(a)[2], BytesLE(a)[3], BytesLE(a)[4]) = a
ASSUME BytesBE(<<4660, 22136>>) = <<18, 52, 86, 120>> /\ BytesLE(<<4660, 22136>>) = <<120, 86, 52, 18>>
ASSUME BytesOfLE(WordsLE(<<1, 2, 3, 4, 5, 6, 7, 8>>)) = <<1, 2, 3, 4, 5, 6, 7, 8>> /\ BytesOfBE(WordsBE(<<1, 2, 3, 4, 5, 6, 7, 8>>)) = <<1, 2, 3, 4, 5, 6, 7, 8>>
ASSUME Lt32(<<0, 65535>>, <<1, 0>>) /\ ~Lt32(<<1, 0>>, <<1, 0>>) /\ Le32(<<1, 0>>, <<1, 0>>)
=============================================================================
