#!/usr/bin/env python3
"""tools/benign_keep.py <id> <slug> <what changed> <result...>  -- keep a property-PRESERVING change (false-alarm campaign) under benign/<id>-<slug>/"""
import sys, os, shutil, json
pid, slug, what, ran = sys.argv[1], sys.argv[2], sys.argv[3], sys.argv[4:]
src = os.environ.get("BEN_SRC", "/tmp/ben-%s" % pid) + "/BENIGN"
V = os.path.dirname(os.path.dirname(os.path.abspath(__file__)))
d = os.path.join(V, "benign", "%s-%s" % (pid, slug))
os.makedirs(d, exist_ok=True)
for f in ("patch.diff", "notes.md"):
    if os.path.exists(os.path.join(src, f)):
        shutil.copy(os.path.join(src, f), os.path.join(d, f))
json.dump({"property": pid, "slug": slug, "what_changed": what, "expected": "every check exits 0 (the property still holds)", "ran": ran},
          open(os.path.join(d, "meta.json"), "w"), indent=1)
print("kept", d)
