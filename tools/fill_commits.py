#!/usr/bin/env python3
"""Replace commit "PENDING" in findings.d entries by the hash of the applied fix (proposed/applied/COMMITS: '<slug> <hash>')."""
import json, glob, os, re
V = os.path.dirname(os.path.dirname(os.path.abspath(__file__)))
table = dict(l.split() for l in open(os.path.join(V, "proposed/applied/COMMITS")) if l.strip())
for f in sorted(glob.glob(os.path.join(V, "findings.d", "C*.json"))):
    d = json.load(open(f)); ch = False
    for e in d:
        if e.get("commit") != "PENDING":
            continue
        slugs = [s for s in table if s in e.get("what", "")]
        if not slugs:
            slugs = [s for s in table if s.startswith(e["property"] + "-") and "hook" not in s]
        if len(slugs) == 1:
            h = table[slugs[0]]
            e["commit"] = h
            e["what"] = e["what"].replace("PENDING", h)
            ch = True
        else:
            print("unresolved:", e["property"], e["signature"], slugs)
    if ch:
        json.dump(d, open(f, "w"), indent=1)
