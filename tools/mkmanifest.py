#!/usr/bin/env python3
"""Assemble MANIFEST.json from checks.d/<id>.json fragments (+ manifest.base.json)."""
import json, os, glob
V = os.path.dirname(os.path.dirname(os.path.abspath(__file__)))
base = json.load(open(os.path.join(V, "manifest.base.json")))
props = [json.loads(l)["id"] for l in open(os.path.join(V, "properties.jsonl")) if l.strip()]
checks, claimed = [], set()
ready = set(open(os.path.join(V, "checks.d", "READY")).read().split())   # ids reviewed by the coordinator
for f in sorted(glob.glob(os.path.join(V, "checks.d", "C*.json"))):
    c = json.load(open(f))
    pid = c["property_id"]
    if pid not in ready:
        continue
    claimed.add(pid)
    checks.append({
        "property_id": pid,
        "quick_cmd": "tools/check %s --tier quick" % pid,
        "thorough_cmd": "tools/check %s --tier thorough" % pid,
        "evidence_file": "/verif/evidence/%s.json" % pid,
        "replay_cmd_template": "tools/check %s --replay {path}" % pid,
        "engine": c.get("engine", "tlc+conformance"),
        "level_claimed": {"category": c["category"], "text": c["text"], "design_ref": c.get("design_ref", "DESIGN.md §3 " + pid)},
        "level_note": c["note"],
        "technique": c["technique"],
    })
na = dict((x["property_id"], x["reason"]) for x in base.get("not_applicable", []))
base["checks"] = checks
base["not_applicable"] = [{"property_id": p, "reason": na.get(p, "check not built yet (work in progress; see DESIGN.md §3 for the plan)")}
                          for p in props if p not in claimed]
json.dump(base, open(os.path.join(V, "MANIFEST.json"), "w"), indent=1)
print("MANIFEST.json: %d checks, %d not_applicable" % (len(checks), len(base["not_applicable"])))

# known_findings.json is assembled from findings.d/<id>.json (one list of entries per property)
allf = []
for f in sorted(glob.glob(os.path.join(V, "findings.d", "C*.json"))):
    allf += json.load(open(f))
json.dump({"format": "entries: property, signature (clause id reported by the check), status known|fixed, commit (for fixed), what. "
                     "Assembled by tools/mkmanifest.py from findings.d/; never written at check run time.",
           "findings": allf}, open(os.path.join(V, "known_findings.json"), "w"), indent=1)
print("known_findings.json: %d entries" % len(allf))
