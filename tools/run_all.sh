#!/bin/sh
# tools/run_all.sh <tier> [per-check timeout seconds] [ids...]: run every registered check in sequence, print "<id> rc=<exit> wall=<s>"
TIER=${1:-quick}; TO=${2:-3600}; shift; shift
cd "$(dirname "$0")/.."
IDS="$*"
[ -z "$IDS" ] && IDS=$(cat checks.d/READY)
mkdir -p .runlogs
for id in $IDS; do
  s=$(date +%s)
  timeout "$TO" tools/check "$id" --tier "$TIER" > ".runlogs/$id.$TIER.log" 2>&1
  rc=$?
  echo "$id rc=$rc wall=$(( $(date +%s) - s ))s $(grep -c '^VIOLATION' .runlogs/$id.$TIER.log) violations"
done
