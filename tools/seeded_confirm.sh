#!/bin/sh
# tools/seeded_confirm.sh <id> [extra link objects...]: confirm a seeded change in /tmp/mut-<id>:
#  (1) the pinned suite passes with the change (worktree's _build), (2) demo fails with the change,
#  (3) demo passes on the unchanged tree (/repo/_build library, /repo headers).
ID="$1"; WT=/tmp/mut-$ID; shift
cd "$WT" || exit 2
echo "== suite with the change"; ninja -C _build -k 0 >/dev/null 2>&1; ctest --test-dir _build -j4 --timeout 900 2>&1 | grep -E "tests passed|Not Run|Failed|\*\*\*" | head -5
echo "== demo with the change"
g++ -std=c++20 -O1 -I"$WT/include" MUTANT/demo.cpp $* "$WT/_build/libephemeralnet_core.a" -pthread -lcurl -o /tmp/demo-$ID-mut 2>&1 | tail -3
timeout 300 /tmp/demo-$ID-mut > /tmp/demo-$ID-mut.out 2>&1; echo "exit $? (expected non-zero)"; tail -3 /tmp/demo-$ID-mut.out
echo "== demo on the unchanged tree"
g++ -std=c++20 -O1 -I/repo/include MUTANT/demo.cpp $* /repo/_build/libephemeralnet_core.a -pthread -lcurl -o /tmp/demo-$ID-base 2>&1 | tail -3
timeout 300 /tmp/demo-$ID-base > /tmp/demo-$ID-base.out 2>&1; echo "exit $? (expected 0)"; tail -2 /tmp/demo-$ID-base.out
