#!/bin/sh
# tools/seeded_confirm2.sh <wtid> <relay|daemon|daemon-noclient> [demo args...]: like seeded_confirm.sh for demos that link the relay or daemon objects
ID="$1"; KIND="$2"; shift; shift
WT=/tmp/mut-$ID
objs() { B="$1/_build/CMakeFiles"; case "$KIND" in
  relay) echo "$B/ephemeralnet_relay.dir/src/relay/RelayServer.cpp.o $B/ephemeralnet_relay.dir/src/relay/EventLoop.cpp.o" ;;
  daemon) ls $B/ephemeralnet.dir/src/daemon/*.o | tr '\n' ' ' ;;
  daemon-noclient) ls $B/ephemeralnet.dir/src/daemon/*.o | grep -v ControlClient | tr '\n' ' ' ;;
  esac; }
cd "$WT" || exit 2
echo "== suite with the change"; ninja -C _build -k 0 >/dev/null 2>&1; ctest --test-dir _build -j4 --timeout 900 2>&1 | grep -E "tests passed|Not Run|Failed|\*\*\*" | head -5
echo "== demo with the change"
g++ -std=c++20 -O1 -I"$WT/include" MUTANT/demo.cpp $(objs "$WT") "$WT/_build/libephemeralnet_core.a" -pthread -lcurl -lutil -o /tmp/demo-$ID-mut 2>&1 | tail -3
timeout 600 /tmp/demo-$ID-mut "$@" > /tmp/demo-$ID-mut.out 2>&1; echo "exit $? (expected non-zero)"; tail -2 /tmp/demo-$ID-mut.out
echo "== demo on the unchanged tree"
g++ -std=c++20 -O1 -I/repo/include MUTANT/demo.cpp $(objs /repo) /repo/_build/libephemeralnet_core.a -pthread -lcurl -lutil -o /tmp/demo-$ID-base 2>&1 | tail -3
timeout 600 /tmp/demo-$ID-base "$@" > /tmp/demo-$ID-base.out 2>&1; echo "exit $? (expected 0)"; tail -2 /tmp/demo-$ID-base.out
