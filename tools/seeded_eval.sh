#!/bin/sh
# tools/seeded_eval.sh <mutant-worktree> <check ids...>
# Runs the given checks (quick tier) against a scratch worktree that has a seeded change applied,
# with a private build directory; prints exit codes and VIOLATION lines. (Equivalent to applying the
# patch in /repo and undoing it, but does not disturb checks that are running against /repo.)
WT="$1"; shift
B="/verif/.build-seeded-$(basename "$WT")"
for id in "$@"; do
  VERIF_REPO="$WT" VERIF_BUILD="$B" VERIF_EVIDENCE="$B.evidence" VERIF_NO_MC_CACHE= /verif/tools/check "$id" --tier quick > "$B.$id.log" 2>&1
  echo "== $id against $WT: exit $?"
  grep -E "^VIOLATION|^KNOWN-FINDING|MACHINERY|MODEL-VIOLATION" "$B.$id.log" | cut -c1-220
done
