#!/usr/bin/env python3
"""tools/seeded_keep.py <id> <slug> <breaks> <needs> <caught_by> <ran...>  -- store a confirmed seeded change under seeded/<id>-<slug>/"""
import sys, os, shutil, json
pid, slug, needs, caught, ran = sys.argv[1], sys.argv[2], sys.argv[3], sys.argv[4], sys.argv[5:]
src = os.environ.get("MUT_SRC", "/tmp/mut-%s" % pid) + "/MUTANT"
V = os.path.dirname(os.path.dirname(os.path.abspath(__file__)))
d = os.path.join(V, "seeded", "%s-%s" % (pid, slug))
os.makedirs(d, exist_ok=True)
for f in ("patch.diff", "demo.cpp", "notes.md"):
    if os.path.exists(os.path.join(src, f)):
        shutil.copy(os.path.join(src, f), os.path.join(d, f))
json.dump({"property": pid, "slug": slug, "needs_to_manifest": needs, "detected_by": caught,
           "confirmed": "tools/seeded_confirm.sh %s: pinned suite passes with the change (46/46, CLIFetchDir not built on this toolchain); demo fails with the change and passes on the unchanged tree" % pid,
           "ran": ran}, open(os.path.join(d, "meta.json"), "w"), indent=1)
print("kept", d)
