#!/usr/bin/env python3
"""print the markdown table of kept seeded changes (seeded/*/meta.json) for DESIGN.md"""
import json, glob, os
V = os.path.dirname(os.path.dirname(os.path.abspath(__file__)))
print("| seeded change | property | needs, to manifest | detected by |")
print("|---|---|---|---|")
for f in sorted(glob.glob(os.path.join(V, "seeded", "*", "meta.json"))):
    m = json.load(open(f))
    print("| `seeded/%s` | %s | %s | %s |" % (os.path.basename(os.path.dirname(f)), m["property"], m["needs_to_manifest"].replace("|", "/"), m["detected_by"].replace("|", "/")))
