#!/usr/bin/env python3
"""regenerate the seeded-change table of DESIGN.md (between the SEEDED-TABLE markers) from seeded/*/meta.json"""
import os, re, subprocess, sys
V = os.path.dirname(os.path.dirname(os.path.abspath(__file__)))
table = subprocess.run([sys.executable, os.path.join(V, "tools", "seeded_table.py")], capture_output=True, text=True, check=True).stdout.strip()
p = os.path.join(V, "DESIGN.md")
s = open(p).read()
s2 = re.sub(r"<!-- SEEDED-TABLE-BEGIN -->.*?<!-- SEEDED-TABLE-END -->", lambda m: "<!-- SEEDED-TABLE-BEGIN -->\n" + table + "\n<!-- SEEDED-TABLE-END -->", s, flags=re.S)
import glob, json
rows = ["| kept change | property | what changed | checks run (all exit 0) |", "|---|---|---|---|"]
for d in sorted(glob.glob(os.path.join(V, "benign", "*", "meta.json"))):
    m = json.load(open(d))
    rows.append("| `benign/%s` | %s | %s | %s |" % (os.path.basename(os.path.dirname(d)), m["property"], m["what_changed"].replace("|", "/"), "; ".join(m["ran"]).replace("|", "/")))
s2 = re.sub(r"<!-- BENIGN-TABLE-BEGIN -->.*?<!-- BENIGN-TABLE-END -->", lambda m: "<!-- BENIGN-TABLE-BEGIN -->\n" + "\n".join(rows) + "\n<!-- BENIGN-TABLE-END -->", s2, flags=re.S)
open(p, "w").write(s2)
print("table rows:", table.count("\n") - 1)
