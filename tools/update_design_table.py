#!/usr/bin/env python3
"""regenerate the seeded-change table of DESIGN.md (between the SEEDED-TABLE markers) from seeded/*/meta.json"""
import os, re, subprocess, sys
V = os.path.dirname(os.path.dirname(os.path.abspath(__file__)))
table = subprocess.run([sys.executable, os.path.join(V, "tools", "seeded_table.py")], capture_output=True, text=True, check=True).stdout.strip()
p = os.path.join(V, "DESIGN.md")
s = open(p).read()
s2 = re.sub(r"<!-- SEEDED-TABLE-BEGIN -->.*?<!-- SEEDED-TABLE-END -->", lambda m: "<!-- SEEDED-TABLE-BEGIN -->\n" + table + "\n<!-- SEEDED-TABLE-END -->", s, flags=re.S)
open(p, "w").write(s2)
print("table rows:", table.count("\n") - 1)
