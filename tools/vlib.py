"""Shared machinery of the EphemeralNet checks: build, TLC (model checking, sequence export,
trace validation), findings classification, evidence.  stdlib only."""
import fcntl, json, os, re, shutil, subprocess, sys, time, hashlib, random

VERIF = os.path.dirname(os.path.dirname(os.path.abspath(__file__)))
REPO = os.environ.get("VERIF_REPO", "/repo")
BUILD = os.environ.get("VERIF_BUILD", os.path.join(VERIF, ".build"))
SPEC = os.path.join(VERIF, "spec")
EVID = os.environ.get("VERIF_EVIDENCE", os.path.join(VERIF, "evidence"))   # seeded-change evaluations write elsewhere
TLA_CP = "/opt/veriftools/tla/tla2tools.jar:/opt/veriftools/tla/CommunityModules-deps.jar"
NCPU = os.cpu_count() or 4


class MachineryError(Exception):
    """build failure, TLC parse error, vacuity, time-out: exit 2, never a VIOLATION"""


def log(*a):
    print(*a, flush=True)


def sh(cmd, timeout=None, env=None, cwd=None, check=True, stdin=None):
    e = dict(os.environ)
    if env:
        e.update(env)
    try:
        p = subprocess.run(cmd, shell=isinstance(cmd, str), stdout=subprocess.PIPE, stderr=subprocess.STDOUT,
                           timeout=timeout, env=e, cwd=cwd, input=stdin)
    except subprocess.TimeoutExpired as ex:
        raise MachineryError("timeout after %ss: %s" % (timeout, cmd if isinstance(cmd, str) else " ".join(cmd)))
    out = p.stdout.decode("utf-8", "replace")
    if check and p.returncode != 0:
        raise MachineryError("command failed rc=%d: %s\n%s" % (p.returncode, cmd if isinstance(cmd, str) else " ".join(cmd), out[-4000:]))
    return p.returncode, out


# ----------------------------------------------------------------------------------------
# build
def build(targets, flavour="plain"):
    """make the harness binaries (from /repo's current working tree); returns dict name->path"""
    if isinstance(targets, str):
        targets = [targets]
    os.makedirs(BUILD, exist_ok=True)
    bins = [os.path.join(BUILD, flavour, "bin", t) for t in targets]
    lock = open(os.path.join(BUILD, "build-%s.lock" % flavour), "w")
    fcntl.flock(lock, fcntl.LOCK_EX)
    try:
        t0 = time.time()
        rc, out = sh(["make", "-f", os.path.join(VERIF, "harness", "Makefile"), "-j%d" % NCPU, "FLAVOUR=" + flavour,
                      "REPO=" + REPO, "VERIF=" + VERIF, "BROOT=" + BUILD] + bins, timeout=1500, cwd=VERIF, check=False)
        if rc != 0:
            raise MachineryError("build failed (%s):\n%s" % (flavour, out[-6000:]))
        log("[build] %s %s %.1fs" % (flavour, " ".join(targets), time.time() - t0))
    finally:
        fcntl.flock(lock, fcntl.LOCK_UN)
        lock.close()
    return dict(zip(targets, bins))


def workdir(name):
    d = os.path.join(BUILD, "work", name)
    shutil.rmtree(d, ignore_errors=True)
    os.makedirs(d)
    return d


# ----------------------------------------------------------------------------------------
# TLC
def tlc(module, cfg, workers=None, timeout=600, env=None, extra=(), heap="8g", wd=None, deque=False):
    """run TLC in spec/ ; returns stdout. Model failures are returned (caller inspects)."""
    meta = wd or workdir("tlc-%s-%s-%d" % (module, os.path.basename(cfg).replace(".cfg", ""), os.getpid()))
    cmd = ["java", "-XX:+UseParallelGC", "-Xmx" + heap, "-Dtlc2.tool.fp.FPSet.impl=tlc2.tool.fp.OffHeapDiskFPSet"]
    if deque:
        cmd.append("-Dtlc2.tool.queue.IStateQueue=StateDeque")
    cmd += ["-cp", TLA_CP, "tlc2.TLC", "-workers", str(workers or "auto"), "-metadir", os.path.join(meta, "states"),
            "-noGenerateSpecTE", "-config", cfg] + list(extra) + [module + ".tla"]
    t0 = time.time()
    rc, out = sh(cmd, timeout=timeout, env=env, cwd=SPEC, check=False)
    dt = time.time() - t0
    shutil.rmtree(os.path.join(meta, "states"), ignore_errors=True)
    if "Parsing or semantic analysis failed" in out or "***Parse Error***" in out or "TLC threw an unexpected exception" in out \
            or "Error: " in out and "Invariant" not in out and "is violated" not in out and "Temporal properties were violated" not in out:
        # evaluation errors are machinery errors unless they are a reported property violation
        if not re.search(r"Invariant \S+ is violated|Temporal properties were violated|Deadlock reached", out):
            raise MachineryError("TLC error in %s/%s:\n%s" % (module, cfg, out[-5000:]))
    return TlcOut(out, rc, dt)


class TlcOut:
    def __init__(self, out, rc, dt):
        self.out, self.rc, self.dt = out, rc, dt
        m = re.search(r"(\d+) states generated, (\d+) distinct states found", out)
        self.generated = int(m.group(1)) if m else 0
        self.distinct = int(m.group(2)) if m else 0
        m = re.search(r"depth of the complete state graph search is (\d+)", out)
        self.depth = int(m.group(1)) if m else 0
        m = re.search(r"Invariant (\S+) is violated", out)
        self.violated = m.group(1) if m else ("liveness" if "Temporal properties were violated" in out else None)
        self.completed = "Model checking completed" in out or "Finished in" in out

    def results(self):
        """VERIF_RESULT payloads printed by the spec (TraceKit!Report)"""
        res = []
        for m in re.finditer(r'<<"VERIF_RESULT", "((?:[^"\\]|\\.)*)">>', self.out):
            res.append(json.loads(json.loads('"' + m.group(1) + '"')))
        return res

    def coverage(self):
        """per-action <name line ...>: taken:generated  from -coverage output"""
        cov = {}
        for m in re.finditer(r"<(\w+) line \d+, col \d+ to line \d+, col \d+ of module (\w+)>: (\d+):(\d+)", self.out):
            cov[m.group(1)] = (int(m.group(3)), int(m.group(4)))
        return cov


def _spec_key(module, cfg, extra=""):
    """content hash of every specification source + the cfg: model-checking results depend on
    nothing else (in particular not on /repo), so they are memoised under .build/mc-cache"""
    h = hashlib.sha256()
    import glob
    for f in sorted(glob.glob(os.path.join(SPEC, "*.tla"))):
        h.update(f.encode() + b"\0" + open(f, "rb").read())
    h.update(open(os.path.join(SPEC, cfg), "rb").read())
    h.update((module + "|" + cfg + "|" + extra).encode())
    return h.hexdigest()[:24]


def _cache_get(key):
    p = os.path.join(BUILD, "mc-cache", key + ".json")
    if os.environ.get("VERIF_NO_MC_CACHE") or not os.path.exists(p):
        return None
    try:
        return json.load(open(p))
    except Exception:
        return None


def _cache_put(key, obj):
    d = os.path.join(BUILD, "mc-cache")
    os.makedirs(d, exist_ok=True)
    tmp = os.path.join(d, key + ".tmp%d" % os.getpid())
    json.dump(obj, open(tmp, "w"))
    os.replace(tmp, os.path.join(d, key + ".json"))


def mc(module, cfg, expect_violation=None, **kw):
    """model-check; returns TlcOut.  expect_violation: invariant name that MUST be violated
    (deviation / reachability configs); None: no violation may occur.
    Results are memoised by the content hash of the spec sources (set VERIF_NO_MC_CACHE=1 to force)."""
    key = None
    if not kw.get("extra") and not kw.get("env"):
        key = _spec_key(module, cfg, "mc")
        c = _cache_get(key)
        if c is not None:
            r = TlcOut(c["out"], c["rc"], c["dt"])
            r.cached = True
            if (expect_violation is None and not r.violated and r.completed and r.distinct > 0) or (expect_violation and r.violated == expect_violation):
                log("[tlc] %s %s: %d generated, %d distinct, depth %d (memoised: identical spec sources, first run took %.1fs)%s" % (
                    module, os.path.basename(cfg), r.generated, r.distinct, r.depth, r.dt, (" (expected violation of %s found)" % expect_violation) if expect_violation else ""))
                return r
    r = tlc(module, cfg, **kw)
    if key:
        _cache_put(key, {"out": r.out[-20000:], "rc": r.rc, "dt": r.dt})
    if expect_violation is None:
        if r.violated:
            raise ModelViolation(module, cfg, r)
        if not r.completed or r.distinct == 0:
            raise MachineryError("TLC did not complete %s/%s:\n%s" % (module, cfg, r.out[-3000:]))
    else:
        if r.violated != expect_violation:
            raise MachineryError("vacuity: %s/%s expected violation of %s, got %s\n%s" % (module, cfg, expect_violation, r.violated, r.out[-2000:]))
    log("[tlc] %s %s: %d generated, %d distinct, depth %d, %.1fs%s" % (module, os.path.basename(cfg), r.generated, r.distinct, r.depth, r.dt,
                                                                       (" (expected violation of %s found)" % expect_violation) if expect_violation else ""))
    return r


class ModelViolation(Exception):
    def __init__(self, module, cfg, r):
        super().__init__("model %s/%s violates %s" % (module, cfg, r.violated))
        self.module, self.cfg, self.r = module, cfg, r


# ---- TLA+ value parser (for -dump output) -------------------------------------------------
class _P:
    def __init__(self, s):
        self.s, self.i = s, 0

    def ws(self):
        while self.i < len(self.s) and self.s[self.i] in " \t\r\n":
            self.i += 1

    def eat(self, tok):
        self.ws()
        if self.s.startswith(tok, self.i):
            self.i += len(tok)
            return True
        return False

    def need(self, tok):
        if not self.eat(tok):
            raise ValueError("expected %r at %d: %r" % (tok, self.i, self.s[self.i:self.i + 40]))

    def val(self):
        self.ws()
        s = self.s
        c = s[self.i]
        if c == '"':
            j = self.i + 1
            out = []
            while s[j] != '"':
                if s[j] == "\\":
                    j += 1
                out.append(s[j])
                j += 1
            self.i = j + 1
            return "".join(out)
        if s.startswith("<<", self.i):
            self.i += 2
            items = []
            if self.eat(">>"):
                return items
            while True:
                items.append(self.val())
                if self.eat(">>"):
                    return items
                self.need(",")
        if c == "{":
            self.i += 1
            items = []
            if self.eat("}"):
                return {"$set": items}
            while True:
                items.append(self.val())
                if self.eat("}"):
                    return {"$set": items}
                self.need(",")
        if c == "[":
            self.i += 1
            rec = {}
            while True:
                self.ws()
                m = re.compile(r"[A-Za-z_][A-Za-z0-9_]*").match(s, self.i)
                k = m.group(0)
                self.i = m.end()
                self.need("|->")
                rec[k] = self.val()
                if self.eat("]"):
                    return rec
                self.need(",")
        if c == "(":
            self.i += 1
            fn = {}
            while True:
                k = self.val()
                self.need(":>")
                v = self.val()
                fn[json.dumps(k) if not isinstance(k, (str, int)) else k] = v
                if self.eat(")"):
                    return fn
                self.need("@@")
        m = re.compile(r"-?\d+").match(s, self.i)
        if m:
            self.i = m.end()
            return int(m.group(0))
        m = re.compile(r"[A-Za-z_][A-Za-z0-9_]*").match(s, self.i)
        if m:
            self.i = m.end()
            w = m.group(0)
            return True if w == "TRUE" else False if w == "FALSE" else w
        raise ValueError("cannot parse at %d: %r" % (self.i, s[self.i:self.i + 40]))


def parse_tla(s):
    return _P(s).val()


def dump_hists(module, cfg, var="hist", **kw):
    """model-check with -dump and return (TlcOut, [hist value per distinct state])"""
    key = _spec_key(module, cfg, "dump:" + var)
    c = _cache_get(key)
    if c is not None:
        r = TlcOut(c["out"], c["rc"], c["dt"])
        log("[tlc] %s %s: state dump memoised (%d sequences)" % (module, cfg, len(c["hists"])))
        return r, c["hists"]
    wd = workdir("dump-%s-%s-%d" % (module, os.path.basename(cfg).replace(".cfg", ""), os.getpid()))
    dumpf = os.path.join(wd, "dump")
    r = mc(module, cfg, extra=["-dump", dumpf], wd=wd, **kw)
    text = open(dumpf + ".dump").read() if os.path.exists(dumpf + ".dump") else open(dumpf).read()
    hists = []
    # states are separated by "State N:" headers; a variable conjunct is "/\ var = value"
    for block in re.split(r"^State \d+:\s*$", text, flags=re.M)[1:]:
        m = re.search(r"^/\\ %s = (.*?)(?=^/\\ |\Z)" % re.escape(var), block, flags=re.M | re.S)
        if m:
            hists.append(parse_tla(m.group(1).strip()))
    shutil.rmtree(wd, ignore_errors=True)
    _cache_put(key, {"out": r.out[-20000:], "rc": r.rc, "dt": r.dt, "hists": hists})
    return r, hists


def validate(module, tracefile, cfg=None, timeout=900, heap="8g", deque=False):
    """trace validation: returns the VERIF_RESULT dict {events, viol:[{l, clause, detail}], stats}"""
    cfg = cfg or module + ".cfg"
    r = tlc(module, cfg, workers=1, timeout=timeout, env={"TRACE": tracefile}, heap=heap, deque=deque)
    res = r.results()
    if not res:
        raise MachineryError("trace validation produced no result (%s on %s):\n%s" % (module, tracefile, r.out[-4000:]))
    out = res[-1]
    out["tlc_states"] = r.distinct
    out["wall"] = r.dt
    return out


# ----------------------------------------------------------------------------------------
# findings, reporting, evidence
def load_findings():
    p = os.path.join(VERIF, "known_findings.json")
    if not os.path.exists(p):
        return []
    return json.load(open(p))["findings"]


def findings_for(pid):
    return [f for f in load_findings() if f["property"] == pid]


class Check:
    """one run of one property's check"""

    def __init__(self, pid, tier, seed):
        self.pid, self.tier, self.seed = pid, tier, seed
        self.t0 = time.time()
        self.viol = []       # (signature, description, replay_path)
        self.known = []      # (signature, description)
        self.cov = {"states": 0, "transitions": 0, "traces_validated_against_impl": 0, "samples": [], "evaluations": 0,
                    "distinct_nontrivial": 0, "models": [], "checker_cmd": "tools/check %s --tier %s" % (pid, tier)}
        self.assumptions = []
        self.level = "model_checking"
        self.rng = random.Random(seed)
        self._nontrivial = set()

    # ---- accounting
    def add_model(self, name, r, note=""):
        self.cov["states"] += r.distinct
        self.cov["transitions"] += r.generated
        self.cov["models"].append({"model": name, "distinct_states": r.distinct, "states_generated": r.generated, "depth": r.depth,
                                   "wall_s": round(r.dt, 1), "note": note})

    def add_traces(self, n_behaviours, n_events, res=None, what=""):
        self.cov["traces_validated_against_impl"] += n_behaviours
        self.cov["evaluations"] += n_events
        self.cov.setdefault("trace_sets", []).append({"what": what, "behaviours": n_behaviours, "events": n_events,
                                                      "stats": (res or {}).get("stats")})

    def nontrivial(self, key):
        self._nontrivial.add(key if isinstance(key, str) else json.dumps(key, sort_keys=True))

    def sample(self, s):
        if len(self.cov["samples"]) < 6:
            self.cov["samples"].append(s)

    # ---- verdicts
    def report(self, signature, what, replay_lines=None, replay_name=None):
        """a contract disagreement with signature (string starting with the property id)"""
        if not signature.startswith(self.pid):
            return  # clause of another property: not this check's business
        for f in load_findings():
            if f.get("status") == "known" and f["property"] == self.pid and \
                    (f["signature"] == signature or (f.get("match") == "prefix" and signature.startswith(f["signature"]))):
                if not any(k[0] == signature for k in self.known):
                    self.known.append((signature, f.get("what", what)))
                return
        if any(v[0] == signature for v in self.viol):
            return
        os.makedirs(os.path.join(EVID, "replay"), exist_ok=True)
        path = os.path.join(EVID, "replay", "%s-%s.txt" % (self.pid, re.sub(r"[^A-Za-z0-9_.-]", "_", replay_name or signature)))
        with open(path, "w") as f:
            f.write("# property=%s signature=%s\n# %s\n" % (self.pid, signature, what))
            for ln in replay_lines or []:
                f.write(ln.rstrip("\n") + "\n")
        self.viol.append((signature, what, path))

    def finish(self):
        self.cov["distinct_nontrivial"] = max(self.cov.get("distinct_nontrivial", 0), len(self._nontrivial))
        ev = {"property_id": self.pid, "tier": self.tier, "seed": self.seed, "level": self.level, "coverage": self.cov,
              "assumptions": self.assumptions, "wall_s": round(time.time() - self.t0, 1), "violations": len(self.viol),
              "known_findings": [k[0] for k in self.known]}
        if self.level in ("exploration", "fault_enumeration") and "rule" not in self.cov:
            self.cov["rule"] = "cases enumerated by the TLA+ specification (TLC) plus seeded random cases; distinct_nontrivial counts distinct case classes recorded via Check.nontrivial()"
        if not self.cov["samples"]:
            self.cov["samples"] = ["(no sample recorded)"]
        os.makedirs(EVID, exist_ok=True)
        tmp = os.path.join(EVID, self.pid + ".json.tmp")
        json.dump(ev, open(tmp, "w"), indent=1)
        os.replace(tmp, os.path.join(EVID, self.pid + ".json"))
        for sig, what in self.known:
            log("KNOWN-FINDING: property=%s %s [%s]" % (self.pid, what, sig))
        for sig, what, path in self.viol:
            log("VIOLATION property=%s replay=%s  (%s: %s)" % (self.pid, path, sig, what))
        log("[%s] %s tier: states=%d traces=%d events=%d violations=%d known=%d wall=%.1fs" % (
            self.pid, self.tier, self.cov["states"], self.cov["traces_validated_against_impl"], self.cov["evaluations"],
            len(self.viol), len(self.known), time.time() - self.t0))
        return 1 if self.viol else 0


# ---- helpers for script/trace handling ---------------------------------------------------------
def fmt_cmd(op, **kv):
    return op + "".join(" %s=%s" % (k, v) for k, v in kv.items())


def read_ndjson(path):
    return [json.loads(x) for x in open(path) if x.strip()]


def behaviours_of(events):
    """split an event list at reset events -> list of (start_line_1based, [events])"""
    out = []
    for i, e in enumerate(events):
        if e.get("op") == "reset" or not out:
            out.append((i + 1, []))
        out[-1][1].append(e)
    return out


def report_trace_violations(chk, res, events, script_lines=None, label="", behaviours=None, harness=None):
    """turn VERIF_RESULT violations into reports; the replay file holds the failing behaviour: its script (lines "SCRIPT ...",
    when the driver's reset events carry the behaviour ordinal `bi` and the scripted behaviours are given) and the recorded events"""
    behs = behaviours_of(events)
    for v in res.get("viol", []):
        l = v["l"]
        beh = next((b for b in reversed(behs) if b[0] <= l), behs[0])
        lines = ["# failing event (trace line %d): %s" % (l, json.dumps(v.get("detail")))]
        bi = beh[1][0].get("bi") if beh[1] else None
        if behaviours is not None and bi and 1 <= bi <= len(behaviours):
            lines.append("# harness=%s label=%s" % (harness or "", label))
            lines += ["SCRIPT " + ln for ln in behaviours[bi - 1]]
        lines += [json.dumps(e) for e in beh[1][: l - beh[0] + 1]]
        clauses = v["clause"] if isinstance(v["clause"], list) else [v["clause"]]
        for cl in clauses:
            chk.report(cl, "%s contract clause %s fails on a recorded execution%s" % (chk.pid, cl, (" (" + label + ")") if label else ""),
                       lines, replay_name=cl)


def read_replay(path):
    """(harness name, script lines) of a replay file written by report_trace_violations"""
    harness, lines = "", []
    for x in open(path):
        if x.startswith("# harness="):
            harness = x[len("# harness="):].split()[0] if len(x.strip()) > len("# harness=") else ""
        elif x.startswith("SCRIPT "):
            lines.append(x[len("SCRIPT "):].rstrip("\n"))
    if not lines:
        raise MachineryError("replay file %s carries no script (SCRIPT lines)" % path)
    return harness, lines